// Unit c03_fungible_supply -- property C03 "Every committed transaction conserves resources", at the level of
// the FUNGIBLE RESOURCE MANAGER and of the public take / put of its vaults and buckets:
//  * minting and burning change the recorded total supply by exactly the amount put into / taken out of
//    circulation (the new / dropped bucket), and nothing else;
//  * a withdrawal creates a bucket holding exactly what left the vault's (bucket's) balance, a deposit consumes a
//    bucket and adds exactly its amount.
// Real code: radix-engine/src/blueprints/resource/fungible/fungible_resource_manager.rs ::
//     verify_divisibility, check_mint_amount, FungibleResourceManagerBlueprint::{mint, burn, package_burn,
//     burn_internal, drop_empty_bucket, create_empty_bucket, create_bucket, get_total_supply,
//     get_resource_type, assert_mintable, assert_burnable}
//   radix-engine/src/blueprints/resource/fungible/fungible_vault.rs :: FungibleVaultBlueprint::{take, take_advanced,
//     put, internal_take, internal_put, get_divisibility, assert_not_frozen}
//   radix-engine/src/blueprints/resource/fungible/fungible_bucket.rs :: FungibleBucketBlueprint::{take,
//     take_advanced, put, internal_take, get_divisibility}
//   radix-engine/src/blueprints/resource/bucket_common.rs :: drop_fungible_bucket, From<BucketError> for RuntimeError
//   radix-engine-interface/src/blueprints/resource/mod.rs :: check_fungible_amount
//   radix-engine-interface/src/blueprints/resource/resource.rs :: LiquidFungibleResource::{new, amount, is_empty,
//     put, take_by_amount}, LockedFungibleResource::{is_locked, default}
// run against a ghost-heap model of the SystemApi (env::SystemApi): fields keyed by (SELF | OUTER object, index)
// -- resource manager as actor: 0 = Divisibility, 1 = TotalSupply (present iff feature TrackTotalSupply);
// vault / bucket as actor: 0 = liquid balance, 1 = lock table, 2 = freeze status, OUTER 0 = Divisibility --
// the set of enabled features, the live objects (buckets) with their fields, and the event log.
// The lock accounting of vaults / buckets (proofs) is unit c10_vault_locks; the containers are unit
// c03_resource_containers; the rounding of for_withdrawal is unit c25_rounding.
use vstd::prelude::*;
// radix-rust `indexmap!{ k => v, .. }` (radix-rust/src/rust.rs): a fresh IndexMap, the pairs inserted in order
macro_rules! indexmap {
    ($($key:expr => $value:expr),* $(,)?) => ({
        let mut temp = index_map_new();
        $( temp.insert($key, $value); )*
        temp
    });
}
verus! {
/*@include shims/rt.rs @*/
/*@include shims/decimal.rs @*/
/*@include shims/maps.rs @*/
/*@include shims/sets.rs @*/
/*@include shims/decimal_attos.rs @*/
/*@include shims/try_from.rs @*/

pub mod env {
    use vstd::prelude::*;
    use super::decimal::*;
    use super::decimal::Decimal;
    use super::maps::IndexMap;
    use super::unit::{FungibleResourceManagerError, BucketError, VaultError, DroppedFungibleBucket,
        MintFungibleResourceEvent, BurnFungibleResourceEvent, LiquidFungibleResource, WithdrawStrategy, VaultFrozenFlag};

    // ================================================================================ addresses ==
    /// radix-common/src/types/node_id.rs
    #[derive(Clone, Copy, PartialEq, Eq)]
    pub struct NodeId(pub [u8; 30]);
    /// radix-common/src/data/scrypto/model/own.rs
    #[derive(Clone, Copy, PartialEq, Eq)]
    pub struct Own(pub NodeId);
    impl Own {
        pub fn as_node_id(&self) -> (r: &NodeId) ensures *r == self.0 { &self.0 }
    }
    /// radix-engine/src/errors.rs :: error_models::OwnedNodeId (a display wrapper around NodeId)
    pub mod error_models {
        use vstd::prelude::*;
        pub struct OwnedNodeId(pub super::NodeId);
        impl From<super::NodeId> for OwnedNodeId {
            fn from(n: super::NodeId) -> (r: OwnedNodeId) ensures r.0 == n { OwnedNodeId(n) }
        }
        impl vstd::std_specs::convert::FromSpecImpl<super::NodeId> for OwnedNodeId {
            open spec fn obeys_from_spec() -> bool { true }
            open spec fn from_spec(n: super::NodeId) -> OwnedNodeId { OwnedNodeId(n) }
        }
    }
    // ---- opaque payload types of error variants that the functions under contract never build ----
    #[verifier::external_body]
    pub struct NonFungibleLocalId { x: Vec<u8> }
    pub struct ProofError;

    /// RuntimeError / ApplicationError (radix-engine/src/errors.rs) reduced to what is built here;
    /// `Environment` stands for every error that only the system itself raises (kernel, system, costing ..)
    pub enum ApplicationError { FungibleResourceManagerError(FungibleResourceManagerError), BucketError(BucketError), VaultError(VaultError), Other }
    pub enum RuntimeError { ApplicationError(ApplicationError), Environment }

    // ================================================================================ field API ==
    pub type FieldHandle = u32;
    pub type FieldIndex = u8;
    pub type ActorStateHandle = u32;
    /// radix-engine-interface/src/api/mod.rs
    pub const ACTOR_STATE_SELF: ActorStateHandle = 0u32;
    pub const ACTOR_STATE_OUTER_OBJECT: ActorStateHandle = 1u32;
    /// a field of the current actor (SELF) or of its outer object (for a vault / bucket: the resource manager)
    pub type FieldRef = (ActorStateHandle, FieldIndex);
    /// radix-engine-interface/src/api/field_api.rs (bitflags): MUTABLE = 0b0000_0001, read_only() = empty()
    pub struct LockFlags { pub bits: u32 }
    impl LockFlags {
        pub const MUTABLE: LockFlags = LockFlags { bits: 1 };
        pub fn read_only() -> (r: LockFlags) ensures r.bits == 0 { LockFlags { bits: 0 } }
    }
    pub open spec fn is_mutable(flags: LockFlags) -> bool { flags.bits == 1 }

    /// `declare_native_blueprint_state!{ blueprint_ident: FungibleResourceManager, fields: { divisibility,
    /// total_supply } }` generates a `#[repr(u8)]` enum in declaration order with `From<..> for u8` (= discriminant)
    pub enum FungibleResourceManagerField { Divisibility, TotalSupply }
    pub open spec fn I_DIV() -> FieldIndex { 0u8 }
    pub open spec fn I_SUPPLY() -> FieldIndex { 1u8 }
    pub open spec fn frm_idx(f: FungibleResourceManagerField) -> FieldIndex {
        match f { FungibleResourceManagerField::Divisibility => I_DIV(), FungibleResourceManagerField::TotalSupply => I_SUPPLY() }
    }
    /// the two fields when the resource manager is the actor (SELF) ..
    pub open spec fn F_DIV() -> FieldRef { (0u32, 0u8) }
    pub open spec fn F_SUPPLY() -> FieldRef { (0u32, 1u8) }
    /// .. and the divisibility seen from one of its vaults / buckets (OUTER)
    pub open spec fn O_DIV() -> FieldRef { (1u32, 0u8) }
    impl From<FungibleResourceManagerField> for u8 {
        fn from(f: FungibleResourceManagerField) -> (r: u8) ensures r == frm_idx(f)
        { match f { FungibleResourceManagerField::Divisibility => 0u8, FungibleResourceManagerField::TotalSupply => 1u8 } }
    }
    impl vstd::std_specs::convert::FromSpecImpl<FungibleResourceManagerField> for u8 {
        open spec fn obeys_from_spec() -> bool { true }
        open spec fn from_spec(f: FungibleResourceManagerField) -> u8 { frm_idx(f) }
    }
    /// same macro for the fungible bucket: fields { liquid, locked }
    pub enum FungibleBucketField { Liquid, Locked }
    pub open spec fn I_LIQUID() -> FieldIndex { 0u8 }
    pub open spec fn I_LOCKED() -> FieldIndex { 1u8 }
    pub open spec fn bucket_idx(f: FungibleBucketField) -> FieldIndex {
        match f { FungibleBucketField::Liquid => I_LIQUID(), FungibleBucketField::Locked => I_LOCKED() }
    }
    impl From<FungibleBucketField> for u8 {
        fn from(f: FungibleBucketField) -> (r: u8) ensures r == bucket_idx(f)
        { match f { FungibleBucketField::Liquid => 0u8, FungibleBucketField::Locked => 1u8 } }
    }
    impl vstd::std_specs::convert::FromSpecImpl<FungibleBucketField> for u8 {
        open spec fn obeys_from_spec() -> bool { true }
        open spec fn from_spec(f: FungibleBucketField) -> u8 { bucket_idx(f) }
    }

    /// `declare_native_blueprint_state!{ blueprint_ident: FungibleVault, fields: { balance, locked_balance, freeze_status } }`
    pub enum FungibleVaultField { Balance, LockedBalance, FreezeStatus }
    pub open spec fn vault_idx(f: FungibleVaultField) -> FieldIndex {
        match f { FungibleVaultField::Balance => 0u8, FungibleVaultField::LockedBalance => 1u8, FungibleVaultField::FreezeStatus => 2u8 }
    }
    impl From<FungibleVaultField> for u8 {
        fn from(f: FungibleVaultField) -> (r: u8) ensures r == vault_idx(f)
        { match f { FungibleVaultField::Balance => 0u8, FungibleVaultField::LockedBalance => 1u8, FungibleVaultField::FreezeStatus => 2u8 } }
    }
    impl vstd::std_specs::convert::FromSpecImpl<FungibleVaultField> for u8 {
        open spec fn obeys_from_spec() -> bool { true }
        open spec fn from_spec(f: FungibleVaultField) -> u8 { vault_idx(f) }
    }
    /// the container fields when a vault / bucket is the actor: liquid balance, lock table, freeze status (vault only)
    pub open spec fn C_BAL() -> FieldRef { (0u32, 0u8) }
    pub open spec fn C_LOCKED() -> FieldRef { (0u32, 1u8) }
    pub open spec fn V_FREEZE() -> FieldRef { (0u32, 2u8) }

    /// radix-engine-interface vault.rs `bitflags!{ struct VaultFreezeFlags: u32 { WITHDRAW = 1, DEPOSIT = 2, BURN = 4 } }`
    pub struct VaultFreezeFlags { pub bits: u32 }
    impl VaultFreezeFlags {
        pub const WITHDRAW: VaultFreezeFlags = VaultFreezeFlags { bits: 1 };
        pub const DEPOSIT: VaultFreezeFlags = VaultFreezeFlags { bits: 2 };
        pub const BURN: VaultFreezeFlags = VaultFreezeFlags { bits: 4 };
        /// bitflags `intersects`: some flag in common
        pub fn intersects(&self, other: VaultFreezeFlags) -> (r: bool) ensures r == ((self.bits & other.bits) != 0) { (self.bits & other.bits) != 0 }
    }

    /// events/fungible_vault.rs (macro generated `define_events!`): one Decimal each
    pub mod fungible_vault {
        use super::super::decimal::Decimal;
        pub struct WithdrawEvent { pub amount: Decimal }
        pub struct DepositEvent { pub amount: Decimal }
    }
    pub mod events { pub use super::fungible_vault; }
    impl EventGhost for fungible_vault::WithdrawEvent { open spec fn ghost(&self) -> EventG { EventG::Withdraw(self.amount) } }
    impl EventGhost for fungible_vault::DepositEvent { open spec fn ghost(&self) -> EventG { EventG::Deposit(self.amount) } }

    /// `<Decimal as ForWithdrawal>::for_withdrawal` (radix-engine-interface resource/mod.rs; under contract in unit
    /// c25_rounding): `Exact` returns the amount itself, `Rounded(mode)` is `checked_round(divisibility, mode)`.
    /// Only the Exact case is specified here: whatever amount comes out is the amount that is withdrawn.
    impl Decimal {
        #[verifier::external_body]
        pub fn for_withdrawal(&self, divisibility: u8, withdraw_strategy: WithdrawStrategy) -> (r: Option<Decimal>)
            ensures withdraw_strategy is Exact ==> r == Some(*self)
        { unimplemented!() }
    }

    /// the `features:` of the same macro invocation.  `feature_name()` is `stringify!(<property name>)`: five
    /// distinct strings, so the name determines the feature (`feature_of`, uninterpreted inverse).
    pub enum FungibleResourceManagerFeature { TrackTotalSupply, VaultFreeze, VaultRecall, Mint, Burn }
    pub uninterp spec fn feature_of(name: Seq<char>) -> FungibleResourceManagerFeature;
    impl FungibleResourceManagerFeature {
        #[verifier::external_body]
        pub fn feature_name(&self) -> (r: &'static str) ensures feature_of(r@) == *self { unimplemented!() }
    }

    // ================================================================================ ghost heap ==
    /// ghost value of a field (of the resource manager, or of a bucket object)
    pub enum GhostVal { Divisibility(u8), Supply(Decimal), Liquid(Decimal), Locked(Map<Decimal, usize>), Frozen(VaultFrozenFlag), Other }
    /// a live (heap) object: its blueprint name and fields
    pub ghost struct ObjG { pub blueprint: Seq<char>, pub fields: Map<FieldIndex, GhostVal> }
    pub enum EventG { Mint(Decimal), Burn(Decimal), Withdraw(Decimal), Deposit(Decimal), Other }
    pub ghost struct State {
        /// fields of the current actor (SELF) and of its outer object
        pub fields: Map<FieldRef, GhostVal>,
        /// open field handles -> (field, opened MUTABLE)
        pub handles: Map<FieldHandle, (FieldRef, bool)>,
        /// features the actor / its outer object were instantiated with (immutable)
        pub features: Set<(ActorStateHandle, FungibleResourceManagerFeature)>,
        /// live objects owned by the current call frame (buckets)
        pub objects: Map<NodeId, ObjG>,
        /// application events emitted so far
        pub events: Seq<EventG>,
    }
    /// spec view of a typed payload (stands for ScryptoEncode / ScryptoDecode of the payload type)
    pub trait VerifPayload: Sized {
        spec fn accepts(v: GhostVal) -> bool;
        spec fn ghost(&self) -> GhostVal;
    }
    pub trait EventGhost: Sized { spec fn ghost(&self) -> EventG; }
    impl EventGhost for MintFungibleResourceEvent { open spec fn ghost(&self) -> EventG { EventG::Mint(self.amount) } }
    impl EventGhost for BurnFungibleResourceEvent { open spec fn ghost(&self) -> EventG { EventG::Burn(self.amount) } }

    /// ASSUMED: the system API itself fails with kernel / system / module errors only, never with a
    /// blueprint-level `RuntimeError::ApplicationError`.
    pub trait SystemApiError: Sized { spec fn is_application_error(&self) -> bool; }
    impl SystemApiError for RuntimeError {
        open spec fn is_application_error(&self) -> bool { *self is ApplicationError }
    }

    /// radix-engine-interface FieldValue: an encoded field payload (+ locked flag)
    #[verifier::external_body]
    pub struct FieldValue { _p: () }
    impl FieldValue {
        pub uninterp spec fn ghost(&self) -> GhostVal;
        #[verifier::external_body]
        pub fn new<S: VerifPayload>(value: S) -> (r: FieldValue) ensures r.ghost() == value.ghost() { unimplemented!() }
    }
    pub open spec fn ghost_fields(m: Map<FieldIndex, FieldValue>) -> Map<FieldIndex, GhostVal> {
        m.map_values(|v: FieldValue| v.ghost())
    }
    /// what the raw (encoded) fields returned by `drop_object` decode to
    pub uninterp spec fn raw_fields(raw: Vec<Vec<u8>>) -> Map<FieldIndex, GhostVal>;

    /// Ghost-heap model of the part of radix-engine-interface SystemApi used by the resource manager
    /// (actor_api.rs, field_api.rs, object_api.rs).  Any call may fail for reasons of its own (costing,
    /// limits, substate locks, ownership): an `Err` changes nothing (the transaction is aborted anyway).
    /// `field_read_typed` decodes with `.unwrap()`: reading a field whose value is not of the requested
    /// type is a panic, hence a precondition.
    pub trait SystemApi<E: SystemApiError>: Sized {
        spec fn state(&self) -> State;

        fn actor_open_field(&mut self, object_handle: ActorStateHandle, field: FieldIndex, flags: LockFlags) -> (r: Result<FieldHandle, E>)
            requires object_handle == ACTOR_STATE_SELF || object_handle == ACTOR_STATE_OUTER_OBJECT
            ensures
                r matches Ok(h) ==> !old(self).state().handles.contains_key(h)
                    && final(self).state() == (State { handles: old(self).state().handles.insert(h, ((object_handle, field), is_mutable(flags))), ..old(self).state() }),
                r is Err ==> final(self).state() == old(self).state(),
                r matches Err(e) ==> !e.is_application_error();

        fn field_read_typed<S: VerifPayload>(&mut self, handle: FieldHandle) -> (r: Result<S, E>)
            requires
                old(self).state().handles.contains_key(handle),
                old(self).state().fields.contains_key(old(self).state().handles[handle].0),
                S::accepts(old(self).state().fields[old(self).state().handles[handle].0]),
            ensures
                final(self).state() == old(self).state(),
                r matches Ok(s) ==> s.ghost() == old(self).state().fields[old(self).state().handles[handle].0],
                r matches Err(e) ==> !e.is_application_error();

        fn field_write_typed<S: VerifPayload>(&mut self, handle: FieldHandle, substate: &S) -> (r: Result<(), E>)
            requires
                old(self).state().handles.contains_key(handle),
                old(self).state().handles[handle].1,
            ensures
                r is Ok ==> final(self).state() == (State { fields: old(self).state().fields.insert(old(self).state().handles[handle].0, substate.ghost()), ..old(self).state() }),
                r is Err ==> final(self).state() == old(self).state(),
                r matches Err(e) ==> !e.is_application_error();

        fn field_close(&mut self, handle: FieldHandle) -> (r: Result<(), E>)
            requires old(self).state().handles.contains_key(handle)
            ensures
                r is Ok ==> final(self).state() == (State { handles: old(self).state().handles.remove(handle), ..old(self).state() }),
                r is Err ==> final(self).state() == old(self).state(),
                r matches Err(e) ==> !e.is_application_error();

        /// is the named feature one the actor / its outer object (the resource manager) was instantiated with
        fn actor_is_feature_enabled(&mut self, object_handle: ActorStateHandle, feature: &str) -> (r: Result<bool, E>)
            requires object_handle == ACTOR_STATE_SELF || object_handle == ACTOR_STATE_OUTER_OBJECT
            ensures
                final(self).state() == old(self).state(),
                r matches Ok(b) ==> b == old(self).state().features.contains((object_handle, feature_of(feature@))),
                r matches Err(e) ==> !e.is_application_error();

        /// creates a new object of an inner blueprint of this package with the given fields; its id is fresh
        fn new_simple_object(&mut self, blueprint_ident: &str, fields: IndexMap<FieldIndex, FieldValue>) -> (r: Result<NodeId, E>)
            ensures
                r matches Ok(id) ==> !old(self).state().objects.contains_key(id)
                    && final(self).state() == (State { objects: old(self).state().objects.insert(id,
                            ObjG { blueprint: blueprint_ident@, fields: ghost_fields(fields@) }), ..old(self).state() }),
                r is Err ==> final(self).state() == old(self).state(),
                r matches Err(e) ==> !e.is_application_error();

        /// drops a live object (system.rs: only if it is an inner object of the actor's outer object, i.e. a
        /// bucket of THIS resource manager) and returns its encoded fields
        fn drop_object(&mut self, node_id: &NodeId) -> (r: Result<Vec<Vec<u8>>, E>)
            ensures
                r matches Ok(raw) ==> old(self).state().objects.contains_key(*node_id)
                    && raw_fields(raw) == old(self).state().objects[*node_id].fields
                    && final(self).state() == (State { objects: old(self).state().objects.remove(*node_id), ..old(self).state() }),
                r is Err ==> final(self).state() == old(self).state(),
                r matches Err(e) ==> !e.is_application_error();
    }

    // ---- versioned payload wrappers (macro generated in /repo): a payload is its latest-version content ----
    pub struct FungibleResourceManagerDivisibilityFieldPayload { pub content: u8 }
    impl VerifPayload for FungibleResourceManagerDivisibilityFieldPayload {
        open spec fn accepts(v: GhostVal) -> bool { v is Divisibility }
        open spec fn ghost(&self) -> GhostVal { GhostVal::Divisibility(self.content) }
    }
    impl FungibleResourceManagerDivisibilityFieldPayload {
        pub fn fully_update_and_into_latest_version(self) -> (r: u8) ensures r == self.content { self.content }
        pub fn from_content_source(c: u8) -> (r: Self) ensures r.content == c { Self { content: c } }
    }
    pub struct FungibleResourceManagerTotalSupplyFieldPayload { pub content: Decimal }
    impl VerifPayload for FungibleResourceManagerTotalSupplyFieldPayload {
        open spec fn accepts(v: GhostVal) -> bool { v is Supply }
        open spec fn ghost(&self) -> GhostVal { GhostVal::Supply(self.content) }
    }
    impl FungibleResourceManagerTotalSupplyFieldPayload {
        pub fn fully_update_and_into_latest_version(self) -> (r: Decimal) ensures r == self.content { self.content }
        pub fn from_content_source(c: Decimal) -> (r: Self) ensures r.content == c { Self { content: c } }
    }

    pub struct FungibleVaultBalanceFieldPayload { pub content: LiquidFungibleResource }
    impl VerifPayload for FungibleVaultBalanceFieldPayload {
        open spec fn accepts(v: GhostVal) -> bool { v is Liquid }
        open spec fn ghost(&self) -> GhostVal { GhostVal::Liquid(self.content.amount) }
    }
    impl FungibleVaultBalanceFieldPayload {
        pub fn fully_update_and_into_latest_version(self) -> (r: LiquidFungibleResource) ensures r == self.content { self.content }
        pub fn from_content_source(c: LiquidFungibleResource) -> (r: Self) ensures r.content == c { Self { content: c } }
    }
    pub struct FungibleVaultFreezeStatusFieldPayload { pub content: VaultFrozenFlag }
    impl VerifPayload for FungibleVaultFreezeStatusFieldPayload {
        open spec fn accepts(v: GhostVal) -> bool { v is Frozen }
        open spec fn ghost(&self) -> GhostVal { GhostVal::Frozen(self.content) }
    }
    impl FungibleVaultFreezeStatusFieldPayload {
        pub fn fully_update_and_into_latest_version(self) -> (r: VaultFrozenFlag) ensures r == self.content { self.content }
    }

    /// radix-native-sdk Runtime::emit_event -> api.actor_emit_event: appends to the event log, touches nothing else
    pub struct Runtime;
    impl Runtime {
        #[verifier::external_body]
        pub fn emit_event<Y: SystemApi<E>, E: SystemApiError, T: EventGhost>(api: &mut Y, event: T) -> (r: Result<(), E>)
            ensures
                r is Ok ==> final(api).state() == (State { events: old(api).state().events.push(event.ghost()), ..old(api).state() }),
                r is Err ==> final(api).state() == old(api).state(),
                r matches Err(e) ==> !e.is_application_error(),
        { unimplemented!() }
    }

    /// bucket_common.rs `impl From<Vec<Vec<u8>>> for DroppedFungibleBucket`: `scrypto_decode(&val[i]).unwrap()`
    /// of the Liquid and Locked fields.  It PANICS on fields of any other shape; a trait impl cannot carry a
    /// precondition, so the contract is conditional and callers under contract establish the condition
    /// (`is_fungible_bucket`) from their own precondition.
    impl From<Vec<Vec<u8>>> for DroppedFungibleBucket {
        #[verifier::external_body]
        fn from(val: Vec<Vec<u8>>) -> (r: DroppedFungibleBucket)
            ensures
                (raw_fields(val).contains_key(I_LIQUID()) && raw_fields(val)[I_LIQUID()] is Liquid
                    && raw_fields(val).contains_key(I_LOCKED()) && raw_fields(val)[I_LOCKED()] is Locked)
                ==> (r.liquid.amount == raw_fields(val)[I_LIQUID()]->Liquid_0
                    && r.locked.amounts@ == raw_fields(val)[I_LOCKED()]->Locked_0)
        { unimplemented!() }
    }

    /// `lazy_static!{ static ref MAX_MINT_AMOUNT: Decimal = Decimal::from_attos(I192::from(2).pow(152)); }`
    /// ASSUMED copy of the initialiser (a macro invocation: not reachable by the item extractor): 2^152 attos.
    pub open spec fn max_mint_attos() -> int { 0x1_0000_0000_0000_0000int * 0x1_0000_0000_0000_0000 * 0x100_0000 }
    pub struct MaxMintAmountLazy;
    impl core::ops::Deref for MaxMintAmountLazy {
        type Target = Decimal;
        #[verifier::external_body]
        fn deref(&self) -> (r: &Decimal) ensures r.v() == max_mint_attos() { unimplemented!() }
    }
    #[allow(non_upper_case_globals)]
    pub const MAX_MINT_AMOUNT: MaxMintAmountLazy = MaxMintAmountLazy;
}

pub mod unit {
    use vstd::prelude::*;
    use super::rt::*;
    use super::decimal::*;
    use super::decimal::Decimal;
    use super::maps::*;
    use super::sets::*;
    use super::decimal_attos::*;
    use super::env::*;
    use vstd::arithmetic::power::pow;
    broadcast use {group_decimal, group_sets, group_i192, super::try_from::axiom_question_mark_calls_from};

    /*@item radix-engine-interface/src/blueprints/resource/resource.rs :: enum ResourceError
    @derive
    @*/
    /*@item radix-engine/src/blueprints/resource/bucket_common.rs :: enum BucketError
    @derive
    @*/
    /*@item radix-engine/src/blueprints/resource/vault_common.rs :: enum VaultError
    @derive
    @*/
    /*@item radix-common/src/math/rounding_mode.rs :: enum RoundingMode
    @derive Clone, Copy
    @*/
    /*@item radix-engine-interface/src/blueprints/resource/mod.rs :: enum WithdrawStrategy
    @derive Clone, Copy
    @*/
    /*@item radix-engine-interface/src/blueprints/resource/resource.rs :: struct VaultFrozenFlag
    @derive
    @*/
    // `Result::unwrap` (the R5 image of `.expect(..)`) needs `E: Debug`; formatting is not under contract.
    #[verifier::external]
    impl core::fmt::Debug for ResourceError {
        fn fmt(&self, f: &mut core::fmt::Formatter<'_>) -> core::fmt::Result { f.write_str("ResourceError") }
    }
    impl From<BucketError> for RuntimeError {
        /*@fn radix-engine/src/blueprints/resource/bucket_common.rs :: impl From<BucketError> for RuntimeError :: fn from
        @sig
            ensures ret == RuntimeError::ApplicationError(ApplicationError::BucketError(bucket_error))
        @*/
    }
    impl vstd::std_specs::convert::FromSpecImpl<BucketError> for RuntimeError {
        open spec fn obeys_from_spec() -> bool { true }
        open spec fn from_spec(e: BucketError) -> RuntimeError { RuntimeError::ApplicationError(ApplicationError::BucketError(e)) }
    }
    /*@item radix-engine-interface/src/blueprints/resource/resource.rs :: struct LiquidFungibleResource
    @derive
    @*/
    /*@item radix-engine-interface/src/blueprints/resource/resource.rs :: struct LockedFungibleResource
    @derive
    @*/
    /*@item radix-engine/src/blueprints/resource/bucket_common.rs :: struct DroppedFungibleBucket
    @derive
    @*/
    /*@item radix-engine/src/blueprints/resource/fungible/fungible_resource_manager.rs :: enum FungibleResourceManagerError
    @derive
    @*/
    /*@item radix-engine-interface/src/blueprints/resource/bucket.rs :: struct Bucket
    @derive
    @*/
    /*@item radix-engine/src/blueprints/resource/events/resource_manager.rs :: struct MintFungibleResourceEvent
    @derive
    @*/
    /*@item radix-engine/src/blueprints/resource/events/resource_manager.rs :: struct BurnFungibleResourceEvent
    @derive
    @*/
    /*@item radix-engine-interface/src/blueprints/resource/resource_type.rs :: enum ResourceType
    @derive
    @*/
    /*@item radix-engine/src/blueprints/resource/fungible/fungible_resource_manager.rs :: const DIVISIBILITY_MAXIMUM
    @*/
    // (Verus needs the explicit 'static; the value is re-read from /repo on every run)
    pub const FUNGIBLE_BUCKET_BLUEPRINT: &'static str = /*@expr-after radix-engine-interface/src/blueprints/resource/fungible/fungible_bucket.rs :: const FUNGIBLE_BUCKET_BLUEPRINT :: <<&str =>> @*/;
    pub struct FungibleResourceManagerBlueprint;
    pub struct FungibleVaultBlueprint;
    pub struct FungibleBucketBlueprint;
    /// opaque: only carried inside ResourceType::NonFungible, which is never built here
    pub struct NonFungibleIdType;

    // ==========================================================================================
    // ORACLE (from the property statement)
    // ==========================================================================================
    /// an amount a resource of divisibility `d` can hold: non-negative and a whole number of 10^(18-d) attos
    pub open spec fn respects_divisibility(attos: int, d: int) -> bool {
        attos >= 0 && attos % pow(10, (18 - d) as nat) == 0
    }
    /// what may be minted in one call
    pub open spec fn mintable_amount(attos: int, d: int) -> bool {
        respects_divisibility(attos, d) && attos <= max_mint_attos()
    }
    pub open spec fn mint_enabled(s: State) -> bool { s.features.contains((ACTOR_STATE_SELF, FungibleResourceManagerFeature::Mint)) }
    pub open spec fn burn_enabled(s: State) -> bool { s.features.contains((ACTOR_STATE_SELF, FungibleResourceManagerFeature::Burn)) }
    /// the resource tracks its total supply
    pub open spec fn tracks(s: State) -> bool { s.features.contains((ACTOR_STATE_SELF, FungibleResourceManagerFeature::TrackTotalSupply)) }
    /// well-formed resource manager (established by create_object): a legal divisibility, and the
    /// TotalSupply field exists when the supply is tracked
    pub open spec fn wf(s: State) -> bool {
        &&& s.fields.contains_key(F_DIV()) && s.fields[F_DIV()] is Divisibility
        &&& s.fields[F_DIV()]->Divisibility_0 <= 18
        &&& (tracks(s) ==> s.fields.contains_key(F_SUPPLY()) && s.fields[F_SUPPLY()] is Supply)
    }
    pub open spec fn divisibility(s: State) -> int { s.fields[F_DIV()]->Divisibility_0 as int }
    /// the recorded total supply, in attos (meaningful when `tracks`)
    pub open spec fn supply(s: State) -> int { s.fields[F_SUPPLY()]->Supply_0.v() }
    /// every field except TotalSupply is untouched
    pub open spec fn frame_supply(f0: Map<FieldRef, GhostVal>, f1: Map<FieldRef, GhostVal>) -> bool {
        f1.remove(F_SUPPLY()) =~= f0.remove(F_SUPPLY())
    }
    /// handles that were open stay open (with the same field / mode)
    pub open spec fn handles_kept(h0: Map<FieldHandle, (FieldRef, bool)>, h1: Map<FieldHandle, (FieldRef, bool)>) -> bool {
        forall|h: FieldHandle| h0.contains_key(h) ==> h1.contains_key(h) && h1[h] == h0[h]
    }
    pub open spec fn is_fungible_bucket(o: ObjG) -> bool {
        &&& o.fields.contains_key(I_LIQUID()) && o.fields[I_LIQUID()] is Liquid
        &&& o.fields.contains_key(I_LOCKED()) && o.fields[I_LOCKED()] is Locked
    }
    pub open spec fn bucket_amount(o: ObjG) -> int { o.fields[I_LIQUID()]->Liquid_0.v() }
    pub open spec fn bucket_locks(o: ObjG) -> Map<Decimal, usize> { o.fields[I_LOCKED()]->Locked_0 }
    /// a freshly created fungible bucket holding `a`: nothing locked
    pub open spec fn is_new_bucket(o: ObjG, a: Decimal) -> bool {
        &&& o.blueprint == FUNGIBLE_BUCKET_BLUEPRINT@
        &&& o.fields.dom() =~= set![I_LIQUID(), I_LOCKED()]
        &&& o.fields[I_LIQUID()] == GhostVal::Liquid(a)
        &&& o.fields[I_LOCKED()] == GhostVal::Locked(Map::<Decimal, usize>::empty())
    }
    /// the blueprint-level error a mint of `a` fails with
    pub open spec fn mint_app_error(s: State, a: Decimal) -> FungibleResourceManagerError {
        if !mint_enabled(s) { FungibleResourceManagerError::NotMintable }
        else if !respects_divisibility(a.v(), divisibility(s)) { FungibleResourceManagerError::InvalidAmount(a, s.fields[F_DIV()]->Divisibility_0) }
        else if a.v() > max_mint_attos() { FungibleResourceManagerError::MaxMintAmountExceeded }
        else { FungibleResourceManagerError::UnexpectedDecimalComputationError }
    }
    /// C03 for a burn of bucket `node`: on success exactly the bucket's amount leaves circulation (the bucket
    /// is consumed) and the recorded supply shrinks by exactly that; whatever happens, no other object, no other
    /// field and no feature changes
    pub open spec fn burn_ok(s0: State, s1: State, node: NodeId, ok: bool) -> bool {
        &&& ok ==> {
            &&& burn_enabled(s0)
            &&& s0.objects.contains_key(node)
            // a bucket backing a live proof cannot be burnt
            &&& bucket_locks(s0.objects[node]).dom().len() == 0
            &&& s1.objects == s0.objects.remove(node)
            &&& (tracks(s0) ==> wf(s1) && supply(s1) == supply(s0) - bucket_amount(s0.objects[node]) && frame_supply(s0.fields, s1.fields))
            &&& (!tracks(s0) ==> s1.fields == s0.fields)
            &&& s1.events == s0.events.push(EventG::Burn(s0.objects[node].fields[I_LIQUID()]->Liquid_0))
            &&& s1.handles =~= s0.handles
        }
        // a resource that is not burnable: refused, nothing changes
        &&& (!burn_enabled(s0) ==> !ok && s1 == s0)
        // a supply that would leave the Decimal range is refused (never wraps)
        &&& (burn_enabled(s0) && tracks(s0) && s0.objects.contains_key(node)
                && !in_dec(supply(s0) - bucket_amount(s0.objects[node])) ==> !ok && s1.fields == s0.fields)
        &&& s1.features == s0.features
        &&& s1.objects.remove(node) =~= s0.objects.remove(node)
        &&& handles_kept(s0.handles, s1.handles)
    }
    /// the blueprint-level errors of a burn
    pub open spec fn burn_app_error(s0: State, node: NodeId, e: RuntimeError) -> bool {
        if !burn_enabled(s0) { e == frm_err(FungibleResourceManagerError::NotBurnable) }
        else {
            ||| (e is ApplicationError && e->ApplicationError_0 is BucketError)
            ||| (e == frm_err(FungibleResourceManagerError::UnexpectedDecimalComputationError)
                 && tracks(s0) && s0.objects.contains_key(node) && !in_dec(supply(s0) - bucket_amount(s0.objects[node])))
        }
    }
    pub open spec fn frm_err(e: FungibleResourceManagerError) -> RuntimeError {
        RuntimeError::ApplicationError(ApplicationError::FungibleResourceManagerError(e))
    }

    // ---- vault / bucket as the actor --------------------------------------------------------------------
    /// what can be taken out of a container holding `bal`
    pub open spec fn take_ok(bal: int, amt: int) -> bool { amt <= bal && in_dec(bal - amt) }
    /// a fungible container (vault or bucket) of a well-formed resource: a liquid balance, and the resource
    /// manager's divisibility visible as outer object
    pub open spec fn wf_container(s: State) -> bool {
        &&& s.fields.contains_key(C_BAL()) && s.fields[C_BAL()] is Liquid
        &&& s.fields.contains_key(O_DIV()) && s.fields[O_DIV()] is Divisibility && s.fields[O_DIV()]->Divisibility_0 <= 18
    }
    pub open spec fn freezable(s: State) -> bool { s.features.contains((ACTOR_STATE_OUTER_OBJECT, FungibleResourceManagerFeature::VaultFreeze)) }
    pub open spec fn wf_vault(s: State) -> bool {
        wf_container(s) && (freezable(s) ==> s.fields.contains_key(V_FREEZE()) && s.fields[V_FREEZE()] is Frozen)
    }
    /// the vault is frozen for (some of) the given operations
    pub open spec fn frozen_for(s: State, flags: VaultFreezeFlags) -> bool {
        freezable(s) && (s.fields[V_FREEZE()]->Frozen_0.frozen.bits & flags.bits) != 0
    }
    /// the container's liquid balance in attos
    pub open spec fn balance(s: State) -> int { s.fields[C_BAL()]->Liquid_0.v() }
    pub open spec fn outer_divisibility(s: State) -> int { s.fields[O_DIV()]->Divisibility_0 as int }
    /// every field except the liquid balance is untouched
    pub open spec fn frame_balance(f0: Map<FieldRef, GhostVal>, f1: Map<FieldRef, GhostVal>) -> bool {
        f1.remove(C_BAL()) =~= f0.remove(C_BAL())
    }
    /// C03 for a withdrawal: a NEW bucket `b` appears holding exactly what left the container's balance
    pub open spec fn withdrawn(s0: State, s1: State, b: NodeId, requested: Decimal, strategy: WithdrawStrategy) -> bool {
        &&& !s0.objects.contains_key(b) && s1.objects.contains_key(b)
        &&& is_new_bucket(s1.objects[b], s1.objects[b].fields[I_LIQUID()]->Liquid_0)
        &&& s1.objects == s0.objects.insert(b, s1.objects[b])
        // conservation: bucket amount == balance decrease
        &&& balance(s1) == balance(s0) - bucket_amount(s1.objects[b])
        // never negative, never more than there is, always a legal amount of the resource
        &&& respects_divisibility(bucket_amount(s1.objects[b]), outer_divisibility(s0))
        &&& bucket_amount(s1.objects[b]) <= balance(s0)
        &&& (strategy is Exact ==> bucket_amount(s1.objects[b]) == requested.v())
        &&& s1.fields.contains_key(C_BAL()) && s1.fields[C_BAL()] is Liquid
        &&& frame_balance(s0.fields, s1.fields)
        &&& s1.handles =~= s0.handles
        &&& s1.features == s0.features
    }
    /// C03 for a deposit: bucket `b` is consumed and exactly its amount is added to the container's balance
    pub open spec fn deposited(s0: State, s1: State, b: NodeId) -> bool {
        &&& s0.objects.contains_key(b)
        &&& bucket_locks(s0.objects[b]).dom().len() == 0
        &&& s1.objects == s0.objects.remove(b)
        &&& balance(s1) == balance(s0) + bucket_amount(s0.objects[b])
        &&& s1.fields.contains_key(C_BAL()) && s1.fields[C_BAL()] is Liquid
        &&& frame_balance(s0.fields, s1.fields)
        &&& s1.handles =~= s0.handles
        &&& s1.features == s0.features
    }

    pub proof fn lemma_pow10_bounds(k: nat)
        requires k <= 18
        ensures 1 <= pow(10, k) <= 1_000_000_000_000_000_000
    {
        vstd::arithmetic::power::lemma_pow_positive(10, k);
        vstd::arithmetic::power::lemma_pow_increases(10, k, 18);
        assert(pow(10, 18) == 1_000_000_000_000_000_000) by { reveal_with_fuel(vstd::arithmetic::power::pow, 20); }
    }

    // ==========================================================================================
    // containers / helpers (same contracts as unit c03_resource_containers, re-proved)
    // ==========================================================================================
    impl LiquidFungibleResource {
        /*@fn radix-engine-interface/src/blueprints/resource/resource.rs :: impl LiquidFungibleResource :: fn new
        @sig
            ensures ret.amount == amount
        @*/
        /*@fn radix-engine-interface/src/blueprints/resource/resource.rs :: impl LiquidFungibleResource :: fn amount
        @sig
            ensures ret == self.amount
        @*/
        /*@fn radix-engine-interface/src/blueprints/resource/resource.rs :: impl LiquidFungibleResource :: fn is_empty
        @sig
            ensures ret == (self.amount.v() == 0)
        @*/
        /*@fn radix-engine-interface/src/blueprints/resource/resource.rs :: impl LiquidFungibleResource :: fn put
        @sig
            requires in_dec(old(self).amount.v() + other.amount.v())
            ensures final(self).amount.v() == old(self).amount.v() + other.amount.v()
        @*/
        /*@fn radix-engine-interface/src/blueprints/resource/resource.rs :: impl LiquidFungibleResource :: fn take_by_amount
        @sig
            ensures
                take_ok(old(self).amount.v(), amount_to_take.v()) ==> ret is Ok,
                ret matches Ok(r) ==> take_ok(old(self).amount.v(), amount_to_take.v())
                    && r.amount == amount_to_take
                    && final(self).amount.v() == old(self).amount.v() - amount_to_take.v(),
                ret matches Err(e) ==> *final(self) == *old(self),
        @*/
    }
    impl LockedFungibleResource {
        /*@fn radix-engine-interface/src/blueprints/resource/resource.rs :: impl LockedFungibleResource :: fn is_locked
        @sig
            ensures ret == (self.amounts@.dom().len() > 0)
        @*/
    }
    impl Default for LockedFungibleResource {
        /*@fn radix-engine-interface/src/blueprints/resource/resource.rs :: impl Default for LockedFungibleResource :: fn default
        @sig
            ensures ret.amounts@ == Map::<Decimal, usize>::empty()
        @*/
    }
    impl VerifPayload for LiquidFungibleResource {
        open spec fn accepts(v: GhostVal) -> bool { v is Liquid }
        open spec fn ghost(&self) -> GhostVal { GhostVal::Liquid(self.amount) }
    }
    impl VerifPayload for LockedFungibleResource {
        open spec fn accepts(v: GhostVal) -> bool { v is Locked }
        open spec fn ghost(&self) -> GhostVal { GhostVal::Locked(self.amounts@) }
    }

    /*@fn radix-engine-interface/src/blueprints/resource/mod.rs :: fn check_fungible_amount
    @sig
        requires divisibility <= 18
        ensures ret == respects_divisibility(amount.v(), divisibility as int)
    @entry
        proof {
            let b = pow(10, (18 - divisibility) as nat);
            lemma_pow10_bounds((18 - divisibility) as nat);
            if amount.v() >= 0 {
                // truncated remainder == mathematical remainder on a non-negative dividend
                vstd::arithmetic::div_mod::lemma_fundamental_div_mod(amount.v(), b);
                assert(trem(amount.v(), b) == amount.v() % b);
            }
        }
    @*/

    /*@fn radix-engine/src/blueprints/resource/fungible/fungible_resource_manager.rs :: fn verify_divisibility
    @sig
        ensures
            ret is Ok <==> divisibility <= 18,
            ret matches Err(e) ==> e == frm_err(FungibleResourceManagerError::InvalidDivisibility(divisibility)),
    @*/

    /*@fn radix-engine/src/blueprints/resource/fungible/fungible_resource_manager.rs :: fn check_mint_amount
    @sig
        requires divisibility <= 18
        ensures
            ret is Ok <==> mintable_amount(amount.v(), divisibility as int),
            ret matches Err(e) ==> e == frm_err(
                if !respects_divisibility(amount.v(), divisibility as int) { FungibleResourceManagerError::InvalidAmount(amount, divisibility) }
                else { FungibleResourceManagerError::MaxMintAmountExceeded }),
    @*/

    /*@fn radix-engine/src/blueprints/resource/bucket_common.rs :: fn drop_fungible_bucket
    @sig
        requires
            old(api).state().objects.contains_key(*bucket_node_id) ==> is_fungible_bucket(old(api).state().objects[*bucket_node_id]),
        ensures
            ret matches Ok(b) ==> ({
                let s0 = old(api).state(); let s1 = final(api).state();
                &&& s0.objects.contains_key(*bucket_node_id)
                &&& b.liquid.amount.v() == bucket_amount(s0.objects[*bucket_node_id])
                // a bucket with live proofs cannot be dropped
                &&& bucket_locks(s0.objects[*bucket_node_id]).dom().len() == 0
                &&& b.locked.amounts@ == bucket_locks(s0.objects[*bucket_node_id])
                &&& s1 == (State { objects: s0.objects.remove(*bucket_node_id), ..s0 })
            }),
            // the resource manager's own state is never touched
            final(api).state().fields == old(api).state().fields,
            final(api).state().handles == old(api).state().handles,
            final(api).state().features == old(api).state().features,
            final(api).state().events == old(api).state().events,
            // no other object either (a locked bucket is dropped before the lock is noticed: the Err aborts the transaction)
            final(api).state().objects.remove(*bucket_node_id) =~= old(api).state().objects.remove(*bucket_node_id),
            ret matches Err(e) ==> (e.is_application_error() ==> e is ApplicationError && e->ApplicationError_0 is BucketError),
    @*/

    // ==========================================================================================
    // FungibleResourceManagerBlueprint
    // ==========================================================================================
    impl FungibleResourceManagerBlueprint {
        /*@fn radix-engine/src/blueprints/resource/fungible/fungible_resource_manager.rs :: impl FungibleResourceManagerBlueprint :: fn assert_mintable
        @sig
            ensures
                final(api).state() == old(api).state(),
                ret is Ok ==> mint_enabled(old(api).state()),
                !mint_enabled(old(api).state()) ==> ret is Err,
                ret matches Err(e) ==> (e.is_application_error() ==> !mint_enabled(old(api).state()) && e == frm_err(FungibleResourceManagerError::NotMintable)),
        @*/
        /*@fn radix-engine/src/blueprints/resource/fungible/fungible_resource_manager.rs :: impl FungibleResourceManagerBlueprint :: fn assert_burnable
        @sig
            ensures
                final(api).state() == old(api).state(),
                ret is Ok ==> burn_enabled(old(api).state()),
                !burn_enabled(old(api).state()) ==> ret is Err,
                ret matches Err(e) ==> (e.is_application_error() ==> !burn_enabled(old(api).state()) && e == frm_err(FungibleResourceManagerError::NotBurnable)),
        @*/

        /*@fn radix-engine/src/blueprints/resource/fungible/fungible_resource_manager.rs :: impl FungibleResourceManagerBlueprint :: fn create_bucket
        @sig
            ensures
                ret matches Ok(b) ==> ({
                    let s0 = old(api).state(); let s1 = final(api).state();
                    &&& !s0.objects.contains_key(b.0.0)
                    &&& s1.objects.contains_key(b.0.0) && is_new_bucket(s1.objects[b.0.0], amount)
                    &&& s1 == (State { objects: s0.objects.insert(b.0.0, s1.objects[b.0.0]), ..s0 })
                }),
                ret is Err ==> final(api).state() == old(api).state(),
                ret matches Err(e) ==> !e.is_application_error(),
        @*/

        /*@fn radix-engine/src/blueprints/resource/fungible/fungible_resource_manager.rs :: impl FungibleResourceManagerBlueprint :: fn create_empty_bucket
        @sig
            ensures
                ret matches Ok(b) ==> ({
                    let s0 = old(api).state(); let s1 = final(api).state();
                    &&& !s0.objects.contains_key(b.0.0)
                    &&& s1.objects.contains_key(b.0.0) && is_fungible_bucket(s1.objects[b.0.0])
                    &&& bucket_amount(s1.objects[b.0.0]) == 0
                    &&& bucket_locks(s1.objects[b.0.0]) == Map::<Decimal, usize>::empty()
                    &&& s1 == (State { objects: s0.objects.insert(b.0.0, s1.objects[b.0.0]), ..s0 })
                }),
                ret is Err ==> final(api).state() == old(api).state(),
        @*/

        // ------------------------------------------------------------------------------ MINT --
        /*@fn radix-engine/src/blueprints/resource/fungible/fungible_resource_manager.rs :: impl FungibleResourceManagerBlueprint :: fn mint
        @sig
            requires wf(old(api).state())
            ensures
                ret matches Ok(b) ==> ({
                    let s0 = old(api).state(); let s1 = final(api).state();
                    // only a mintable resource, only a legal amount
                    &&& mint_enabled(s0)
                    &&& mintable_amount(amount.v(), divisibility(s0))
                    // exactly `amount` enters circulation: one new bucket holding it, nothing locked ..
                    &&& !s0.objects.contains_key(b.0.0)
                    &&& s1.objects.contains_key(b.0.0) && is_new_bucket(s1.objects[b.0.0], amount)
                    &&& s1.objects == s0.objects.insert(b.0.0, s1.objects[b.0.0])
                    // .. the recorded supply grows by exactly that ..
                    &&& (tracks(s0) ==> wf(s1) && supply(s1) == supply(s0) + amount.v() && frame_supply(s0.fields, s1.fields))
                    &&& (!tracks(s0) ==> s1.fields == s0.fields)
                    // .. and exactly one Mint event reports it
                    &&& s1.events == s0.events.push(EventG::Mint(amount))
                    &&& s1.features == s0.features
                }),
                // an illegal mint is refused and changes nothing
                !(mint_enabled(old(api).state()) && mintable_amount(amount.v(), divisibility(old(api).state())))
                    ==> ret is Err
                        && final(api).state().fields == old(api).state().fields
                        && final(api).state().objects == old(api).state().objects
                        && final(api).state().events == old(api).state().events,
                // a supply that would leave the Decimal range is refused (never wraps)
                tracks(old(api).state()) && !in_dec(supply(old(api).state()) + amount.v()) ==> ret is Err
                        && final(api).state().fields == old(api).state().fields,
                // the blueprint's own errors, exactly
                ret matches Err(e) ==> (e.is_application_error() ==> e == frm_err(mint_app_error(old(api).state(), amount))
                    && (mint_enabled(old(api).state()) && mintable_amount(amount.v(), divisibility(old(api).state()))
                        ==> tracks(old(api).state()) && !in_dec(supply(old(api).state()) + amount.v()))),
                handles_kept(old(api).state().handles, final(api).state().handles),
        @*/

        // ------------------------------------------------------------------------------ BURN --
        /*@fn radix-engine/src/blueprints/resource/fungible/fungible_resource_manager.rs :: impl FungibleResourceManagerBlueprint :: fn burn_internal
        @sig
            requires
                wf(old(api).state()),
                old(api).state().objects.contains_key(bucket.0.0) ==> is_fungible_bucket(old(api).state().objects[bucket.0.0]),
            ensures
                burn_ok(old(api).state(), final(api).state(), bucket.0.0, ret is Ok),
                ret matches Err(e) ==> (e.is_application_error() ==> burn_app_error(old(api).state(), bucket.0.0, e)),
        @*/
        /*@fn radix-engine/src/blueprints/resource/fungible/fungible_resource_manager.rs :: impl FungibleResourceManagerBlueprint :: fn burn
        @sig
            requires
                wf(old(api).state()),
                old(api).state().objects.contains_key(bucket.0.0) ==> is_fungible_bucket(old(api).state().objects[bucket.0.0]),
            ensures
                burn_ok(old(api).state(), final(api).state(), bucket.0.0, ret is Ok),
                ret matches Err(e) ==> (e.is_application_error() ==> burn_app_error(old(api).state(), bucket.0.0, e)),
        @*/
        /*@fn radix-engine/src/blueprints/resource/fungible/fungible_resource_manager.rs :: impl FungibleResourceManagerBlueprint :: fn package_burn
        @sig
            requires
                wf(old(api).state()),
                old(api).state().objects.contains_key(bucket.0.0) ==> is_fungible_bucket(old(api).state().objects[bucket.0.0]),
            ensures
                burn_ok(old(api).state(), final(api).state(), bucket.0.0, ret is Ok),
                ret matches Err(e) ==> (e.is_application_error() ==> burn_app_error(old(api).state(), bucket.0.0, e)),
        @*/

        /*@fn radix-engine/src/blueprints/resource/fungible/fungible_resource_manager.rs :: impl FungibleResourceManagerBlueprint :: fn drop_empty_bucket
        @sig
            requires
                old(api).state().objects.contains_key(bucket.0.0) ==> is_fungible_bucket(old(api).state().objects[bucket.0.0]),
            ensures
                // only a bucket holding nothing (and backing no proof) can be dropped without burning
                ret is Ok ==> ({
                    let s0 = old(api).state(); let s1 = final(api).state();
                    &&& s0.objects.contains_key(bucket.0.0)
                    &&& bucket_amount(s0.objects[bucket.0.0]) == 0
                    &&& bucket_locks(s0.objects[bucket.0.0]).dom().len() == 0
                    &&& s1 == (State { objects: s0.objects.remove(bucket.0.0), ..s0 })
                }),
                // supply, events, features, handles are never touched
                final(api).state().fields == old(api).state().fields,
                final(api).state().handles == old(api).state().handles,
                final(api).state().features == old(api).state().features,
                final(api).state().events == old(api).state().events,
                ret matches Err(e) ==> (e.is_application_error() ==>
                    e == frm_err(FungibleResourceManagerError::DropNonEmptyBucket)
                    || (e is ApplicationError && e->ApplicationError_0 is BucketError)),
        @*/

        // ------------------------------------------------------------------------------ READS --
        /*@fn radix-engine/src/blueprints/resource/fungible/fungible_resource_manager.rs :: impl FungibleResourceManagerBlueprint :: fn get_total_supply
        @sig
            requires wf(old(api).state())
            ensures
                final(api).state().fields == old(api).state().fields,
                final(api).state().objects == old(api).state().objects,
                final(api).state().events == old(api).state().events,
                final(api).state().features == old(api).state().features,
                handles_kept(old(api).state().handles, final(api).state().handles),
                ret matches Ok(r) ==> (tracks(old(api).state()) ==> (r matches Some(t) && t.v() == supply(old(api).state())))
                    && (!tracks(old(api).state()) ==> r is None),
                ret matches Err(e) ==> !e.is_application_error(),
        @*/
        /*@fn radix-engine/src/blueprints/resource/fungible/fungible_resource_manager.rs :: impl FungibleResourceManagerBlueprint :: fn get_resource_type
        @sig
            requires wf(old(api).state())
            ensures
                final(api).state().fields == old(api).state().fields,
                final(api).state().objects == old(api).state().objects,
                final(api).state().events == old(api).state().events,
                handles_kept(old(api).state().handles, final(api).state().handles),
                ret matches Ok(r) ==> r == (ResourceType::Fungible { divisibility: old(api).state().fields[F_DIV()]->Divisibility_0 }),
                ret matches Err(e) ==> !e.is_application_error(),
        @*/
    }

    // ==========================================================================================
    // FungibleVaultBlueprint: take / put (the vault is the actor, the resource manager its outer object)
    // ==========================================================================================
    impl FungibleVaultBlueprint {
        /*@fn radix-engine/src/blueprints/resource/fungible/fungible_vault.rs :: impl FungibleVaultBlueprint :: fn get_divisibility
        @sig
            requires wf_container(old(api).state())
            ensures
                ret matches Ok(d) ==> d as int == outer_divisibility(old(api).state())
                    && final(api).state() == (State { handles: final(api).state().handles, ..old(api).state() })
                    && final(api).state().handles =~= old(api).state().handles,
                ret is Err ==> final(api).state().fields == old(api).state().fields && final(api).state().objects == old(api).state().objects
                    && final(api).state().events == old(api).state().events && final(api).state().features == old(api).state().features,
                handles_kept(old(api).state().handles, final(api).state().handles),
                ret matches Err(e) ==> !e.is_application_error(),
        @*/
        /*@fn radix-engine/src/blueprints/resource/fungible/fungible_vault.rs :: impl FungibleVaultBlueprint :: fn assert_not_frozen
        @sig
            requires wf_vault(old(api).state())
            ensures
                ret is Ok ==> !frozen_for(old(api).state(), flags) && final(api).state().handles =~= old(api).state().handles,
                frozen_for(old(api).state(), flags) ==> ret is Err,
                // the blueprint itself refuses ONLY a vault that really is frozen for the operation
                ret matches Err(e) ==> (e.is_application_error() ==> frozen_for(old(api).state(), flags)
                    && e == RuntimeError::ApplicationError(ApplicationError::VaultError(VaultError::VaultIsFrozen))),
                final(api).state().fields == old(api).state().fields, final(api).state().objects == old(api).state().objects,
                final(api).state().events == old(api).state().events, final(api).state().features == old(api).state().features,
                handles_kept(old(api).state().handles, final(api).state().handles),
        @*/
        /*@fn radix-engine/src/blueprints/resource/fungible/fungible_vault.rs :: impl FungibleVaultBlueprint :: fn internal_take
        @sig
            requires old(api).state().fields.contains_key(C_BAL()), old(api).state().fields[C_BAL()] is Liquid
            ensures
                !take_ok(balance(old(api).state()), amount.v()) ==> ret is Err && final(api).state().fields == old(api).state().fields,
                ret matches Ok(r) ==> take_ok(balance(old(api).state()), amount.v())
                    && r.amount == amount
                    && final(api).state().fields.contains_key(C_BAL()) && final(api).state().fields[C_BAL()] is Liquid
                    && balance(final(api).state()) == balance(old(api).state()) - amount.v()
                    && frame_balance(old(api).state().fields, final(api).state().fields)
                    && final(api).state().handles =~= old(api).state().handles,
                final(api).state().objects == old(api).state().objects, final(api).state().events == old(api).state().events,
                final(api).state().features == old(api).state().features,
                handles_kept(old(api).state().handles, final(api).state().handles),
        @closure 1 := |e: ResourceError| -> (r: RuntimeError) ensures true
        @*/
        /*@fn radix-engine/src/blueprints/resource/fungible/fungible_vault.rs :: impl FungibleVaultBlueprint :: fn internal_put
        @sig
            requires
                old(api).state().fields.contains_key(C_BAL()), old(api).state().fields[C_BAL()] is Liquid,
                in_dec(balance(old(api).state()) + resource.amount.v()),
            ensures
                ret is Ok ==> final(api).state().fields.contains_key(C_BAL()) && final(api).state().fields[C_BAL()] is Liquid
                    && balance(final(api).state()) == balance(old(api).state()) + resource.amount.v()
                    && frame_balance(old(api).state().fields, final(api).state().fields)
                    && final(api).state().handles =~= old(api).state().handles,
                final(api).state().objects == old(api).state().objects, final(api).state().events == old(api).state().events,
                final(api).state().features == old(api).state().features,
                handles_kept(old(api).state().handles, final(api).state().handles),
        @*/

        /*@fn radix-engine/src/blueprints/resource/fungible/fungible_vault.rs :: impl FungibleVaultBlueprint :: fn take_advanced
        @sig
            requires wf_vault(old(api).state())
            ensures
                ret matches Ok(b) ==> !frozen_for(old(api).state(), VaultFreezeFlags::WITHDRAW)
                    && withdrawn(old(api).state(), final(api).state(), b.0.0, *amount, withdraw_strategy)
                    && final(api).state().events == old(api).state().events.push(EventG::Withdraw(final(api).state().objects[b.0.0].fields[I_LIQUID()]->Liquid_0)),
                // a vault frozen for withdrawals gives nothing
                frozen_for(old(api).state(), VaultFreezeFlags::WITHDRAW) ==> ret is Err
                    && final(api).state().fields == old(api).state().fields && final(api).state().objects == old(api).state().objects,
        @*/
        /*@fn radix-engine/src/blueprints/resource/fungible/fungible_vault.rs :: impl FungibleVaultBlueprint :: fn take
        @sig
            requires wf_vault(old(api).state())
            ensures
                ret matches Ok(b) ==> !frozen_for(old(api).state(), VaultFreezeFlags::WITHDRAW)
                    && withdrawn(old(api).state(), final(api).state(), b.0.0, *amount, WithdrawStrategy::Exact)
                    && final(api).state().events == old(api).state().events.push(EventG::Withdraw(*amount)),
                frozen_for(old(api).state(), VaultFreezeFlags::WITHDRAW) ==> ret is Err
                    && final(api).state().fields == old(api).state().fields && final(api).state().objects == old(api).state().objects,
        @*/
        /*@fn radix-engine/src/blueprints/resource/fungible/fungible_vault.rs :: impl FungibleVaultBlueprint :: fn put
        @sig
            requires
                wf_vault(old(api).state()),
                old(api).state().objects.contains_key(bucket.0.0) ==> is_fungible_bucket(old(api).state().objects[bucket.0.0])
                    && in_dec(balance(old(api).state()) + bucket_amount(old(api).state().objects[bucket.0.0])),
            ensures
                ret is Ok ==> !frozen_for(old(api).state(), VaultFreezeFlags::DEPOSIT)
                    && deposited(old(api).state(), final(api).state(), bucket.0.0)
                    && final(api).state().events == old(api).state().events.push(EventG::Deposit(old(api).state().objects[bucket.0.0].fields[I_LIQUID()]->Liquid_0)),
                // a vault frozen for deposits takes nothing
                frozen_for(old(api).state(), VaultFreezeFlags::DEPOSIT) ==> ret is Err
                    && final(api).state().fields == old(api).state().fields && final(api).state().objects == old(api).state().objects,
        @*/
    }

    // ==========================================================================================
    // FungibleBucketBlueprint: take / put (the bucket is the actor)
    // ==========================================================================================
    impl FungibleBucketBlueprint {
        /*@fn radix-engine/src/blueprints/resource/fungible/fungible_bucket.rs :: impl FungibleBucketBlueprint :: fn get_divisibility
        @sig
            requires wf_container(old(api).state())
            ensures
                ret matches Ok(d) ==> d as int == outer_divisibility(old(api).state())
                    && final(api).state() == (State { handles: final(api).state().handles, ..old(api).state() })
                    && final(api).state().handles =~= old(api).state().handles,
                ret is Err ==> final(api).state().fields == old(api).state().fields && final(api).state().objects == old(api).state().objects
                    && final(api).state().events == old(api).state().events && final(api).state().features == old(api).state().features,
                handles_kept(old(api).state().handles, final(api).state().handles),
                ret matches Err(e) ==> !e.is_application_error(),
        @*/
        /*@fn radix-engine/src/blueprints/resource/fungible/fungible_bucket.rs :: impl FungibleBucketBlueprint :: fn internal_take
        @sig
            requires old(api).state().fields.contains_key(C_BAL()), old(api).state().fields[C_BAL()] is Liquid
            ensures
                !take_ok(balance(old(api).state()), amount.v()) ==> ret is Err && final(api).state().fields == old(api).state().fields,
                ret matches Ok(r) ==> take_ok(balance(old(api).state()), amount.v())
                    && r.amount == amount
                    && final(api).state().fields.contains_key(C_BAL()) && final(api).state().fields[C_BAL()] is Liquid
                    && balance(final(api).state()) == balance(old(api).state()) - amount.v()
                    && frame_balance(old(api).state().fields, final(api).state().fields)
                    && final(api).state().handles =~= old(api).state().handles,
                final(api).state().objects == old(api).state().objects, final(api).state().events == old(api).state().events,
                final(api).state().features == old(api).state().features,
                handles_kept(old(api).state().handles, final(api).state().handles),
        @closure 1 := |e: ResourceError| -> (r: RuntimeError) ensures true
        @*/
        /*@fn radix-engine/src/blueprints/resource/fungible/fungible_bucket.rs :: impl FungibleBucketBlueprint :: fn take_advanced
        @sig
            requires wf_container(old(api).state())
            ensures
                ret matches Ok(b) ==> withdrawn(old(api).state(), final(api).state(), b.0.0, amount, withdraw_strategy)
                    && final(api).state().events == old(api).state().events,
        @*/
        /*@fn radix-engine/src/blueprints/resource/fungible/fungible_bucket.rs :: impl FungibleBucketBlueprint :: fn take
        @sig
            requires wf_container(old(api).state())
            ensures
                ret matches Ok(b) ==> withdrawn(old(api).state(), final(api).state(), b.0.0, amount, WithdrawStrategy::Exact)
                    && final(api).state().events == old(api).state().events,
        @*/
        /*@fn radix-engine/src/blueprints/resource/fungible/fungible_bucket.rs :: impl FungibleBucketBlueprint :: fn put
        @sig
            requires
                wf_container(old(api).state()),
                old(api).state().objects.contains_key(bucket.0.0) ==> is_fungible_bucket(old(api).state().objects[bucket.0.0])
                    && in_dec(balance(old(api).state()) + bucket_amount(old(api).state().objects[bucket.0.0])),
            ensures
                ret is Ok ==> deposited(old(api).state(), final(api).state(), bucket.0.0)
                    && final(api).state().events == old(api).state().events,
        @*/
    }

    // ==========================================================================================
    // C03 at this level, as consequences of the contracts
    // ==========================================================================================
    /// total amount held by the live buckets of this resource manager (fold over the finite object map)
    pub open spec fn circulating(objs: Map<NodeId, ObjG>) -> int
        decreases objs.dom().len()
    {
        if objs.dom().len() == 0 { 0 } else {
            let k = objs.dom().choose();
            bucket_amount(objs[k]) + circulating(objs.remove(k))
        }
    }
    pub proof fn lemma_circ_remove(objs: Map<NodeId, ObjG>, k: NodeId)
        requires objs.contains_key(k)
        ensures circulating(objs) == bucket_amount(objs[k]) + circulating(objs.remove(k))
        decreases objs.dom().len()
    {
        assert(objs.dom().contains(k));
        let c = objs.dom().choose();
        if c != k {
            lemma_circ_remove(objs.remove(c), k);
            lemma_circ_remove(objs.remove(k), c);
            assert(objs.remove(c).remove(k) =~= objs.remove(k).remove(c));
        }
    }
    /// What the resource manager records minus what sits in live buckets (= what the vaults must hold, C04's
    /// other half) is UNCHANGED by a successful mint: the postcondition of `mint` implies it.
    pub proof fn lemma_mint_conserves(s0: State, s1: State, id: NodeId, amount: Decimal)
        requires
            !s0.objects.contains_key(id),
            s1.objects.contains_key(id), is_new_bucket(s1.objects[id], amount),
            s1.objects == s0.objects.insert(id, s1.objects[id]),
            supply(s1) == supply(s0) + amount.v(),
        ensures
            circulating(s1.objects) == circulating(s0.objects) + amount.v(),
            supply(s1) - circulating(s1.objects) == supply(s0) - circulating(s0.objects),
    {
        lemma_circ_remove(s1.objects, id);
        assert(s1.objects.remove(id) =~= s0.objects);
    }
    /// .. and by a successful burn: the postcondition `burn_ok(.., true)` implies it.
    pub proof fn lemma_burn_conserves(s0: State, s1: State, node: NodeId)
        requires burn_ok(s0, s1, node, true), tracks(s0)
        ensures
            circulating(s1.objects) == circulating(s0.objects) - bucket_amount(s0.objects[node]),
            supply(s1) - circulating(s1.objects) == supply(s0) - circulating(s0.objects),
    {
        lemma_circ_remove(s0.objects, node);
    }
}
} // verus!
fn main() {}
