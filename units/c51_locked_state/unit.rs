// Unit c51_locked_state -- property C51 "Locked state stays locked forever"
use vstd::prelude::*;
verus! {
/*@include shims/rt.rs @*/

pub mod env {
    use vstd::prelude::*;
    use super::unit::{SystemLockData, FieldSubstate, KeyValueEntrySubstate, LockStatus, SystemService};

    pub type SubstateHandle = u32;
    pub type FieldHandle = u32;
    pub type KeyValueEntryHandle = u32;
    pub type ActorStateHandle = u32;
    pub type CollectionIndex = u8;

    #[verifier::external_body]
    #[derive(Clone, Copy)]
    pub struct NodeId { x: [u8; 30] }
    #[derive(Clone, Copy)]
    pub struct PartitionNumber(pub u8);
    pub enum SubstateKey { Field(u8), Map(Vec<u8>), Sorted(([u8; 2], Vec<u8>)) }
    /// identity of a substate (spec level)
    pub type SubstateId = (NodeId, PartitionNumber, SubstateKey);

    #[verifier::external_body]
    pub struct ScryptoValue { x: Vec<u8> }
    impl Clone for ScryptoValue {
        #[verifier::external_body]
        fn clone(&self) -> (r: Self) ensures r == *self { unimplemented!() }
    }
    #[verifier::external_body]
    pub struct BlueprintTypeTarget { x: Vec<u8> }
    #[verifier::external_body]
    pub struct KVStoreTypeTarget { x: Vec<u8> }
    pub enum KeyOrValue { Key, Value }
    pub enum BlueprintPayloadIdentifier { Field(u8), KeyValueEntry(u8, KeyOrValue), Other }

    pub enum SystemError {
        NotAFieldHandle, NotAFieldWriteHandle, NotAKeyValueEntryHandle, NotAKeyValueEntryWriteHandle,
        InvalidLockFlags, NotAKeyValueStore, InvalidActorStateHandle,
        FieldLocked(ActorStateHandle, u8), KeyValueEntryLocked, Other,
    }
    /// RuntimeError (radix-engine/src/errors.rs) reduced: `Environment` = every error only the kernel / other modules raise
    pub enum RuntimeError { SystemError(SystemError), Environment }
    pub struct DecodeError;
    pub struct EncodeError;
    #[verifier::external]
    impl core::fmt::Debug for DecodeError { fn fmt(&self, f: &mut core::fmt::Formatter<'_>) -> core::fmt::Result { f.write_str("DecodeError") } }
    #[verifier::external]
    impl core::fmt::Debug for EncodeError { fn fmt(&self, f: &mut core::fmt::Formatter<'_>) -> core::fmt::Result { f.write_str("EncodeError") } }

    // ---- SBOR, uninterpreted: `dec::<T>(bytes)` is what decoding `bytes` as a T yields ----------------
    pub uninterp spec fn dec<T>(b: Seq<u8>) -> Option<T>;
    pub trait ScryptoEncode {}
    pub trait ScryptoDecode {}
    impl ScryptoEncode for ScryptoValue {}
    impl ScryptoDecode for ScryptoValue {}
    impl ScryptoEncode for () {}
    impl<T: ScryptoEncode> ScryptoEncode for Option<T> {}
    impl<T: ScryptoEncode> ScryptoEncode for FieldSubstate<T> {}
    impl<T: ScryptoDecode> ScryptoDecode for FieldSubstate<T> {}
    impl<T: ScryptoEncode> ScryptoEncode for KeyValueEntrySubstate<T> {}
    impl<T: ScryptoDecode> ScryptoDecode for KeyValueEntrySubstate<T> {}

    /// ASSUMED: decoding is a function of the bytes; encoding then decoding at the same type is the identity;
    /// encoding does not fail on the values passed here (the real code unwraps).
    #[verifier::external_body]
    pub fn scrypto_decode<T: ScryptoDecode>(buf: &[u8]) -> (r: Result<T, DecodeError>)
        ensures match dec::<T>(buf@) { Some(t) => r == Ok::<T, DecodeError>(t), None => r is Err }
    { unimplemented!() }
    #[verifier::external_body]
    pub fn scrypto_encode<T: ScryptoEncode>(value: &T) -> (r: Result<Vec<u8>, EncodeError>)
        ensures r matches Ok(b) && dec::<T>(b@) == Some(*value)
    { unimplemented!() }

    #[verifier::external_body]
    pub struct IndexedScryptoValue { x: Vec<u8> }
    impl IndexedScryptoValue {
        pub uninterp spec fn bytes(self) -> Seq<u8>;
        #[verifier::external_body]
        pub fn from_typed<T: ScryptoEncode>(value: &T) -> (r: Self)
            ensures dec::<T>(r.bytes()) == Some(*value)
        { unimplemented!() }
        #[verifier::external_body]
        pub fn from_slice(slice: &[u8]) -> (r: Result<Self, DecodeError>)
            ensures r matches Ok(v) ==> v.bytes() == slice@,
                    dec::<ScryptoValue>(slice@) is Some ==> r is Ok
        { unimplemented!() }
        #[verifier::external_body]
        pub fn as_typed<T: ScryptoDecode>(&self) -> (r: Result<T, DecodeError>)
            ensures match dec::<T>(self.bytes()) { Some(t) => r == Ok::<T, DecodeError>(t), None => r is Err }
        { unimplemented!() }
        #[verifier::external_body]
        pub fn as_slice(&self) -> (r: &[u8]) ensures r@ == self.bytes() { unimplemented!() }
        #[verifier::external_body]
        pub fn as_scrypto_value(&self) -> (r: &ScryptoValue)
            ensures dec::<ScryptoValue>(self.bytes()) == Some(*r)
        { unimplemented!() }
    }

    // ---- ghost kernel state ---------------------------------------------------------------------------
    pub ghost struct HandleInfo { pub id: SubstateId, pub data: SystemLockData }
    pub ghost struct KState {
        /// current value of every substate, as `kernel_read_substate` would return it
        pub heap: Map<SubstateId, IndexedScryptoValue>,
        /// open substate handles: which substate, and the system's lock data
        pub handles: Map<SubstateHandle, HandleInfo>,
    }
    pub enum SubstateKind { Field, KeyValue, Other }
    /// schema-level type of the partition a substate lives in (object field / key-value entry / anything else)
    pub uninterp spec fn kind(id: SubstateId) -> SubstateKind;

    pub open spec fn field_of(v: IndexedScryptoValue) -> Option<FieldSubstate<ScryptoValue>> { dec(v.bytes()) }
    pub open spec fn kv_of(v: IndexedScryptoValue) -> Option<KeyValueEntrySubstate<ScryptoValue>> { dec(v.bytes()) }
    /// C51 "has been locked"
    pub open spec fn locked(id: SubstateId, v: IndexedScryptoValue) -> bool {
        match kind(id) {
            SubstateKind::Field => field_of(v) matches Some(f) && f.locked(),
            SubstateKind::KeyValue => kv_of(v) matches Some(e) && e.locked(),
            SubstateKind::Other => false,
        }
    }
    /// same typed content (payload / value AND lock status)
    pub open spec fn same_content(id: SubstateId, a: IndexedScryptoValue, b: IndexedScryptoValue) -> bool {
        match kind(id) {
            SubstateKind::Field => field_of(a) == field_of(b),
            SubstateKind::KeyValue => kv_of(a) == kv_of(b),
            SubstateKind::Other => true,
        }
    }
    /// C51 AS STATED, for one write: a locked substate can be neither changed nor unlocked
    pub open spec fn write_allowed(id: SubstateId, old_v: IndexedScryptoValue, new_v: IndexedScryptoValue) -> bool {
        locked(id, old_v) ==> same_content(id, old_v, new_v)
    }

    /// The kernel as seen by the system layer (radix-engine/src/kernel/kernel_api.rs :: KernelSubstateApi<SystemLockData>).
    /// Any call may fail for its own reasons (costing, limits, substate locks, bad handle); `Err` changes nothing.
    pub trait SystemBasedKernelApi: Sized {
        spec fn st(&self) -> KState;

        fn kernel_get_lock_data(&mut self, lock_handle: SubstateHandle) -> (r: Result<SystemLockData, RuntimeError>)
            ensures final(self).st() == old(self).st(),
                    r matches Ok(d) ==> old(self).st().handles.contains_key(lock_handle) && d == old(self).st().handles[lock_handle].data,
                    r matches Err(e) ==> e is Environment;

        fn kernel_read_substate(&mut self, lock_handle: SubstateHandle) -> (r: Result<&IndexedScryptoValue, RuntimeError>)
            ensures final(self).st() == old(self).st(),
                    r matches Ok(v) ==> old(self).st().handles.contains_key(lock_handle)
                        && old(self).st().heap.contains_key(old(self).st().handles[lock_handle].id)
                        && *v == old(self).st().heap[old(self).st().handles[lock_handle].id],
                    r matches Err(e) ==> e is Environment;

        /// THE SENSITIVE CALLEE: its precondition is property C51 itself.
        fn kernel_write_substate(&mut self, lock_handle: SubstateHandle, value: IndexedScryptoValue) -> (r: Result<(), RuntimeError>)
            requires
                old(self).st().handles.contains_key(lock_handle) && old(self).st().heap.contains_key(old(self).st().handles[lock_handle].id)
                    ==> write_allowed(old(self).st().handles[lock_handle].id, old(self).st().heap[old(self).st().handles[lock_handle].id], value),
            ensures
                final(self).st().handles == old(self).st().handles,
                r is Ok ==> old(self).st().handles.contains_key(lock_handle)
                    && old(self).st().heap.contains_key(old(self).st().handles[lock_handle].id)
                    && final(self).st().heap == old(self).st().heap.insert(old(self).st().handles[lock_handle].id, value),
                r matches Err(e) ==> e is Environment && final(self).st().heap == old(self).st().heap;

        fn kernel_close_substate(&mut self, lock_handle: SubstateHandle) -> (r: Result<(), RuntimeError>)
            ensures final(self).st().heap == old(self).st().heap,
                    r is Ok ==> final(self).st().handles == old(self).st().handles.remove(lock_handle),
                    r matches Err(e) ==> e is Environment && final(self).st().handles == old(self).st().handles;
    }

    // ---- methods of SystemService that are NOT under contract (type checker) -------------------------
    impl<'a, Y: SystemBasedKernelApi> SystemService<'a, Y> {
        /// system_type_checker.rs: ASSUMED to leave the ghost state alone (it only reads schemas) and, on Ok,
        /// to guarantee that the payload decodes as a ScryptoValue ("Should be valid due to payload check").
        #[verifier::external_body]
        pub fn validate_blueprint_payload(&mut self, target: &BlueprintTypeTarget, payload_identifier: BlueprintPayloadIdentifier, payload: &[u8]) -> (r: Result<(), RuntimeError>)
            ensures final(self).api.st() == old(self).api.st(),
                    *final(final(self).api) == *final(old(self).api),
                    r is Ok ==> dec::<ScryptoValue>(payload@) is Some,
        { unimplemented!() }
        #[verifier::external_body]
        pub fn validate_kv_store_payload(&mut self, target: &KVStoreTypeTarget, payload_identifier: KeyOrValue, payload: &[u8]) -> (r: Result<(), RuntimeError>)
            ensures final(self).api.st() == old(self).api.st(),
                    *final(final(self).api) == *final(old(self).api),
                    r is Ok ==> dec::<ScryptoValue>(payload@) is Some,
        { unimplemented!() }
    }
}

pub mod unit {
    use vstd::prelude::*;
    use super::rt::*;
    use super::env::*;

    /*@item radix-engine/src/system/system_substates.rs :: enum LockStatus
    @derive Copy, Clone, PartialEq, Eq
    @*/
    /*@item radix-engine/src/system/system_substates.rs :: struct FieldSubstateV1
    @derive
    @*/
    /*@item radix-engine/src/system/system_substates.rs :: enum FieldSubstate
    @derive
    @*/
    /*@item radix-engine/src/system/system_substates.rs :: struct KeyValueEntrySubstateV1
    @derive
    @*/
    /*@item radix-engine/src/system/system_substates.rs :: enum KeyValueEntrySubstate
    @derive
    @*/

    // ORACLE: the abstract content of a wrapper = (payload, status)
    impl<V> FieldSubstate<V> {
        pub open spec fn st(self) -> LockStatus { self->V1_0.lock_status }
        pub open spec fn pl(self) -> V { self->V1_0.payload }
        pub open spec fn locked(self) -> bool { self.st() == LockStatus::Locked }
    }
    impl<V> KeyValueEntrySubstate<V> {
        pub open spec fn st(self) -> LockStatus { self->V1_0.lock_status }
        pub open spec fn val(self) -> Option<V> { self->V1_0.value }
        pub open spec fn locked(self) -> bool { self.st() == LockStatus::Locked }
    }

    impl<V> FieldSubstate<V> {
        /*@fn radix-engine/src/system/system_substates.rs :: impl<V> FieldSubstate<V> :: fn new_field
        @sig
            ensures ret.pl() == payload, ret.st() == lock_status
        @*/
        /*@fn radix-engine/src/system/system_substates.rs :: impl<V> FieldSubstate<V> :: fn new_unlocked_field
        @sig
            ensures ret.pl() == payload, ret.st() == LockStatus::Unlocked
        @*/
        /*@fn radix-engine/src/system/system_substates.rs :: impl<V> FieldSubstate<V> :: fn new_locked_field
        @sig
            ensures ret.pl() == payload, ret.st() == LockStatus::Locked
        @*/
        /*@fn radix-engine/src/system/system_substates.rs :: impl<V> FieldSubstate<V> :: fn lock
        @sig
            ensures final(self).locked(), final(self).pl() == old(self).pl()
        @*/
        /*@fn radix-engine/src/system/system_substates.rs :: impl<V> FieldSubstate<V> :: fn payload
        @sig
            ensures *ret == self.pl()
        @*/
        /*@fn radix-engine/src/system/system_substates.rs :: impl<V> FieldSubstate<V> :: fn lock_status
        @sig
            ensures ret == self.st()
        @*/
        /*@fn radix-engine/src/system/system_substates.rs :: impl<V> FieldSubstate<V> :: fn into_payload
        @sig
            ensures ret == self.pl()
        @*/
        /*@fn radix-engine/src/system/system_substates.rs :: impl<V> FieldSubstate<V> :: fn into_lock_status
        @sig
            ensures ret == self.st()
        @*/
    }

    impl<V> KeyValueEntrySubstate<V> {
        /*@fn radix-engine/src/system/system_substates.rs :: impl<V> KeyValueEntrySubstate<V> :: fn lock
        @sig
            ensures final(self).locked(), final(self).val() == old(self).val()
        @*/
        /*@fn radix-engine/src/system/system_substates.rs :: impl<V> KeyValueEntrySubstate<V> :: fn into_value
        @sig
            ensures ret == self.val()
        @*/
        /*@fn radix-engine/src/system/system_substates.rs :: impl<V> KeyValueEntrySubstate<V> :: fn is_locked
        @sig
            ensures ret == self.locked()
        @*/
        /*@fn radix-engine/src/system/system_substates.rs :: impl<V> KeyValueEntrySubstate<V> :: fn unlocked_entry
        @sig
            ensures ret.val() == Some(value), ret.st() == LockStatus::Unlocked
        @*/
        /*@fn radix-engine/src/system/system_substates.rs :: impl<V> KeyValueEntrySubstate<V> :: fn locked_entry
        @sig
            ensures ret.val() == Some(value), ret.st() == LockStatus::Locked
        @*/
        /*@fn radix-engine/src/system/system_substates.rs :: impl<V> KeyValueEntrySubstate<V> :: fn locked_empty_entry
        @sig
            ensures ret.val() == None::<V>, ret.st() == LockStatus::Locked
        @*/
        /*@fn radix-engine/src/system/system_substates.rs :: impl<V> KeyValueEntrySubstate<V> :: fn remove
        @sig
            ensures ret == old(self).val(), final(self).val() == None::<V>, final(self).st() == old(self).st()
        @*/
        /*@fn radix-engine/src/system/system_substates.rs :: impl<V> KeyValueEntrySubstate<V> :: fn lock_status
        @sig
            ensures ret == self.st()
        @*/
    }

    // ==========================================================================================
    // (b) the system layer's writers (radix-engine/src/system/system.rs)
    // ==========================================================================================
    /*@item radix-engine/src/system/system_callback.rs :: enum SystemLockData
    @derive
    @*/
    /*@item radix-engine/src/system/system_callback.rs :: enum KeyValueEntryLockData
    @derive
    @*/
    /*@item radix-engine/src/system/system_callback.rs :: enum FieldLockData
    @derive
    @*/
    impl SystemLockData {
        /*@fn radix-engine/src/system/system_callback.rs :: impl SystemLockData :: fn is_kv_entry
        @sig
            ensures ret == (*self is KeyValueEntry)
        @*/
        /*@fn radix-engine/src/system/system_callback.rs :: impl SystemLockData :: fn is_kv_entry_with_write
        @sig
            ensures ret == kv_write_data(*self)
        @*/
    }
    pub open spec fn kv_write_data(d: SystemLockData) -> bool {
        d matches SystemLockData::KeyValueEntry(k) && !(k is Read)
    }
    pub open spec fn field_write_data(d: SystemLockData) -> bool {
        d matches SystemLockData::Field(f) && f is Write
    }

    /*@item radix-engine/src/system/system.rs :: struct SystemService
    @*/

    /// typing invariant of the ghost kernel state
    pub open spec fn inv(s: KState) -> bool {
        &&& forall|h: SubstateHandle| #[trigger] s.handles.contains_key(h) ==> s.heap.contains_key(s.handles[h].id)
                && (s.handles[h].data is Field ==> kind(s.handles[h].id) is Field)
                && (s.handles[h].data is KeyValueEntry ==> kind(s.handles[h].id) is KeyValue)
        &&& forall|id: SubstateId| #[trigger] s.heap.contains_key(id) ==>
                (kind(id) is Field ==> field_of(s.heap[id]) is Some) && (kind(id) is KeyValue ==> kv_of(s.heap[id]) is Some)
    }
    /// every open handle that carries WRITE lock data points at a substate that is not locked
    pub open spec fn write_handles_unlocked(s: KState) -> bool {
        forall|h: SubstateHandle| #[trigger] s.handles.contains_key(h) && (field_write_data(s.handles[h].data) || kv_write_data(s.handles[h].data))
            ==> !locked(s.handles[h].id, s.heap[s.handles[h].id])
    }
    /// C51 over one step of the heap: whatever was locked is still there, locked, with the same content
    pub open spec fn heap_monotone(h0: Map<SubstateId, IndexedScryptoValue>, h1: Map<SubstateId, IndexedScryptoValue>) -> bool {
        forall|id: SubstateId| #[trigger] h0.contains_key(id) ==> h1.contains_key(id) && write_allowed(id, h0[id], h1[id])
    }

    impl<'a, Y: SystemBasedKernelApi> SystemService<'a, Y> {
        /*@fn radix-engine/src/system/system.rs :: impl<'a, Y: SystemBasedKernelApi> SystemFieldApi<RuntimeError> for SystemService<'a, Y> :: fn field_write
        @sig
            requires inv(old(self).api.st()), write_handles_unlocked(old(self).api.st())
            ensures
                inv(final(self).api.st()), write_handles_unlocked(final(self).api.st()),
                heap_monotone(old(self).api.st().heap, final(self).api.st().heap),
                *final(final(self).api) == *final(old(self).api),
        @*/
        /*@fn radix-engine/src/system/system.rs :: impl<'a, Y: SystemBasedKernelApi> SystemFieldApi<RuntimeError> for SystemService<'a, Y> :: fn field_lock
        @sig
            requires inv(old(self).api.st())
            ensures
                inv(final(self).api.st()),
                heap_monotone(old(self).api.st().heap, final(self).api.st().heap),
                *final(final(self).api) == *final(old(self).api),
        @*/
    }
    impl<V> Default for KeyValueEntrySubstate<V> {
        /*@fn radix-engine/src/system/system_substates.rs :: impl<V> Default for KeyValueEntrySubstate<V> :: fn default
        @sig
            ensures ret.val() == None::<V>, ret.st() == LockStatus::Unlocked
        @*/
    }
}
} // verus!
fn main() {}
