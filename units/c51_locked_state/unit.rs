// Unit c51_locked_state -- property C51 "Locked state stays locked forever"
// Real code (bodies extracted verbatim):
//  (a) radix-engine/src/system/system_substates.rs : every method of FieldSubstate<V>, KeyValueEntrySubstate<V> (+ Default), LockStatus
//  (b) radix-engine/src/system/system.rs (SystemService) : the OPEN GUARDS actor_open_field, actor_open_key_value_entry,
//      key_value_store_open_entry; the WRITERS field_write, field_lock, key_value_entry_set, key_value_entry_remove,
//      key_value_entry_lock, key_value_entry_remove_and_close_substate, actor_remove_key_value_entry,
//      key_value_store_remove_entry, kernel_write_substate (forwarding impl); readers/closers field_read, field_close,
//      key_value_entry_get, key_value_entry_close, kernel_close_substate; TryFrom<ActorStateHandle> for ActorStateRef;
//      system_callback.rs SystemLockData::{is_kv_entry, is_kv_entry_with_write}
//  (c) blueprint level, against the SystemApi trait whose contract SystemService is CHECKED to satisfy:
//      radix-engine-interface field_api.rs / key_value_entry_api.rs provided methods field_read_typed, field_write_typed,
//      key_value_entry_set_typed; metadata/package.rs MetadataNativePackage::{set, lock}; royalty/package.rs
//      ComponentRoyaltyBlueprint::lock_royalty; role_assignment/package.rs RoleAssignmentNativePackage::{set_owner_role, lock_owner_role}
// Method: "sensitive callee". The kernel primitive `kernel_write_substate` (env trait, not under contract) carries property
// C51 as its PRECONDITION -- `write_allowed`: a substate whose stored value is Locked may only be rewritten with the same
// typed content -- so every path of the system layer that reaches it must have established "not locked" (or "unchanged").
// Where that comes from: the lock status is checked when a handle is OPENED with LockFlags::MUTABLE (the three open
// guards); the writers check only the handle's lock data (Write / KVStoreWrite / KVCollectionWrite). The link between the
// two is the state invariant `write_handles_unlocked` (every open handle carrying write lock data points at an unlocked
// substate): established by the open guards on Ok, kept by write/set/remove, BROKEN by field_lock / key_value_entry_lock for
// the handle they are called on (contract: `write_handles_unlocked_except`) and re-established by closing that handle
// (lemma_close_restores, using the kernel's writer exclusivity, C13). The sequence lock; write through the SAME still-open handle is therefore
// outside the proof, and on the real engine it unlocks the field: finding_replay/OUTPUT.txt. See props.frag.json.
use vstd::prelude::*;
verus! {
/*@include shims/rt.rs @*/
/*@include shims/bytes.rs @*/

pub mod env {
    use vstd::prelude::*;
    use super::unit::{SystemLockData, FieldSubstate, FieldSubstateV1, KeyValueEntrySubstate, KeyValueEntrySubstateV1, LockStatus, SystemService, ActorStateRef};

    pub type SubstateHandle = u32;
    pub type FieldHandle = u32;
    pub type KeyValueEntryHandle = u32;
    pub type ActorStateHandle = u32;
    pub type CollectionIndex = u8;

    #[verifier::external_body]
    #[derive(Clone, Copy)]
    pub struct NodeId { x: [u8; 30] }
    #[derive(Clone, Copy)]
    pub struct PartitionNumber(pub u8);
    pub enum SubstateKey { Field(u8), Map(Vec<u8>), Sorted(([u8; 2], Vec<u8>)) }
    /// identity of a substate (spec level)
    pub type SubstateId = (NodeId, PartitionNumber, SubstateKey);

    #[verifier::external_body]
    pub struct ScryptoValue { x: Vec<u8> }
    impl Clone for ScryptoValue {
        #[verifier::external_body]
        fn clone(&self) -> (r: Self) ensures r == *self { unimplemented!() }
    }
    #[derive(Clone, Copy)]
    pub struct PackageAddress(pub u8);
    pub const RESOURCE_PACKAGE: PackageAddress = PackageAddress(3);
    pub const FUNGIBLE_VAULT_BLUEPRINT: &'static str = "FungibleVault";
    pub const MAIN_BASE_PARTITION: PartitionNumber = PartitionNumber(64u8);
    pub const ACTOR_STATE_SELF: ActorStateHandle = 0u32;
    pub const ACTOR_STATE_OUTER_OBJECT: ActorStateHandle = 1u32;
    #[verifier::external_body]
    pub struct BlueprintId { x: Vec<u8> }
    impl BlueprintId {
        #[verifier::external_body]
        pub fn new(package_address: &PackageAddress, blueprint_name: &str) -> (r: Self) { unimplemented!() }
        #[verifier::external_body]
        pub fn eq(&self, other: &Self) -> (r: bool) { unimplemented!() }
    }
    #[verifier::external_body]
    pub struct BlueprintInfoRest { x: Vec<u8> }
    /// radix-engine-interface BlueprintInfo: only `blueprint_id` is looked at
    pub struct BlueprintInfo { pub blueprint_id: BlueprintId, pub rest: BlueprintInfoRest }
    pub enum SchemaValidationMeta { ExistingObject { additional_schemas: NodeId }, Blueprint }
    pub struct BlueprintTypeTarget { pub blueprint_info: BlueprintInfo, pub meta: SchemaValidationMeta }
    #[verifier::external_body]
    pub struct KeyValueStoreGenericSubstitutions { x: Vec<u8> }
    pub struct KVStoreTypeTarget { pub kv_store_type: KeyValueStoreGenericSubstitutions, pub meta: NodeId }
    pub struct KeyValueStoreInfo { pub generic_substitutions: KeyValueStoreGenericSubstitutions }
    pub enum TypeInfoSubstate { Object, KeyValueStore(KeyValueStoreInfo), GlobalAddressReservation, GlobalAddressPhantom }
    pub enum FieldTransience { NotTransient, TransientStatic { default_value: Vec<u8> } }
    pub enum BlueprintPartitionType { KeyValueCollection, IndexCollection, SortedIndexCollection }

    /// bitflags! LockFlags (radix-engine-interface/src/api/field_api.rs)
    #[derive(Clone, Copy)]
    pub struct LockFlags { pub bits: u32 }
    impl LockFlags {
        pub const MUTABLE: LockFlags = LockFlags { bits: 1 };
        pub const UNMODIFIED_BASE: LockFlags = LockFlags { bits: 2 };
        pub const FORCE_WRITE: LockFlags = LockFlags { bits: 4 };
        pub open spec fn has(self, o: LockFlags) -> bool { self.bits & o.bits == o.bits }
        pub fn contains(&self, other: LockFlags) -> (r: bool) ensures r == self.has(other) { self.bits & other.bits == other.bits }
        pub fn read_only() -> (r: LockFlags) ensures r.bits == 0 { LockFlags { bits: 0 } }
    }
    pub enum KeyOrValue { Key, Value }
    pub enum BlueprintPayloadIdentifier { Field(u8), KeyValueEntry(u8, KeyOrValue), Other }

    pub enum SystemError {
        NotAFieldHandle, NotAFieldWriteHandle, NotAKeyValueEntryHandle, NotAKeyValueEntryWriteHandle,
        InvalidLockFlags, NotAKeyValueStore, InvalidActorStateHandle,
        FieldLocked(ActorStateHandle, u8), KeyValueEntryLocked, Other,
    }
    /// RuntimeError (radix-engine/src/errors.rs) reduced: `Environment` = every error only the kernel / other modules raise
    pub enum RuntimeError { SystemError(SystemError), ApplicationError(ApplicationError), Environment }
    pub enum ApplicationError { MetadataError(MetadataError), RoleAssignmentError(RoleAssignmentError), Other }
    pub enum MetadataError { MetadataValueValidationError(MetadataValueValidationError), MetadataKeyValidationError(MetadataKeyValidationError), Other }
    pub struct MetadataKeyValidationError;
    pub struct MetadataValueValidationError;
    pub struct RoleAssignmentError;
    pub struct DecodeError;
    pub struct EncodeError;
    #[verifier::external]
    impl core::fmt::Debug for DecodeError { fn fmt(&self, f: &mut core::fmt::Formatter<'_>) -> core::fmt::Result { f.write_str("DecodeError") } }
    #[verifier::external]
    impl core::fmt::Debug for EncodeError { fn fmt(&self, f: &mut core::fmt::Formatter<'_>) -> core::fmt::Result { f.write_str("EncodeError") } }

    // ---- SBOR, uninterpreted: `dec::<T>(bytes)` is what decoding `bytes` as a T yields ----------------
    pub uninterp spec fn dec<T>(b: Seq<u8>) -> Option<T>;
    pub trait ScryptoEncode {}
    pub trait ScryptoDecode {}
    impl ScryptoEncode for ScryptoValue {}
    impl ScryptoDecode for ScryptoValue {}
    impl ScryptoEncode for () {}
    impl<T: ScryptoEncode> ScryptoEncode for Option<T> {}
    impl<T: ScryptoDecode> ScryptoDecode for Option<T> {}
    impl<T: ScryptoEncode> ScryptoEncode for FieldSubstate<T> {}
    impl<T: ScryptoDecode> ScryptoDecode for FieldSubstate<T> {}
    impl<T: ScryptoEncode> ScryptoEncode for KeyValueEntrySubstate<T> {}
    impl<T: ScryptoDecode> ScryptoDecode for KeyValueEntrySubstate<T> {}

    /// ASSUMED: decoding is a function of the bytes; encoding then decoding at the same type is the identity;
    /// encoding does not fail on the values passed here (the real code unwraps).
    #[verifier::external_body]
    pub fn scrypto_decode<T: ScryptoDecode>(buf: &[u8]) -> (r: Result<T, DecodeError>)
        ensures match dec::<T>(buf@) { Some(t) => r == Ok::<T, DecodeError>(t), None => r is Err }
    { unimplemented!() }
    #[verifier::external_body]
    pub fn scrypto_encode<T: ScryptoEncode>(value: &T) -> (r: Result<Vec<u8>, EncodeError>)
        ensures r matches Ok(b) && dec::<T>(b@) == Some(*value)
    { unimplemented!() }

    #[verifier::external_body]
    pub struct IndexedScryptoValue { x: Vec<u8> }
    impl IndexedScryptoValue {
        pub uninterp spec fn bytes(self) -> Seq<u8>;
        #[verifier::external_body]
        pub fn from_typed<T: ScryptoEncode>(value: &T) -> (r: Self)
            ensures dec::<T>(r.bytes()) == Some(*value)
        { unimplemented!() }
        #[verifier::external_body]
        pub fn from_slice(slice: &[u8]) -> (r: Result<Self, DecodeError>)
            ensures r matches Ok(v) ==> v.bytes() == slice@,
                    dec::<ScryptoValue>(slice@) is Some ==> r is Ok
        { unimplemented!() }
        #[verifier::external_body]
        pub fn as_typed<T: ScryptoDecode>(&self) -> (r: Result<T, DecodeError>)
            ensures match dec::<T>(self.bytes()) { Some(t) => r == Ok::<T, DecodeError>(t), None => r is Err }
        { unimplemented!() }
        #[verifier::external_body]
        pub fn as_slice(&self) -> (r: &[u8]) ensures r@ == self.bytes() { unimplemented!() }
        #[verifier::external_body]
        pub fn as_scrypto_value(&self) -> (r: &ScryptoValue)
            ensures dec::<ScryptoValue>(self.bytes()) == Some(*r)
        { unimplemented!() }
    }

    // ---- ghost kernel state ---------------------------------------------------------------------------
    /// `mutable` = the handle was opened with LockFlags::MUTABLE (the kernel's own notion of a write lock)
    pub ghost struct HandleInfo { pub id: SubstateId, pub data: SystemLockData, pub mutable: bool }
    pub ghost struct KState {
        /// current value of every substate, as `kernel_read_substate` would return it
        pub heap: Map<SubstateId, IndexedScryptoValue>,
        /// open substate handles: which substate, and the system's lock data
        pub handles: Map<SubstateHandle, HandleInfo>,
    }
    pub enum SubstateKind { Field, KeyValue, Other }
    /// schema-level type of the partition a substate lives in (object field / key-value entry / anything else)
    pub uninterp spec fn kind(id: SubstateId) -> SubstateKind;

    pub open spec fn field_of(v: IndexedScryptoValue) -> Option<FieldSubstate<ScryptoValue>> { dec(v.bytes()) }
    pub open spec fn kv_of(v: IndexedScryptoValue) -> Option<KeyValueEntrySubstate<ScryptoValue>> { dec(v.bytes()) }
    /// C51 "has been locked"
    pub open spec fn locked(id: SubstateId, v: IndexedScryptoValue) -> bool {
        match kind(id) {
            SubstateKind::Field => field_of(v) matches Some(f) && f.locked(),
            SubstateKind::KeyValue => kv_of(v) matches Some(e) && e.locked(),
            SubstateKind::Other => false,
        }
    }
    /// same typed content (payload / value AND lock status)
    pub open spec fn same_content(id: SubstateId, a: IndexedScryptoValue, b: IndexedScryptoValue) -> bool {
        match kind(id) {
            SubstateKind::Field => field_of(a) == field_of(b),
            SubstateKind::KeyValue => kv_of(a) == kv_of(b),
            SubstateKind::Other => true,
        }
    }
    /// C51 AS STATED, for one write: a locked substate can be neither changed nor unlocked
    pub open spec fn write_allowed(id: SubstateId, old_v: IndexedScryptoValue, new_v: IndexedScryptoValue) -> bool {
        locked(id, old_v) ==> same_content(id, old_v, new_v)
    }

    pub open spec fn ref_handle(r: ActorStateRef) -> ActorStateHandle { match r { ActorStateRef::SELF => 0u32, ActorStateRef::OuterObject => 1u32 } }
    /// "a payload of this field decodes as S" (schema typing of a field)
    pub open spec fn payload_is<S>(v: ScryptoValue) -> bool {
        forall|b: Seq<u8>| #[trigger] dec::<ScryptoValue>(b) == Some(v) ==> dec::<S>(b) is Some
    }
    /// "the value of this key-value entry (or its absence) decodes as Option<S>" (schema typing of a collection)
    pub open spec fn kv_payload_is<S>(v: Option<ScryptoValue>) -> bool {
        forall|b: Seq<u8>| #[trigger] dec::<Option<ScryptoValue>>(b) == Some(v) ==> dec::<Option<S>>(b) is Some
    }
    /// handle `h` was opened on `id` with lock data `data`
    pub open spec fn opened(s0: KState, s1: KState, h: SubstateHandle, id: SubstateId, data: SystemLockData, flags: LockFlags) -> bool {
        &&& !s0.handles.contains_key(h)
        &&& s1.handles == s0.handles.insert(h, HandleInfo { id, data, mutable: flags.has(LockFlags::MUTABLE) })
        // substate locks are exclusive for writers (property C13, kernel/substate_locks.rs): a MUTABLE open succeeds
        // only if no handle is open on the substate, any open only if no MUTABLE handle is
        &&& forall|h2: SubstateHandle| #[trigger] s0.handles.contains_key(h2) && s0.handles[h2].id == id
                ==> !flags.has(LockFlags::MUTABLE) && !s0.handles[h2].mutable
        &&& s1.heap.contains_key(id)
        &&& s0.heap.contains_key(id) ==> s1.heap == s0.heap
        &&& !s0.heap.contains_key(id) ==> s1.heap.remove(id) == s0.heap
    }
    pub open spec fn kv_entry(v: Option<ScryptoValue>, st: LockStatus) -> KeyValueEntrySubstate<ScryptoValue> {
        KeyValueEntrySubstate::V1(KeyValueEntrySubstateV1 { value: v, lock_status: st })
    }
    /// ASSUMED (SBOR): an EMPTY key-value entry has the same encoding whatever the value type is
    /// (`None` is variant 0 without fields) -- the system creates missing entries as `KeyValueEntrySubstate::<()>::default()`.
    pub broadcast axiom fn ax_empty_entry_any_type(b: Seq<u8>)
        ensures (#[trigger] dec::<KeyValueEntrySubstate<()>>(b) matches Some(e) && e->V1_0.value is None)
            ==> dec::<KeyValueEntrySubstate<ScryptoValue>>(b) == Some(kv_entry(None, dec::<KeyValueEntrySubstate<()>>(b)->Some_0->V1_0.lock_status));

    /// The kernel as seen by the system layer (radix-engine/src/kernel/kernel_api.rs :: KernelSubstateApi<SystemLockData>).
    /// Any call may fail for its own reasons (costing, limits, substate locks, bad handle); `Err` changes nothing.
    pub trait SystemBasedKernelApi: Sized {
        spec fn st(&self) -> KState;
        /// which substate `field_index` of the object behind an actor state handle (SELF = 0 / OUTER_OBJECT = 1) is,
        /// for the current call frame (uninterpreted; resolved in reality by get_actor_field_info)
        spec fn actor_field(&self, object_handle: ActorStateHandle, field_index: u8) -> SubstateId;

        fn kernel_get_lock_data(&mut self, lock_handle: SubstateHandle) -> (r: Result<SystemLockData, RuntimeError>)
            ensures final(self).st() == old(self).st(),
                    r matches Ok(d) ==> old(self).st().handles.contains_key(lock_handle) && d == old(self).st().handles[lock_handle].data,
                    r matches Err(e) ==> e is Environment;

        fn kernel_read_substate(&mut self, lock_handle: SubstateHandle) -> (r: Result<&IndexedScryptoValue, RuntimeError>)
            ensures final(self).st() == old(self).st(),
                    r matches Ok(v) ==> old(self).st().handles.contains_key(lock_handle)
                        && old(self).st().heap.contains_key(old(self).st().handles[lock_handle].id)
                        && *v == old(self).st().heap[old(self).st().handles[lock_handle].id],
                    r matches Err(e) ==> e is Environment;

        /// THE SENSITIVE CALLEE: its precondition is property C51 itself.
        fn kernel_write_substate(&mut self, lock_handle: SubstateHandle, value: IndexedScryptoValue) -> (r: Result<(), RuntimeError>)
            requires
                old(self).st().handles.contains_key(lock_handle) && old(self).st().heap.contains_key(old(self).st().handles[lock_handle].id)
                    ==> write_allowed(old(self).st().handles[lock_handle].id, old(self).st().heap[old(self).st().handles[lock_handle].id], value),
            ensures
                final(self).st().handles == old(self).st().handles,
                r is Ok ==> old(self).st().handles.contains_key(lock_handle)
                    && old(self).st().heap.contains_key(old(self).st().handles[lock_handle].id)
                    && final(self).st().heap == old(self).st().heap.insert(old(self).st().handles[lock_handle].id, value),
                r matches Err(e) ==> e is Environment && final(self).st().heap == old(self).st().heap;

        /// Opening never touches an existing substate; a missing one is created from `default` (or the call fails).
        fn kernel_open_substate_with_default<F: FnOnce() -> IndexedScryptoValue>(&mut self, node_id: &NodeId, partition_num: PartitionNumber,
                substate_key: &SubstateKey, flags: LockFlags, default: Option<F>, lock_data: SystemLockData) -> (r: Result<SubstateHandle, RuntimeError>)
            requires default matches Some(f) ==> f.requires(())
            ensures
                r matches Ok(h) ==> opened(old(self).st(), final(self).st(), h, (*node_id, partition_num, *substate_key), lock_data, flags)
                    && (!old(self).st().heap.contains_key((*node_id, partition_num, *substate_key))
                        ==> (default is Some && default->Some_0.ensures((), final(self).st().heap[(*node_id, partition_num, *substate_key)]))),
                r matches Err(e) ==> e is Environment && final(self).st() == old(self).st();

        fn kernel_open_substate(&mut self, node_id: &NodeId, partition_num: PartitionNumber,
                substate_key: &SubstateKey, flags: LockFlags, lock_data: SystemLockData) -> (r: Result<SubstateHandle, RuntimeError>)
            ensures
                r matches Ok(h) ==> opened(old(self).st(), final(self).st(), h, (*node_id, partition_num, *substate_key), lock_data, flags)
                    && old(self).st().heap.contains_key((*node_id, partition_num, *substate_key)),
                r matches Err(e) ==> e is Environment && final(self).st() == old(self).st();

        fn kernel_mark_substate_as_transient(&mut self, node_id: NodeId, partition_num: PartitionNumber, key: SubstateKey) -> (r: Result<(), RuntimeError>)
            ensures final(self).st() == old(self).st(), r matches Err(e) ==> e is Environment;

        fn kernel_close_substate(&mut self, lock_handle: SubstateHandle) -> (r: Result<(), RuntimeError>)
            ensures final(self).st().heap == old(self).st().heap,
                    r is Ok ==> final(self).st().handles == old(self).st().handles.remove(lock_handle),
                    r matches Err(e) ==> e is Environment && final(self).st().handles == old(self).st().handles;
    }

    /// system/type_info.rs: reads the TypeInfo substate of a node (opens, reads, closes). ASSUMED: net effect on the
    /// ghost state is nil; the MAIN_BASE_PARTITION of a node whose type info says KeyValueStore holds key-value entries.
    pub struct TypeInfoBlueprint;
    impl TypeInfoBlueprint {
        #[verifier::external_body]
        pub fn get_type<Y: SystemBasedKernelApi>(receiver: &NodeId, api: &mut Y) -> (r: Result<TypeInfoSubstate, RuntimeError>)
            ensures final(api).st() == old(api).st(),
                    r is Ok && r->Ok_0 is KeyValueStore ==> forall|k: Vec<u8>| #[trigger] kind((*receiver, MAIN_BASE_PARTITION, SubstateKey::Map(k))) is KeyValue,
        { unimplemented!() }
    }

    // ---- environment of the object-module blueprints (metadata / royalty / role assignment) -----------
    /// radix-native-sdk Runtime::emit_event -> SystemApi::actor_emit_event: events go to the event store of the
    /// system module mixer, not to substates. ASSUMED: no effect on the ghost kernel state.
    pub struct Runtime;
    impl Runtime {
        #[verifier::external_body]
        pub fn emit_event<Y: super::unit::SystemApi<RuntimeError>, T>(api: &mut Y, event: T) -> (r: Result<(), RuntimeError>)
            ensures final(api).kst() == old(api).kst()
        { unimplemented!() }
    }
    #[verifier::external_body]
    pub struct MetadataValue { x: Vec<u8> }
    pub struct SetMetadataEvent { pub key: String, pub value: MetadataValue }
    pub enum MetadataCollection { EntryKeyValue }
    impl MetadataCollection { pub fn collection_index(&self) -> (r: CollectionIndex) ensures r == 0u8 { 0u8 } }
    /// the SBOR payload the metadata module stores for a value (validate_metadata_value encodes MetadataEntryEntryPayload)
    pub uninterp spec fn metadata_value_sbor(v: MetadataValue) -> Seq<u8>;
    /// metadata/package.rs validate_metadata_key / validate_metadata_value: pure functions, not under contract here
    #[verifier::external_body]
    pub fn validate_metadata_key(key: &String) -> (r: Result<Vec<u8>, MetadataKeyValidationError>) { unimplemented!() }
    #[verifier::external_body]
    pub fn validate_metadata_value(value: &MetadataValue) -> (r: Result<Vec<u8>, MetadataValueValidationError>)
        ensures r matches Ok(b) ==> b@ == metadata_value_sbor(*value)
    { unimplemented!() }
    impl ScryptoEncode for String {}
    #[verifier::external_body]
    pub struct AccessRule { x: Vec<u8> }
    impl Clone for AccessRule {
        #[verifier::external_body]
        fn clone(&self) -> (r: Self) ensures r == *self { unimplemented!() }
    }
    pub enum OwnerRoleUpdater { None, Owner, Object }
    pub struct OwnerRoleEntry { pub rule: AccessRule, pub updater: OwnerRoleUpdater }
    pub struct OwnerRoleSubstate { pub owner_role_entry: OwnerRoleEntry }
    /// macro-generated versioned payload wrapper (declare_native_blueprint_state!): a payload is its latest-version content
    pub struct RoleAssignmentOwnerFieldPayload { pub content: OwnerRoleSubstate }
    impl RoleAssignmentOwnerFieldPayload {
        pub fn fully_update_and_into_latest_version(self) -> (r: OwnerRoleSubstate) ensures r == self.content { self.content }
        pub fn from_content_source(c: OwnerRoleSubstate) -> (r: Self) ensures r.content == c { Self { content: c } }
    }
    impl ScryptoEncode for RoleAssignmentOwnerFieldPayload {}
    impl ScryptoDecode for RoleAssignmentOwnerFieldPayload {}
    pub struct SetOwnerRoleEvent { pub rule: AccessRule }
    pub struct LockOwnerRoleEvent {}
    impl super::unit::RoleAssignmentNativePackage {
        /// role_assignment/package.rs: pure depth/size check of a rule, not under contract here
        #[verifier::external_body]
        pub fn verify_access_rule(access_rule: &AccessRule) -> (r: Result<(), RoleAssignmentError>) { unimplemented!() }
    }
    #[verifier::external_body]
    #[derive(Clone, Copy)]
    pub struct RoyaltyAmount { x: u8 }
    pub struct ComponentRoyaltyMethodAmountEntryPayload { pub content: RoyaltyAmount }
    impl ComponentRoyaltyMethodAmountEntryPayload {
        pub fn from_content_source(c: RoyaltyAmount) -> (r: Self) ensures r.content == c { Self { content: c } }
    }
    impl ScryptoEncode for ComponentRoyaltyMethodAmountEntryPayload {}
    impl ScryptoDecode for ComponentRoyaltyMethodAmountEntryPayload {}
    /// royalty/package.rs RoyaltyUtil::verify_royalty_amounts: reads costing parameters (max royalty, USD price) through the
    /// costing API only; not under contract. ASSUMED: no effect on substates / handles.
    pub struct RoyaltyUtil;
    impl RoyaltyUtil {
        #[verifier::external_body]
        pub fn verify_royalty_amounts<'a, I: Iterator<Item = &'a RoyaltyAmount>, Y: super::unit::SystemApi<RuntimeError>>(royalty_amounts: I, is_component: bool, api: &mut Y) -> (r: Result<(), RuntimeError>)
            ensures final(api).kst() == old(api).kst()
        { unimplemented!() }
    }
    pub enum ComponentRoyaltyCollection { MethodAmountKeyValue }
    impl ComponentRoyaltyCollection { pub fn collection_index(&self) -> (r: CollectionIndex) ensures r == 0u8 { 0u8 } }

    // ---- methods of SystemService that are NOT under contract (type checker) -------------------------
    impl<'a, Y: SystemBasedKernelApi> SystemService<'a, Y> {
        /// system_type_checker.rs: ASSUMED to leave the ghost state alone (it only reads schemas) and, on Ok,
        /// to guarantee that the payload decodes as a ScryptoValue ("Should be valid due to payload check").
        #[verifier::external_body]
        pub fn validate_blueprint_payload(&mut self, target: &BlueprintTypeTarget, payload_identifier: BlueprintPayloadIdentifier, payload: &[u8]) -> (r: Result<(), RuntimeError>)
            ensures final(self).api.st() == old(self).api.st(),
                    *final(final(self).api) == *final(old(self).api),
                    r is Ok ==> dec::<ScryptoValue>(payload@) is Some,
        { unimplemented!() }
        /// system.rs, not under contract. ASSUMED: resolves the actor's field partition (kind Field) without touching
        /// substates; a transient field's declared default value is valid SBOR (the caller unwraps its decoding).
        #[verifier::external_body]
        pub fn get_actor_field_info(&mut self, actor_object_type: ActorStateRef, field_index: u8) -> (r: Result<(NodeId, BlueprintInfo, PartitionNumber, FieldTransience), RuntimeError>)
            ensures final(self).api.st() == old(self).api.st(),
                    *final(final(self).api) == *final(old(self).api),
                    r matches Ok(t) ==> kind((t.0, t.2, SubstateKey::Field(field_index))) is Field
                        && (t.0, t.2, SubstateKey::Field(field_index)) == old(self).api.actor_field(ref_handle(actor_object_type), field_index)
                        && (t.3 matches FieldTransience::TransientStatic { default_value } ==> dec::<ScryptoValue>(default_value@) is Some),
        { unimplemented!() }
        /// ASSUMED: resolves the actor's collection partition; for a KeyValueCollection every Map key in it is of kind KeyValue.
        #[verifier::external_body]
        pub fn get_actor_collection_partition_info(&mut self, actor_object_type: ActorStateRef, collection_index: u8, expected_type: &BlueprintPartitionType) -> (r: Result<(NodeId, BlueprintInfo, PartitionNumber), RuntimeError>)
            ensures final(self).api.st() == old(self).api.st(),
                    *final(final(self).api) == *final(old(self).api),
                    r is Ok && *expected_type is KeyValueCollection ==> forall|k: Vec<u8>| #[trigger] kind((r->Ok_0.0, r->Ok_0.2, SubstateKey::Map(k))) is KeyValue,
        { unimplemented!() }
        #[verifier::external_body]
        pub fn validate_kv_store_payload(&mut self, target: &KVStoreTypeTarget, payload_identifier: KeyOrValue, payload: &[u8]) -> (r: Result<(), RuntimeError>)
            ensures final(self).api.st() == old(self).api.st(),
                    *final(final(self).api) == *final(old(self).api),
                    r is Ok ==> dec::<ScryptoValue>(payload@) is Some,
        { unimplemented!() }
    }
}

pub mod unit {
    use vstd::prelude::*;
    use super::rt::*;
    use super::env::*;

    /*@item radix-engine/src/system/system_substates.rs :: enum LockStatus
    @derive Copy, Clone, PartialEq, Eq
    @*/
    /*@item radix-engine/src/system/system_substates.rs :: struct FieldSubstateV1
    @derive
    @*/
    /*@item radix-engine/src/system/system_substates.rs :: enum FieldSubstate
    @derive
    @*/
    /*@item radix-engine/src/system/system_substates.rs :: struct KeyValueEntrySubstateV1
    @derive
    @*/
    /*@item radix-engine/src/system/system_substates.rs :: enum KeyValueEntrySubstate
    @derive
    @*/

    // ORACLE: the abstract content of a wrapper = (payload, status)
    impl<V> FieldSubstate<V> {
        pub open spec fn st(self) -> LockStatus { self->V1_0.lock_status }
        pub open spec fn pl(self) -> V { self->V1_0.payload }
        pub open spec fn locked(self) -> bool { self.st() == LockStatus::Locked }
    }
    impl<V> KeyValueEntrySubstate<V> {
        pub open spec fn st(self) -> LockStatus { self->V1_0.lock_status }
        pub open spec fn val(self) -> Option<V> { self->V1_0.value }
        pub open spec fn locked(self) -> bool { self.st() == LockStatus::Locked }
    }

    impl<V> FieldSubstate<V> {
        /*@fn radix-engine/src/system/system_substates.rs :: impl<V> FieldSubstate<V> :: fn new_field
        @sig
            ensures ret.pl() == payload, ret.st() == lock_status
        @*/
        /*@fn radix-engine/src/system/system_substates.rs :: impl<V> FieldSubstate<V> :: fn new_unlocked_field
        @sig
            ensures ret.pl() == payload, ret.st() == LockStatus::Unlocked
        @*/
        /*@fn radix-engine/src/system/system_substates.rs :: impl<V> FieldSubstate<V> :: fn new_locked_field
        @sig
            ensures ret.pl() == payload, ret.st() == LockStatus::Locked
        @*/
        /*@fn radix-engine/src/system/system_substates.rs :: impl<V> FieldSubstate<V> :: fn lock
        @sig
            ensures final(self).locked(), final(self).pl() == old(self).pl(),
                    old(self).locked() ==> *final(self) == *old(self),      // locking a locked field is the identity
        @*/
        /*@fn radix-engine/src/system/system_substates.rs :: impl<V> FieldSubstate<V> :: fn payload
        @sig
            ensures *ret == self.pl()
        @*/
        /*@fn radix-engine/src/system/system_substates.rs :: impl<V> FieldSubstate<V> :: fn lock_status
        @sig
            ensures ret == self.st()
        @*/
        /*@fn radix-engine/src/system/system_substates.rs :: impl<V> FieldSubstate<V> :: fn into_payload
        @sig
            ensures ret == self.pl()
        @*/
        /*@fn radix-engine/src/system/system_substates.rs :: impl<V> FieldSubstate<V> :: fn into_lock_status
        @sig
            ensures ret == self.st()
        @*/
    }

    impl<V> KeyValueEntrySubstate<V> {
        /*@fn radix-engine/src/system/system_substates.rs :: impl<V> KeyValueEntrySubstate<V> :: fn lock
        @sig
            ensures final(self).locked(), final(self).val() == old(self).val(),
                    old(self).locked() ==> *final(self) == *old(self),
        @*/
        /*@fn radix-engine/src/system/system_substates.rs :: impl<V> KeyValueEntrySubstate<V> :: fn into_value
        @sig
            ensures ret == self.val()
        @*/
        /*@fn radix-engine/src/system/system_substates.rs :: impl<V> KeyValueEntrySubstate<V> :: fn is_locked
        @sig
            ensures ret == self.locked()
        @*/
        /*@fn radix-engine/src/system/system_substates.rs :: impl<V> KeyValueEntrySubstate<V> :: fn unlocked_entry
        @sig
            ensures ret.val() == Some(value), ret.st() == LockStatus::Unlocked
        @*/
        /*@fn radix-engine/src/system/system_substates.rs :: impl<V> KeyValueEntrySubstate<V> :: fn locked_entry
        @sig
            ensures ret.val() == Some(value), ret.st() == LockStatus::Locked
        @*/
        /*@fn radix-engine/src/system/system_substates.rs :: impl<V> KeyValueEntrySubstate<V> :: fn locked_empty_entry
        @sig
            ensures ret.val() == None::<V>, ret.st() == LockStatus::Locked
        @*/
        /*@fn radix-engine/src/system/system_substates.rs :: impl<V> KeyValueEntrySubstate<V> :: fn remove
        @sig
            ensures ret == old(self).val(), final(self).val() == None::<V>, final(self).st() == old(self).st(),
                    old(self).locked() ==> final(self).locked(),            // never unlocks (but DOES drop the value: callers must guard)
        @*/
        /*@fn radix-engine/src/system/system_substates.rs :: impl<V> KeyValueEntrySubstate<V> :: fn lock_status
        @sig
            ensures ret == self.st()
        @*/
    }

    // ==========================================================================================
    // (b) the system layer's writers (radix-engine/src/system/system.rs)
    // ==========================================================================================
    /*@item radix-engine/src/system/system_callback.rs :: enum SystemLockData
    @derive
    @*/
    /*@item radix-engine/src/system/system_callback.rs :: enum KeyValueEntryLockData
    @derive
    @*/
    /*@item radix-engine/src/system/system_callback.rs :: enum FieldLockData
    @derive
    @*/
    impl SystemLockData {
        /*@fn radix-engine/src/system/system_callback.rs :: impl SystemLockData :: fn is_kv_entry
        @sig
            ensures ret == (*self is KeyValueEntry)
        @*/
        /*@fn radix-engine/src/system/system_callback.rs :: impl SystemLockData :: fn is_kv_entry_with_write
        @sig
            ensures ret == kv_write_data(*self)
        @*/
    }
    pub open spec fn kv_write_data(d: SystemLockData) -> bool {
        d matches SystemLockData::KeyValueEntry(k) && !(k is Read)
    }
    pub open spec fn field_write_data(d: SystemLockData) -> bool {
        d matches SystemLockData::Field(f) && f is Write
    }

    /*@item radix-engine/src/system/system.rs :: struct SystemService
    @*/

    // ---- ORACLE over the ghost kernel state ---------------------------------------------------
    /// typing invariant of the ghost kernel state
    pub open spec fn inv(s: KState) -> bool {
        &&& forall|h: SubstateHandle| #[trigger] s.handles.contains_key(h) ==> s.heap.contains_key(s.handles[h].id)
                && (s.handles[h].data is Field ==> kind(s.handles[h].id) is Field)
                && (s.handles[h].data is KeyValueEntry ==> kind(s.handles[h].id) is KeyValue)
                && (is_write_data(s.handles[h].data) ==> s.handles[h].mutable)
        // a MUTABLE handle is the only handle on its substate (C13)
        &&& forall|h1: SubstateHandle, h2: SubstateHandle| #[trigger] s.handles.contains_key(h1) && #[trigger] s.handles.contains_key(h2)
                && h1 != h2 && s.handles[h1].mutable ==> s.handles[h1].id != s.handles[h2].id
        &&& forall|id: SubstateId| #[trigger] s.heap.contains_key(id) ==>
                (kind(id) is Field ==> field_of(s.heap[id]) is Some) && (kind(id) is KeyValue ==> kv_of(s.heap[id]) is Some)
    }
    pub open spec fn is_write_data(d: SystemLockData) -> bool { field_write_data(d) || kv_write_data(d) }
    /// every open handle that carries WRITE lock data points at a substate that is not locked
    pub open spec fn write_handles_unlocked(s: KState) -> bool {
        forall|h: SubstateHandle| #[trigger] s.handles.contains_key(h) && is_write_data(s.handles[h].data)
            ==> !locked(s.handles[h].id, s.heap[s.handles[h].id])
    }
    /// ... except the handles on `id`
    pub open spec fn write_handles_unlocked_except(s: KState, id: SubstateId) -> bool {
        forall|h: SubstateHandle| #[trigger] s.handles.contains_key(h) && is_write_data(s.handles[h].data) && s.handles[h].id != id
            ==> !locked(s.handles[h].id, s.heap[s.handles[h].id])
    }
    /// C51 over one step of the heap: whatever was locked is still there, locked, with the same content
    pub open spec fn heap_monotone(h0: Map<SubstateId, IndexedScryptoValue>, h1: Map<SubstateId, IndexedScryptoValue>) -> bool {
        forall|id: SubstateId| #[trigger] h0.contains_key(id) ==> h1.contains_key(id) && write_allowed(id, h0[id], h1[id])
    }
    pub open spec fn unchanged(s0: KState, s1: KState) -> bool { s1.heap == s0.heap && s1.handles == s0.handles }
    /// the substate under `h` (which is open) is the only thing that was rewritten
    pub open spec fn only_rewritten(s0: KState, s1: KState, h: SubstateHandle) -> bool {
        &&& s0.handles.contains_key(h) && s0.heap.contains_key(s0.handles[h].id)
        &&& s1.handles == s0.handles
        &&& s1.heap.dom() =~= s0.heap.dom()
        &&& s1.heap.remove(s0.handles[h].id) =~= s0.heap.remove(s0.handles[h].id)
    }
    /// the error a wrong-handle call must produce, unless the kernel failed first
    pub open spec fn fails_with(r: Result<(), RuntimeError>, e: SystemError) -> bool {
        r matches Err(x) && (x is Environment || x == RuntimeError::SystemError(e))
    }
    pub open spec fn fails_with_b(r: Result<Vec<u8>, RuntimeError>, e: SystemError) -> bool {
        r matches Err(x) && (x is Environment || x == RuntimeError::SystemError(e))
    }
    pub open spec fn unlocked_field(v: ScryptoValue) -> FieldSubstate<ScryptoValue> {
        FieldSubstate::V1(FieldSubstateV1 { payload: v, lock_status: LockStatus::Unlocked })
    }

    /*@item radix-engine/src/system/system.rs :: enum ActorStateRef
    @derive
    @subst <<enum ActorStateRef>> => <<pub enum ActorStateRef>> why: visibility only -- the private enum must be nameable from the env module, which models get_actor_field_info / get_actor_collection_partition_info
    @*/
    pub open spec fn actor_state_ref(value: ActorStateHandle) -> Result<ActorStateRef, RuntimeError> {
        if value == 0u32 { Ok(ActorStateRef::SELF) } else if value == 1u32 { Ok(ActorStateRef::OuterObject) }
        else { Err(RuntimeError::SystemError(SystemError::InvalidActorStateHandle)) }
    }
    impl vstd::std_specs::convert::TryFromSpecImpl<ActorStateHandle> for ActorStateRef {
        open spec fn obeys_try_from_spec() -> bool { true }
        open spec fn try_from_spec(value: ActorStateHandle) -> Result<ActorStateRef, RuntimeError> { actor_state_ref(value) }
    }
    impl TryFrom<ActorStateHandle> for ActorStateRef {
        type Error = RuntimeError;
        /*@fn radix-engine/src/system/system.rs :: impl TryFrom<ActorStateHandle> for ActorStateRef :: fn try_from
        @sig
            ensures ret == actor_state_ref(value)
        @*/
    }

    // ---- what the open functions promise ------------------------------------------------------
    pub open spec fn is_new(s0: KState, s1: KState, h: SubstateHandle) -> bool { s1.handles.contains_key(h) && !s0.handles.contains_key(h) }
    /// existing substates and existing handles are untouched
    pub open spec fn extends(s0: KState, s1: KState) -> bool {
        &&& forall|id: SubstateId| #[trigger] s0.heap.contains_key(id) ==> s1.heap.contains_key(id) && s1.heap[id] == s0.heap[id]
        &&& forall|h: SubstateHandle| #[trigger] s0.handles.contains_key(h) ==> s1.handles.contains_key(h) && s1.handles[h] == s0.handles[h]
    }
    pub open spec fn none_new(s0: KState, s1: KState) -> bool { forall|h: SubstateHandle| !is_new(s0, s1, h) }
    /// THE OPEN GUARD for a field: the one handle this call opened is on a Field substate with index `field_index`,
    /// carries Write lock data iff MUTABLE was requested, and if MUTABLE was requested on a LOCKED field the call
    /// returns exactly FieldLocked(object_handle, field_index); otherwise it hands out the handle (or the kernel failed).
    pub open spec fn field_guard(s0: KState, s1: KState, h: SubstateHandle, object_handle: ActorStateHandle, field_index: u8,
                                 flags: LockFlags, ret: Result<SubstateHandle, RuntimeError>) -> bool {
        let i = s1.handles[h];
        &&& s1.handles =~= s0.handles.insert(h, i)
        &&& kind(i.id) is Field && i.id.2 == SubstateKey::Field(field_index)
        &&& i.data is Field && (field_write_data(i.data) <==> flags.has(LockFlags::MUTABLE)) && i.mutable == flags.has(LockFlags::MUTABLE)
        &&& (flags.has(LockFlags::MUTABLE) && locked(i.id, s1.heap[i.id])
                ==> ret == Err::<SubstateHandle, RuntimeError>(RuntimeError::SystemError(SystemError::FieldLocked(object_handle, field_index)))
                    || ret == Err::<SubstateHandle, RuntimeError>(RuntimeError::Environment))
        &&& (!(flags.has(LockFlags::MUTABLE) && locked(i.id, s1.heap[i.id]))
                ==> ret == Ok::<SubstateHandle, RuntimeError>(h) || ret == Err::<SubstateHandle, RuntimeError>(RuntimeError::Environment))
        &&& (!flags.has(LockFlags::MUTABLE) ==> ret == Ok::<SubstateHandle, RuntimeError>(h))
    }
    pub open spec fn kv_guard(s0: KState, s1: KState, h: SubstateHandle, flags: LockFlags, ret: Result<KeyValueEntryHandle, RuntimeError>) -> bool {
        let i = s1.handles[h];
        &&& s1.handles =~= s0.handles.insert(h, i)
        &&& kind(i.id) is KeyValue
        &&& i.data is KeyValueEntry && (kv_write_data(i.data) <==> flags.has(LockFlags::MUTABLE)) && i.mutable == flags.has(LockFlags::MUTABLE)
        &&& (flags.has(LockFlags::MUTABLE) && locked(i.id, s1.heap[i.id])
                ==> ret == Err::<SubstateHandle, RuntimeError>(RuntimeError::SystemError(SystemError::KeyValueEntryLocked))
                    || ret == Err::<SubstateHandle, RuntimeError>(RuntimeError::Environment))
        &&& (!(flags.has(LockFlags::MUTABLE) && locked(i.id, s1.heap[i.id]))
                ==> ret == Ok::<SubstateHandle, RuntimeError>(h) || ret == Err::<SubstateHandle, RuntimeError>(RuntimeError::Environment))
        &&& (!flags.has(LockFlags::MUTABLE) ==> ret == Ok::<SubstateHandle, RuntimeError>(h))
    }

    impl<'a, Y: SystemBasedKernelApi> SystemService<'a, Y> {
        // ---- the open guards ----------------------------------------------------------------------
        /*@fn radix-engine/src/system/system.rs :: impl<'a, Y: SystemBasedKernelApi> SystemActorApi<RuntimeError> for SystemService<'a, Y> :: fn actor_open_field
        @sig
            requires inv(old(self).api.st()), write_handles_unlocked(old(self).api.st())
            ensures
                extends(old(self).api.st(), final(self).api.st()),
                heap_monotone(old(self).api.st().heap, final(self).api.st().heap),
                inv(final(self).api.st()),
                none_new(old(self).api.st(), final(self).api.st()) ==> ret is Err && unchanged(old(self).api.st(), final(self).api.st()),
                forall|h: SubstateHandle| is_new(old(self).api.st(), final(self).api.st(), h)
                    ==> field_guard(old(self).api.st(), final(self).api.st(), h, object_handle, field_index, flags, ret)
                        && final(self).api.st().handles[h].id == old(self).api.actor_field(object_handle, field_index),
                ret matches Ok(h) ==> is_new(old(self).api.st(), final(self).api.st(), h) && write_handles_unlocked(final(self).api.st()),
                *final(final(self).api) == *final(old(self).api),
        @after <<let handle = match transient>> #1
            proof { assert(is_new(old(self).api.st(), self.api.st(), handle)); }
        @closure 1 := || -> (r: IndexedScryptoValue) ensures field_of(r) == Some(unlocked_field(default_value))
        @closure 2 := |v: &IndexedScryptoValue| -> (r: LockStatus) requires field_of(*v) is Some ensures r == field_of(*v)->Some_0.st()
        @*/
    }

    impl<'a, Y: SystemBasedKernelApi> SystemService<'a, Y> {
        /*@fn radix-engine/src/system/system.rs :: impl<'a, Y: SystemBasedKernelApi> SystemActorKeyValueEntryApi<RuntimeError> for SystemService<'a, Y> :: fn actor_open_key_value_entry
        @sig
            requires inv(old(self).api.st()), write_handles_unlocked(old(self).api.st())
            ensures
                extends(old(self).api.st(), final(self).api.st()),
                heap_monotone(old(self).api.st().heap, final(self).api.st().heap),
                inv(final(self).api.st()),
                none_new(old(self).api.st(), final(self).api.st()) ==> ret is Err && unchanged(old(self).api.st(), final(self).api.st()),
                forall|h: SubstateHandle| is_new(old(self).api.st(), final(self).api.st(), h)
                    ==> kv_guard(old(self).api.st(), final(self).api.st(), h, flags, ret),
                ret matches Ok(h) ==> is_new(old(self).api.st(), final(self).api.st(), h) && write_handles_unlocked(final(self).api.st()),
                *final(final(self).api) == *final(old(self).api),
        @closure 1 := || -> (r: IndexedScryptoValue) ensures dec::<KeyValueEntrySubstate<()>>(r.bytes()) == Some(KeyValueEntrySubstate::<()>::V1(KeyValueEntrySubstateV1 { value: None, lock_status: LockStatus::Unlocked }))
        @after <<let handle = self.api.kernel_open_substate_with_default>> #1
            proof {
                assert(is_new(old(self).api.st(), self.api.st(), handle));
                ax_empty_entry_any_type(self.api.st().heap[self.api.st().handles[handle].id].bytes());
            }
        @*/
        /*@fn radix-engine/src/system/system.rs :: impl<'a, Y: SystemBasedKernelApi> SystemKeyValueStoreApi<RuntimeError> for SystemService<'a, Y> :: fn key_value_store_open_entry
        @sig
            requires inv(old(self).api.st()), write_handles_unlocked(old(self).api.st())
            ensures
                extends(old(self).api.st(), final(self).api.st()),
                heap_monotone(old(self).api.st().heap, final(self).api.st().heap),
                inv(final(self).api.st()),
                none_new(old(self).api.st(), final(self).api.st()) ==> ret is Err && unchanged(old(self).api.st(), final(self).api.st()),
                forall|h: SubstateHandle| is_new(old(self).api.st(), final(self).api.st(), h)
                    ==> kv_guard(old(self).api.st(), final(self).api.st(), h, flags, ret),
                ret matches Ok(h) ==> is_new(old(self).api.st(), final(self).api.st(), h) && write_handles_unlocked(final(self).api.st()),
                *final(final(self).api) == *final(old(self).api),
        @closure 1 := || -> (r: IndexedScryptoValue) ensures dec::<KeyValueEntrySubstate<()>>(r.bytes()) == Some(KeyValueEntrySubstate::<()>::V1(KeyValueEntrySubstateV1 { value: None, lock_status: LockStatus::Unlocked }))
        @closure 2 := |v: &IndexedScryptoValue| -> (r: LockStatus) requires kv_of(*v) is Some ensures r == kv_of(*v)->Some_0.st()
        @after <<let handle = self.api.kernel_open_substate_with_default>> #1
            proof {
                assert(is_new(old(self).api.st(), self.api.st(), handle));
                ax_empty_entry_any_type(self.api.st().heap[self.api.st().handles[handle].id].bytes());
            }
        @*/
    }

    impl<'a, Y: SystemBasedKernelApi> SystemService<'a, Y> {
        // ---- remove = open(MUTABLE) + rewrite + close ------------------------------------------------
        /// "Internal, handle must be checked or from trusted sources" (no lock-data check of its own): the
        /// precondition says what a checked handle is.
        /*@fn radix-engine/src/system/system.rs :: impl<'a, Y: SystemBasedKernelApi> SystemService<'a, Y> :: fn key_value_entry_remove_and_close_substate
        @sig
            requires inv(old(self).api.st()), write_handles_unlocked(old(self).api.st()),
                     old(self).api.st().handles.contains_key(handle) ==> kv_write_data(old(self).api.st().handles[handle].data),
            ensures
                heap_monotone(old(self).api.st().heap, final(self).api.st().heap),
                inv(final(self).api.st()), write_handles_unlocked(final(self).api.st()),
                !old(self).api.st().handles.contains_key(handle) ==> ret is Err,
                ret matches Ok(bytes) ==> final(self).api.st().handles == old(self).api.st().handles.remove(handle)
                    && old(self).api.st().heap.contains_key(old(self).api.st().handles[handle].id)
                    && final(self).api.st().heap.dom() =~= old(self).api.st().heap.dom()
                    && final(self).api.st().heap.remove(old(self).api.st().handles[handle].id) =~= old(self).api.st().heap.remove(old(self).api.st().handles[handle].id)
                    && kv_of(final(self).api.st().heap[old(self).api.st().handles[handle].id])
                        == Some(kv_entry(None, LockStatus::Unlocked))
                    && dec::<Option<ScryptoValue>>(bytes@) == Some(kv_of(old(self).api.st().heap[old(self).api.st().handles[handle].id])->Some_0.val()),
                ret is Err ==> final(self).api.st().handles == old(self).api.st().handles,
                *final(final(self).api) == *final(old(self).api),
        @closure 1 := |v: &IndexedScryptoValue| -> (r: Vec<u8>) ensures r@ =~= v.bytes()
        @*/
        /*@fn radix-engine/src/system/system.rs :: impl<'a, Y: SystemBasedKernelApi> SystemActorKeyValueEntryApi<RuntimeError> for SystemService<'a, Y> :: fn actor_remove_key_value_entry
        @sig
            requires inv(old(self).api.st()), write_handles_unlocked(old(self).api.st())
            ensures
                heap_monotone(old(self).api.st().heap, final(self).api.st().heap),
                inv(final(self).api.st()),
                ret is Ok ==> write_handles_unlocked(final(self).api.st()) && final(self).api.st().handles =~= old(self).api.st().handles,
                *final(final(self).api) == *final(old(self).api),
        @entry
            proof { assert(1u32 & 1u32 == 1u32) by (bit_vector); }
        @*/
        /*@fn radix-engine/src/system/system.rs :: impl<'a, Y: SystemBasedKernelApi> SystemKeyValueStoreApi<RuntimeError> for SystemService<'a, Y> :: fn key_value_store_remove_entry
        @sig
            requires inv(old(self).api.st()), write_handles_unlocked(old(self).api.st())
            ensures
                heap_monotone(old(self).api.st().heap, final(self).api.st().heap),
                inv(final(self).api.st()),
                ret is Ok ==> write_handles_unlocked(final(self).api.st()) && final(self).api.st().handles =~= old(self).api.st().handles,
                *final(final(self).api) == *final(old(self).api),
        @entry
            proof { assert(1u32 & 1u32 == 1u32) by (bit_vector); }
        @*/

        // ---- readers: change nothing ---------------------------------------------------------------
        /*@fn radix-engine/src/system/system.rs :: impl<'a, Y: SystemBasedKernelApi> SystemFieldApi<RuntimeError> for SystemService<'a, Y> :: fn field_read
        @sig
            requires inv(old(self).api.st())
            ensures
                unchanged(old(self).api.st(), final(self).api.st()),
                ret matches Ok(bytes) ==> old(self).api.st().handles.contains_key(handle) && old(self).api.st().handles[handle].data is Field
                    && dec::<ScryptoValue>(bytes@) == Some(field_of(old(self).api.st().heap[old(self).api.st().handles[handle].id])->Some_0.pl()),
                *final(final(self).api) == *final(old(self).api),
        @closure 1 := |v: &IndexedScryptoValue| -> (r: Vec<u8>) requires field_of(*v) is Some ensures dec::<ScryptoValue>(r@) == Some(field_of(*v)->Some_0.pl())
        @*/
        /*@fn radix-engine/src/system/system.rs :: impl<'a, Y: SystemBasedKernelApi> SystemKeyValueEntryApi<RuntimeError> for SystemService<'a, Y> :: fn key_value_entry_get
        @sig
            requires inv(old(self).api.st())
            ensures
                unchanged(old(self).api.st(), final(self).api.st()),
                ret matches Ok(bytes) ==> old(self).api.st().handles.contains_key(handle) && old(self).api.st().handles[handle].data is KeyValueEntry
                    && dec::<Option<ScryptoValue>>(bytes@) == Some(kv_of(old(self).api.st().heap[old(self).api.st().handles[handle].id])->Some_0.val()),
                *final(final(self).api) == *final(old(self).api),
        @closure 1 := |v: &IndexedScryptoValue| -> (r: Vec<u8>) requires kv_of(*v) is Some ensures dec::<Option<ScryptoValue>>(r@) == Some(kv_of(*v)->Some_0.val())
        @*/
    }

    impl<'a, Y: SystemBasedKernelApi> SystemService<'a, Y> {
        // ---- forwarding impl of KernelSubstateApi<SystemLockData> for SystemService: same sensitive contract
        /*@fn radix-engine/src/system/system.rs :: impl<'a, Y: SystemBasedKernelApi> KernelSubstateApi<SystemLockData> for SystemService<'a, Y> :: fn kernel_write_substate
        @sig
            requires
                old(self).api.st().handles.contains_key(lock_handle) && old(self).api.st().heap.contains_key(old(self).api.st().handles[lock_handle].id)
                    ==> write_allowed(old(self).api.st().handles[lock_handle].id, old(self).api.st().heap[old(self).api.st().handles[lock_handle].id], value),
            ensures
                final(self).api.st().handles == old(self).api.st().handles,
                ret is Ok ==> old(self).api.st().handles.contains_key(lock_handle)
                    && old(self).api.st().heap.contains_key(old(self).api.st().handles[lock_handle].id)
                    && final(self).api.st().heap == old(self).api.st().heap.insert(old(self).api.st().handles[lock_handle].id, value),
                ret matches Err(e) ==> e is Environment && final(self).api.st().heap == old(self).api.st().heap,
                *final(final(self).api) == *final(old(self).api),
        @*/
        /*@fn radix-engine/src/system/system.rs :: impl<'a, Y: SystemBasedKernelApi> KernelSubstateApi<SystemLockData> for SystemService<'a, Y> :: fn kernel_close_substate
        @sig
            ensures final(self).api.st().heap == old(self).api.st().heap,
                    ret is Ok ==> final(self).api.st().handles == old(self).api.st().handles.remove(lock_handle),
                    ret matches Err(e) ==> e is Environment && final(self).api.st().handles == old(self).api.st().handles,
                    *final(final(self).api) == *final(old(self).api),
        @*/

        // ---- SystemFieldApi ---------------------------------------------------------------------
        /*@fn radix-engine/src/system/system.rs :: impl<'a, Y: SystemBasedKernelApi> SystemFieldApi<RuntimeError> for SystemService<'a, Y> :: fn field_write
        @sig
            requires inv(old(self).api.st()), write_handles_unlocked(old(self).api.st())
            ensures
                // C51: nothing that was locked has changed
                heap_monotone(old(self).api.st().heap, final(self).api.st().heap),
                inv(final(self).api.st()), write_handles_unlocked(final(self).api.st()),
                // a handle that does not carry Field-Write lock data cannot write
                !old(self).api.st().handles.contains_key(handle) ==> ret is Err,
                old(self).api.st().handles.contains_key(handle) && !field_write_data(old(self).api.st().handles[handle].data)
                    ==> fails_with(ret, SystemError::NotAFieldWriteHandle),
                ret is Err ==> unchanged(old(self).api.st(), final(self).api.st()),
                ret is Ok ==> only_rewritten(old(self).api.st(), final(self).api.st(), handle)
                    && field_write_data(old(self).api.st().handles[handle].data)
                    && dec::<ScryptoValue>(buffer@) is Some
                    && field_of(final(self).api.st().heap[old(self).api.st().handles[handle].id]) == Some(unlocked_field(dec::<ScryptoValue>(buffer@)->Some_0)),
                *final(final(self).api) == *final(old(self).api),
        @*/
        /*@fn radix-engine/src/system/system.rs :: impl<'a, Y: SystemBasedKernelApi> SystemFieldApi<RuntimeError> for SystemService<'a, Y> :: fn field_lock
        @sig
            requires inv(old(self).api.st())
            ensures
                heap_monotone(old(self).api.st().heap, final(self).api.st().heap),
                inv(final(self).api.st()),
                !old(self).api.st().handles.contains_key(handle) ==> ret is Err,
                old(self).api.st().handles.contains_key(handle) && !field_write_data(old(self).api.st().handles[handle].data)
                    ==> fails_with(ret, SystemError::NotAFieldWriteHandle),
                ret is Err ==> unchanged(old(self).api.st(), final(self).api.st()),
                // Ok: the field is now Locked, payload untouched, nothing else rewritten
                ret is Ok ==> only_rewritten(old(self).api.st(), final(self).api.st(), handle)
                    && field_write_data(old(self).api.st().handles[handle].data)
                    && locked(old(self).api.st().handles[handle].id, final(self).api.st().heap[old(self).api.st().handles[handle].id])
                    && field_of(final(self).api.st().heap[old(self).api.st().handles[handle].id])->Some_0.pl()
                        == field_of(old(self).api.st().heap[old(self).api.st().handles[handle].id])->Some_0.pl(),
                // the handle stays open with Write lock data although its field is now locked (see the finding in props.frag.json)
                ret is Ok && write_handles_unlocked(old(self).api.st())
                    ==> write_handles_unlocked_except(final(self).api.st(), old(self).api.st().handles[handle].id),
                *final(final(self).api) == *final(old(self).api),
        @*/
        /*@fn radix-engine/src/system/system.rs :: impl<'a, Y: SystemBasedKernelApi> SystemFieldApi<RuntimeError> for SystemService<'a, Y> :: fn field_close
        @sig
            ensures
                final(self).api.st().heap == old(self).api.st().heap,
                ret is Ok ==> final(self).api.st().handles == old(self).api.st().handles.remove(handle),
                ret is Err ==> final(self).api.st().handles == old(self).api.st().handles,
                *final(final(self).api) == *final(old(self).api),
        @*/

        // ---- SystemKeyValueEntryApi ------------------------------------------------------------
        /*@fn radix-engine/src/system/system.rs :: impl<'a, Y: SystemBasedKernelApi> SystemKeyValueEntryApi<RuntimeError> for SystemService<'a, Y> :: fn key_value_entry_lock
        @sig
            requires inv(old(self).api.st())
            ensures
                heap_monotone(old(self).api.st().heap, final(self).api.st().heap),
                inv(final(self).api.st()),
                !old(self).api.st().handles.contains_key(handle) ==> ret is Err,
                old(self).api.st().handles.contains_key(handle) && !kv_write_data(old(self).api.st().handles[handle].data)
                    ==> fails_with(ret, SystemError::NotAKeyValueEntryWriteHandle),
                ret is Err ==> unchanged(old(self).api.st(), final(self).api.st()),
                ret is Ok ==> only_rewritten(old(self).api.st(), final(self).api.st(), handle)
                    && kv_write_data(old(self).api.st().handles[handle].data)
                    && locked(old(self).api.st().handles[handle].id, final(self).api.st().heap[old(self).api.st().handles[handle].id])
                    && kv_of(final(self).api.st().heap[old(self).api.st().handles[handle].id])->Some_0.val()
                        == kv_of(old(self).api.st().heap[old(self).api.st().handles[handle].id])->Some_0.val(),
                ret is Ok && write_handles_unlocked(old(self).api.st())
                    ==> write_handles_unlocked_except(final(self).api.st(), old(self).api.st().handles[handle].id),
                *final(final(self).api) == *final(old(self).api),
        @*/
        /*@fn radix-engine/src/system/system.rs :: impl<'a, Y: SystemBasedKernelApi> SystemKeyValueEntryApi<RuntimeError> for SystemService<'a, Y> :: fn key_value_entry_remove
        @sig
            requires inv(old(self).api.st()), write_handles_unlocked(old(self).api.st())
            ensures
                heap_monotone(old(self).api.st().heap, final(self).api.st().heap),
                inv(final(self).api.st()), write_handles_unlocked(final(self).api.st()),
                !old(self).api.st().handles.contains_key(handle) ==> ret is Err,
                old(self).api.st().handles.contains_key(handle) && !kv_write_data(old(self).api.st().handles[handle].data)
                    ==> fails_with_b(ret, SystemError::NotAKeyValueEntryWriteHandle),
                ret is Err ==> unchanged(old(self).api.st(), final(self).api.st()),
                // Ok: the value is gone and returned; the lock status is what it was (Unlocked)
                ret matches Ok(bytes) ==> only_rewritten(old(self).api.st(), final(self).api.st(), handle)
                    && kv_write_data(old(self).api.st().handles[handle].data)
                    && kv_of(final(self).api.st().heap[old(self).api.st().handles[handle].id])
                        == Some(kv_entry(None, kv_of(old(self).api.st().heap[old(self).api.st().handles[handle].id])->Some_0.st()))
                    && dec::<Option<ScryptoValue>>(bytes@) == Some(kv_of(old(self).api.st().heap[old(self).api.st().handles[handle].id])->Some_0.val()),
                *final(final(self).api) == *final(old(self).api),
        @closure 1 := |v: &IndexedScryptoValue| -> (r: Vec<u8>) ensures r@ =~= v.bytes()
        @*/
        /*@fn radix-engine/src/system/system.rs :: impl<'a, Y: SystemBasedKernelApi> SystemKeyValueEntryApi<RuntimeError> for SystemService<'a, Y> :: fn key_value_entry_set
        @sig
            requires inv(old(self).api.st()), write_handles_unlocked(old(self).api.st())
            ensures
                heap_monotone(old(self).api.st().heap, final(self).api.st().heap),
                inv(final(self).api.st()), write_handles_unlocked(final(self).api.st()),
                !old(self).api.st().handles.contains_key(handle) ==> ret is Err,
                old(self).api.st().handles.contains_key(handle) && !kv_write_data(old(self).api.st().handles[handle].data)
                    ==> fails_with(ret, SystemError::NotAKeyValueEntryWriteHandle),
                ret is Err ==> unchanged(old(self).api.st(), final(self).api.st()),
                ret is Ok ==> only_rewritten(old(self).api.st(), final(self).api.st(), handle)
                    && kv_write_data(old(self).api.st().handles[handle].data)
                    && dec::<ScryptoValue>(buffer@) is Some
                    && kv_of(final(self).api.st().heap[old(self).api.st().handles[handle].id])
                        == Some(kv_entry(Some(dec::<ScryptoValue>(buffer@)->Some_0), LockStatus::Unlocked)),
                *final(final(self).api) == *final(old(self).api),
        @*/
        /*@fn radix-engine/src/system/system.rs :: impl<'a, Y: SystemBasedKernelApi> SystemKeyValueEntryApi<RuntimeError> for SystemService<'a, Y> :: fn key_value_entry_close
        @sig
            ensures
                final(self).api.st().heap == old(self).api.st().heap,
                ret is Ok ==> final(self).api.st().handles == old(self).api.st().handles.remove(handle),
                ret is Err ==> final(self).api.st().handles == old(self).api.st().handles,
                *final(final(self).api) == *final(old(self).api),
        @*/
    }

    // ==========================================================================================
    // (c) The SystemApi as blueprints see it, and the lock / set entry points of the object modules.
    //     `SystemApi<E>` below is a HAND-WRITTEN MIRROR of the required methods of radix-engine-interface
    //     SystemFieldApi / SystemKeyValueEntryApi / SystemActorApi / SystemActorKeyValueEntryApi (signatures only;
    //     the provided *_typed methods are extracted). Its contracts are the ones proved above for SystemService,
    //     minus the exact error values (E is generic). `impl SystemApi<RuntimeError> for SystemService` forwards
    //     each method to the extracted, verified function of the same name: Verus checks there that the proved
    //     contract implies the trait contract (no trust in the mirror).
    // ==========================================================================================
    pub open spec fn ok_of<T, E>(r: Result<T, E>) -> Option<T> { match r { Ok(x) => Some(x), Err(_) => None } }
    /// what opening promises, without error values
    pub open spec fn open_guard(s0: KState, s1: KState, h: SubstateHandle, k: SubstateKind, flags: LockFlags, ok: Option<SubstateHandle>) -> bool {
        let i = s1.handles[h];
        &&& s1.handles =~= s0.handles.insert(h, i)
        &&& kind(i.id) == k
        &&& (k is Field ==> i.data is Field) && (k is KeyValue ==> i.data is KeyValueEntry)
        &&& (is_write_data(i.data) <==> flags.has(LockFlags::MUTABLE)) && i.mutable == flags.has(LockFlags::MUTABLE)
        // THE GUARD: write access to a locked substate is never handed out
        &&& (flags.has(LockFlags::MUTABLE) && locked(i.id, s1.heap[i.id]) ==> ok is None)
        &&& (ok matches Some(x) ==> x == h)
    }
    /// closing the (exclusive) write handle after locking re-establishes `write_handles_unlocked`
    pub proof fn lemma_close_restores(s: KState, h: SubstateHandle)
        requires inv(s), s.handles.contains_key(h), s.handles[h].mutable, write_handles_unlocked_except(s, s.handles[h].id)
        ensures write_handles_unlocked(KState { heap: s.heap, handles: s.handles.remove(h) }),
                inv(KState { heap: s.heap, handles: s.handles.remove(h) })
    {
        let s1 = KState { heap: s.heap, handles: s.handles.remove(h) };
        assert forall|g: SubstateHandle| #[trigger] s1.handles.contains_key(g) && is_write_data(s1.handles[g].data)
            implies !locked(s1.handles[g].id, s1.heap[s1.handles[g].id]) by {
            assert(s.handles.contains_key(g) && g != h);
        }
    }
    pub proof fn lemma_close_keeps(s: KState, h: SubstateHandle)
        requires inv(s)
        ensures inv(KState { heap: s.heap, handles: s.handles.remove(h) }),
                write_handles_unlocked(s) ==> write_handles_unlocked(KState { heap: s.heap, handles: s.handles.remove(h) })
    {
        let s1 = KState { heap: s.heap, handles: s.handles.remove(h) };
        assert forall|g: SubstateHandle| #[trigger] s1.handles.contains_key(g) implies s.handles.contains_key(g) by {}
    }

    pub trait SystemApi<E>: Sized {
        spec fn kst(&self) -> KState;
        spec fn actor_field(&self, object_handle: ActorStateHandle, field_index: u8) -> SubstateId;

        fn actor_open_field(&mut self, object_handle: ActorStateHandle, field_index: u8, flags: LockFlags) -> (ret: Result<SubstateHandle, E>)
            requires inv(old(self).kst()), write_handles_unlocked(old(self).kst())
            ensures
                extends(old(self).kst(), final(self).kst()), inv(final(self).kst()),
                none_new(old(self).kst(), final(self).kst()) ==> ret is Err && unchanged(old(self).kst(), final(self).kst()),
                forall|h: SubstateHandle| is_new(old(self).kst(), final(self).kst(), h)
                    ==> open_guard(old(self).kst(), final(self).kst(), h, SubstateKind::Field, flags, ok_of(ret))
                        && final(self).kst().handles[h].id == old(self).actor_field(object_handle, field_index),
                ret matches Ok(h) ==> is_new(old(self).kst(), final(self).kst(), h) && write_handles_unlocked(final(self).kst());
        fn field_read(&mut self, handle: FieldHandle) -> (ret: Result<Vec<u8>, E>)
            requires inv(old(self).kst())
            ensures unchanged(old(self).kst(), final(self).kst()),
                ret matches Ok(bytes) ==> old(self).kst().handles.contains_key(handle) && old(self).kst().handles[handle].data is Field
                    && dec::<ScryptoValue>(bytes@) == Some(field_of(old(self).kst().heap[old(self).kst().handles[handle].id])->Some_0.pl());
        fn field_write(&mut self, handle: FieldHandle, buffer: Vec<u8>) -> (ret: Result<(), E>)
            requires inv(old(self).kst()), write_handles_unlocked(old(self).kst())
            ensures
                heap_monotone(old(self).kst().heap, final(self).kst().heap),
                inv(final(self).kst()), write_handles_unlocked(final(self).kst()),
                old(self).kst().handles.contains_key(handle) && !field_write_data(old(self).kst().handles[handle].data) ==> ret is Err,
                ret is Err ==> unchanged(old(self).kst(), final(self).kst()),
                ret is Ok ==> only_rewritten(old(self).kst(), final(self).kst(), handle)
                    && field_write_data(old(self).kst().handles[handle].data)
                    && dec::<ScryptoValue>(buffer@) is Some
                    && field_of(final(self).kst().heap[old(self).kst().handles[handle].id]) == Some(unlocked_field(dec::<ScryptoValue>(buffer@)->Some_0));
        // provided methods of the real trait (radix-engine-interface/src/api/field_api.rs), bodies extracted
        /*@fn radix-engine-interface/src/api/field_api.rs :: trait SystemFieldApi<E: Debug> :: fn field_read_typed
        @sig
            requires inv(old(self).kst()),
                     // the `unwrap`: the field holds a payload of type S
                     old(self).kst().handles.contains_key(handle) && old(self).kst().handles[handle].data is Field
                        ==> payload_is::<S>(field_of(old(self).kst().heap[old(self).kst().handles[handle].id])->Some_0.pl()),
            ensures unchanged(old(self).kst(), final(self).kst()),
        @*/
        /*@fn radix-engine-interface/src/api/field_api.rs :: trait SystemFieldApi<E: Debug> :: fn field_write_typed
        @sig
            requires inv(old(self).kst()), write_handles_unlocked(old(self).kst())
            ensures
                heap_monotone(old(self).kst().heap, final(self).kst().heap),
                inv(final(self).kst()), write_handles_unlocked(final(self).kst()),
                old(self).kst().handles.contains_key(handle) && !field_write_data(old(self).kst().handles[handle].data) ==> ret is Err,
                ret is Err ==> unchanged(old(self).kst(), final(self).kst()),
                ret is Ok ==> only_rewritten(old(self).kst(), final(self).kst(), handle)
                    && field_write_data(old(self).kst().handles[handle].data)
                    && (field_of(final(self).kst().heap[old(self).kst().handles[handle].id]) matches Some(f) && !f.locked()),
        @*/
        fn field_lock(&mut self, handle: FieldHandle) -> (ret: Result<(), E>)
            requires inv(old(self).kst())
            ensures
                heap_monotone(old(self).kst().heap, final(self).kst().heap), inv(final(self).kst()),
                ret is Err ==> unchanged(old(self).kst(), final(self).kst()),
                ret is Ok ==> only_rewritten(old(self).kst(), final(self).kst(), handle)
                    && field_write_data(old(self).kst().handles[handle].data)
                    && locked(old(self).kst().handles[handle].id, final(self).kst().heap[old(self).kst().handles[handle].id])
                    && field_of(final(self).kst().heap[old(self).kst().handles[handle].id])->Some_0.pl()
                        == field_of(old(self).kst().heap[old(self).kst().handles[handle].id])->Some_0.pl(),
                ret is Ok && write_handles_unlocked(old(self).kst())
                    ==> write_handles_unlocked_except(final(self).kst(), old(self).kst().handles[handle].id);
        fn field_close(&mut self, handle: FieldHandle) -> (ret: Result<(), E>)
            ensures final(self).kst().heap == old(self).kst().heap,
                ret is Ok ==> final(self).kst().handles == old(self).kst().handles.remove(handle),
                ret is Err ==> final(self).kst().handles == old(self).kst().handles;

        fn actor_open_key_value_entry(&mut self, object_handle: ActorStateHandle, collection_index: CollectionIndex, key: &Vec<u8>, flags: LockFlags) -> (ret: Result<KeyValueEntryHandle, E>)
            requires inv(old(self).kst()), write_handles_unlocked(old(self).kst())
            ensures
                extends(old(self).kst(), final(self).kst()), inv(final(self).kst()),
                none_new(old(self).kst(), final(self).kst()) ==> ret is Err && unchanged(old(self).kst(), final(self).kst()),
                forall|h: SubstateHandle| is_new(old(self).kst(), final(self).kst(), h)
                    ==> open_guard(old(self).kst(), final(self).kst(), h, SubstateKind::KeyValue, flags, ok_of(ret)),
                ret matches Ok(h) ==> is_new(old(self).kst(), final(self).kst(), h) && write_handles_unlocked(final(self).kst());
        fn key_value_entry_get(&mut self, handle: KeyValueEntryHandle) -> (ret: Result<Vec<u8>, E>)
            requires inv(old(self).kst())
            ensures unchanged(old(self).kst(), final(self).kst()),
                ret matches Ok(bytes) ==> old(self).kst().handles.contains_key(handle) && old(self).kst().handles[handle].data is KeyValueEntry
                    && dec::<Option<ScryptoValue>>(bytes@) == Some(kv_of(old(self).kst().heap[old(self).kst().handles[handle].id])->Some_0.val());
        /*@fn radix-engine-interface/src/api/key_value_entry_api.rs :: trait SystemKeyValueEntryApi<E> :: fn key_value_entry_get_typed
        @sig
            requires inv(old(self).kst()),
                     // the `unwrap`: the entry's value has type S
                     old(self).kst().handles.contains_key(handle) && old(self).kst().handles[handle].data is KeyValueEntry
                        ==> kv_payload_is::<S>(kv_of(old(self).kst().heap[old(self).kst().handles[handle].id])->Some_0.val()),
            ensures unchanged(old(self).kst(), final(self).kst()),
        @*/
        fn key_value_entry_remove(&mut self, handle: KeyValueEntryHandle) -> (ret: Result<Vec<u8>, E>)
            requires inv(old(self).kst()), write_handles_unlocked(old(self).kst())
            ensures
                heap_monotone(old(self).kst().heap, final(self).kst().heap),
                inv(final(self).kst()), write_handles_unlocked(final(self).kst()),
                old(self).kst().handles.contains_key(handle) && !kv_write_data(old(self).kst().handles[handle].data) ==> ret is Err,
                ret is Err ==> unchanged(old(self).kst(), final(self).kst()),
                ret matches Ok(bytes) ==> only_rewritten(old(self).kst(), final(self).kst(), handle)
                    && kv_write_data(old(self).kst().handles[handle].data)
                    && kv_of(final(self).kst().heap[old(self).kst().handles[handle].id])
                        == Some(kv_entry(None, kv_of(old(self).kst().heap[old(self).kst().handles[handle].id])->Some_0.st()))
                    && dec::<Option<ScryptoValue>>(bytes@) == Some(kv_of(old(self).kst().heap[old(self).kst().handles[handle].id])->Some_0.val());
        fn key_value_entry_set(&mut self, handle: KeyValueEntryHandle, buffer: Vec<u8>) -> (ret: Result<(), E>)
            requires inv(old(self).kst()), write_handles_unlocked(old(self).kst())
            ensures
                heap_monotone(old(self).kst().heap, final(self).kst().heap),
                inv(final(self).kst()), write_handles_unlocked(final(self).kst()),
                old(self).kst().handles.contains_key(handle) && !kv_write_data(old(self).kst().handles[handle].data) ==> ret is Err,
                ret is Err ==> unchanged(old(self).kst(), final(self).kst()),
                ret is Ok ==> only_rewritten(old(self).kst(), final(self).kst(), handle)
                    && kv_write_data(old(self).kst().handles[handle].data)
                    && dec::<ScryptoValue>(buffer@) is Some
                    && kv_of(final(self).kst().heap[old(self).kst().handles[handle].id])
                        == Some(kv_entry(Some(dec::<ScryptoValue>(buffer@)->Some_0), LockStatus::Unlocked));
        /*@fn radix-engine-interface/src/api/key_value_entry_api.rs :: trait SystemKeyValueEntryApi<E> :: fn key_value_entry_set_typed
        @sig
            requires inv(old(self).kst()), write_handles_unlocked(old(self).kst())
            ensures
                heap_monotone(old(self).kst().heap, final(self).kst().heap),
                inv(final(self).kst()), write_handles_unlocked(final(self).kst()),
                old(self).kst().handles.contains_key(handle) && !kv_write_data(old(self).kst().handles[handle].data) ==> ret is Err,
                ret is Err ==> unchanged(old(self).kst(), final(self).kst()),
                ret is Ok ==> only_rewritten(old(self).kst(), final(self).kst(), handle)
                    && kv_write_data(old(self).kst().handles[handle].data)
                    && (kv_of(final(self).kst().heap[old(self).kst().handles[handle].id]) matches Some(e) && !e.locked() && e.val() is Some),
        @*/
        fn key_value_entry_lock(&mut self, handle: KeyValueEntryHandle) -> (ret: Result<(), E>)
            requires inv(old(self).kst())
            ensures
                heap_monotone(old(self).kst().heap, final(self).kst().heap), inv(final(self).kst()),
                ret is Err ==> unchanged(old(self).kst(), final(self).kst()),
                ret is Ok ==> only_rewritten(old(self).kst(), final(self).kst(), handle)
                    && kv_write_data(old(self).kst().handles[handle].data)
                    && locked(old(self).kst().handles[handle].id, final(self).kst().heap[old(self).kst().handles[handle].id])
                    && kv_of(final(self).kst().heap[old(self).kst().handles[handle].id])->Some_0.val()
                        == kv_of(old(self).kst().heap[old(self).kst().handles[handle].id])->Some_0.val(),
                ret is Ok && write_handles_unlocked(old(self).kst())
                    ==> write_handles_unlocked_except(final(self).kst(), old(self).kst().handles[handle].id);
        fn key_value_entry_close(&mut self, handle: KeyValueEntryHandle) -> (ret: Result<(), E>)
            ensures final(self).kst().heap == old(self).kst().heap,
                ret is Ok ==> final(self).kst().handles == old(self).kst().handles.remove(handle),
                ret is Err ==> final(self).kst().handles == old(self).kst().handles;
    }

    impl<'a, Y: SystemBasedKernelApi> SystemApi<RuntimeError> for SystemService<'a, Y> {
        open spec fn kst(&self) -> KState { self.api.st() }
        open spec fn actor_field(&self, object_handle: ActorStateHandle, field_index: u8) -> SubstateId { self.api.actor_field(object_handle, field_index) }
        fn actor_open_field(&mut self, object_handle: ActorStateHandle, field_index: u8, flags: LockFlags) -> (ret: Result<SubstateHandle, RuntimeError>)
        { SystemService::<'a, Y>::actor_open_field(self, object_handle, field_index, flags) }
        fn field_read(&mut self, handle: FieldHandle) -> (ret: Result<Vec<u8>, RuntimeError>)
        { SystemService::<'a, Y>::field_read(self, handle) }
        fn field_write(&mut self, handle: FieldHandle, buffer: Vec<u8>) -> (ret: Result<(), RuntimeError>)
        { SystemService::<'a, Y>::field_write(self, handle, buffer) }
        fn field_lock(&mut self, handle: FieldHandle) -> (ret: Result<(), RuntimeError>)
        { SystemService::<'a, Y>::field_lock(self, handle) }
        fn field_close(&mut self, handle: FieldHandle) -> (ret: Result<(), RuntimeError>)
        { SystemService::<'a, Y>::field_close(self, handle) }
        fn actor_open_key_value_entry(&mut self, object_handle: ActorStateHandle, collection_index: CollectionIndex, key: &Vec<u8>, flags: LockFlags) -> (ret: Result<KeyValueEntryHandle, RuntimeError>)
        { SystemService::<'a, Y>::actor_open_key_value_entry(self, object_handle, collection_index, key, flags) }
        fn key_value_entry_get(&mut self, handle: KeyValueEntryHandle) -> (ret: Result<Vec<u8>, RuntimeError>)
        { SystemService::<'a, Y>::key_value_entry_get(self, handle) }
        fn key_value_entry_remove(&mut self, handle: KeyValueEntryHandle) -> (ret: Result<Vec<u8>, RuntimeError>)
        { SystemService::<'a, Y>::key_value_entry_remove(self, handle) }
        fn key_value_entry_set(&mut self, handle: KeyValueEntryHandle, buffer: Vec<u8>) -> (ret: Result<(), RuntimeError>)
        { SystemService::<'a, Y>::key_value_entry_set(self, handle, buffer) }
        fn key_value_entry_lock(&mut self, handle: KeyValueEntryHandle) -> (ret: Result<(), RuntimeError>)
        { SystemService::<'a, Y>::key_value_entry_lock(self, handle) }
        fn key_value_entry_close(&mut self, handle: KeyValueEntryHandle) -> (ret: Result<(), RuntimeError>)
        { SystemService::<'a, Y>::key_value_entry_close(self, handle) }
    }

    /// two-state form of lemma_close_restores
    pub proof fn lemma_closed(s: KState, s1: KState, h: SubstateHandle)
        requires inv(s), s1.heap == s.heap, s1.handles == s.handles.remove(h)
        ensures inv(s1),
                write_handles_unlocked(s) ==> write_handles_unlocked(s1),
                s.handles.contains_key(h) && s.handles[h].mutable && write_handles_unlocked_except(s, s.handles[h].id) ==> write_handles_unlocked(s1),
    {
        lemma_close_keeps(s, h);
        if s.handles.contains_key(h) && s.handles[h].mutable && write_handles_unlocked_except(s, s.handles[h].id) { lemma_close_restores(s, h); }
        assert(s1 == KState { heap: s.heap, handles: s.handles.remove(h) });
    }
    pub proof fn lemma_only_rewritten_frame(s0: KState, s1: KState, h: SubstateHandle)
        requires only_rewritten(s0, s1, h)
        ensures forall|o: SubstateId| #[trigger] s0.heap.contains_key(o) && o != s0.handles[h].id ==> s1.heap.contains_key(o) && s1.heap[o] == s0.heap[o]
    {
        let id = s0.handles[h].id;
        assert forall|o: SubstateId| #[trigger] s0.heap.contains_key(o) && o != id implies s1.heap.contains_key(o) && s1.heap[o] == s0.heap[o] by {
            assert(s0.heap.remove(id).contains_key(o));
            assert(s1.heap.remove(id).contains_key(o));
            assert(s1.heap.remove(id)[o] == s0.heap.remove(id)[o]);
        }
    }
    /// what `lock` on a key-value entry of the actor achieves: entry `id` is now Locked, same value; nothing else moved
    pub open spec fn entry_locked_step(s0: KState, s1: KState, id: SubstateId) -> bool {
        &&& kind(id) is KeyValue && s1.heap.contains_key(id) && locked(id, s1.heap[id])
        &&& s0.heap.contains_key(id) ==> kv_of(s1.heap[id])->Some_0.val() == kv_of(s0.heap[id])->Some_0.val()
        &&& forall|o: SubstateId| #[trigger] s0.heap.contains_key(o) && o != id ==> s1.heap.contains_key(o) && s1.heap[o] == s0.heap[o]
    }
    /// what `set` achieves: entry `id` -- which was NOT locked -- now holds `v`, Unlocked; nothing else moved
    pub open spec fn entry_set_step(s0: KState, s1: KState, id: SubstateId, v: ScryptoValue) -> bool {
        &&& kind(id) is KeyValue && s1.heap.contains_key(id)
        &&& s0.heap.contains_key(id) ==> !locked(id, s0.heap[id])
        &&& kv_of(s1.heap[id]) == Some(kv_entry(Some(v), LockStatus::Unlocked))
        &&& forall|o: SubstateId| #[trigger] s0.heap.contains_key(o) && o != id ==> s1.heap.contains_key(o) && s1.heap[o] == s0.heap[o]
    }

    /*@item radix-engine/src/object_modules/metadata/package.rs :: struct MetadataNativePackage
    @*/
    impl MetadataNativePackage {
        /*@fn radix-engine/src/object_modules/metadata/package.rs :: impl MetadataNativePackage :: fn lock
        @sig
            requires inv(old(api).kst()), write_handles_unlocked(old(api).kst())
            ensures
                // C51: whatever was locked before is untouched (in particular: locking never unlocks)
                heap_monotone(old(api).kst().heap, final(api).kst().heap),
                inv(final(api).kst()),
                ret is Ok ==> write_handles_unlocked(final(api).kst()) && final(api).kst().handles =~= old(api).kst().handles
                    && exists|id: SubstateId| entry_locked_step(old(api).kst(), final(api).kst(), id),
        @entry
            proof { assert(1u32 & 1u32 == 1u32) by (bit_vector); }
        @after <<let handle = api.actor_open_key_value_entry>> #1
            let ghost s1 = api.kst();
            let ghost id = s1.handles[handle].id;
        @before <<api.key_value_entry_close(handle)?>> #1
            let ghost s2 = api.kst();
        @after <<api.key_value_entry_close(handle)?>> #1
            proof {
                lemma_closed(s2, api.kst(), handle);
                lemma_only_rewritten_frame(s1, s2, handle);
                assert(entry_locked_step(old(api).kst(), api.kst(), id));
            }
        @*/
        /*@fn radix-engine/src/object_modules/metadata/package.rs :: impl MetadataNativePackage :: fn set
        @sig
            requires inv(old(api).kst()), write_handles_unlocked(old(api).kst())
            ensures
                // C51: a locked entry (or anything else locked) is never changed by `set` ...
                heap_monotone(old(api).kst().heap, final(api).kst().heap),
                inv(final(api).kst()),
                // ... and `set` succeeds only on an entry that is not locked
                ret is Ok ==> write_handles_unlocked(final(api).kst()) && final(api).kst().handles =~= old(api).kst().handles
                    && dec::<ScryptoValue>(metadata_value_sbor(value)) is Some
                    && exists|id: SubstateId| entry_set_step(old(api).kst(), final(api).kst(), id, dec::<ScryptoValue>(metadata_value_sbor(value))->Some_0),
        @closure 1 := |e: MetadataKeyValidationError| -> (r: RuntimeError) ensures true
        @closure 2 := |e: MetadataValueValidationError| -> (r: RuntimeError) ensures true
        @entry
            proof { assert(1u32 & 1u32 == 1u32) by (bit_vector); }
        @after <<let handle = api.actor_open_key_value_entry>> #1
            let ghost s1 = api.kst();
            let ghost id = s1.handles[handle].id;
        @before <<api.key_value_entry_close(handle)?>> #1
            let ghost s2 = api.kst();
        @after <<api.key_value_entry_close(handle)?>> #1
            proof {
                lemma_closed(s2, api.kst(), handle);
                lemma_only_rewritten_frame(s1, s2, handle);
                assert(entry_set_step(old(api).kst(), api.kst(), id, dec::<ScryptoValue>(metadata_value_sbor(value))->Some_0));
            }
        @*/
    }

    /*@item radix-engine/src/object_modules/royalty/package.rs :: struct ComponentRoyaltyBlueprint
    @*/
    impl ComponentRoyaltyBlueprint {
        /*@fn radix-engine/src/object_modules/royalty/package.rs :: impl ComponentRoyaltyBlueprint :: fn set_royalty
        @sig
            requires inv(old(api).kst()), write_handles_unlocked(old(api).kst())
            ensures
                heap_monotone(old(api).kst().heap, final(api).kst().heap),
                inv(final(api).kst()),
                // succeeds only on a royalty entry that is not locked; that entry now holds a value, Unlocked
                ret is Ok ==> write_handles_unlocked(final(api).kst()) && final(api).kst().handles =~= old(api).kst().handles
                    && exists|id: SubstateId| kind(id) is KeyValue && final(api).kst().heap.contains_key(id)
                        && (old(api).kst().heap.contains_key(id) ==> !locked(id, old(api).kst().heap[id]))
                        && others_same(old(api).kst(), final(api).kst(), id),
        @entry
            proof { assert(1u32 & 1u32 == 1u32) by (bit_vector); }
        @after <<let handle = api.actor_open_key_value_entry>> #1
            let ghost s1 = api.kst();
            let ghost id = s1.handles[handle].id;
        @before <<api.key_value_entry_close(handle)?>> #1
            let ghost s2 = api.kst();
        @after <<api.key_value_entry_close(handle)?>> #1
            proof {
                lemma_closed(s2, api.kst(), handle);
                lemma_only_rewritten_frame(s1, s2, handle);
                assert(kind(id) is KeyValue && api.kst().heap.contains_key(id)
                    && (old(api).kst().heap.contains_key(id) ==> !locked(id, old(api).kst().heap[id]))
                    && others_same(old(api).kst(), api.kst(), id));
            }
        @*/
        /*@fn radix-engine/src/object_modules/royalty/package.rs :: impl ComponentRoyaltyBlueprint :: fn lock_royalty
        @sig
            requires inv(old(api).kst()), write_handles_unlocked(old(api).kst())
            ensures
                heap_monotone(old(api).kst().heap, final(api).kst().heap),
                inv(final(api).kst()),
                ret is Ok ==> write_handles_unlocked(final(api).kst()) && final(api).kst().handles =~= old(api).kst().handles
                    && exists|id: SubstateId| entry_locked_step(old(api).kst(), final(api).kst(), id),
        @entry
            proof { assert(1u32 & 1u32 == 1u32) by (bit_vector); }
        @after <<let handle = api.actor_open_key_value_entry>> #1
            let ghost s1 = api.kst();
            let ghost id = s1.handles[handle].id;
        @before <<api.key_value_entry_close(handle)?>> #1
            let ghost s2 = api.kst();
        @after <<api.key_value_entry_close(handle)?>> #1
            proof {
                lemma_closed(s2, api.kst(), handle);
                lemma_only_rewritten_frame(s1, s2, handle);
                assert(entry_locked_step(old(api).kst(), api.kst(), id));
            }
        @*/
    }

    /// the owner-role field of the actor: field 0 of SELF
    pub open spec fn owner_field<Y: SystemApi<RuntimeError>>(api: &Y) -> SubstateId { api.actor_field(ACTOR_STATE_SELF, 0u8) }
    /// everything but `id` is as it was
    pub open spec fn others_same(s0: KState, s1: KState, id: SubstateId) -> bool {
        forall|o: SubstateId| #[trigger] s0.heap.contains_key(o) && o != id ==> s1.heap.contains_key(o) && s1.heap[o] == s0.heap[o]
    }
    /*@item radix-engine/src/object_modules/role_assignment/package.rs :: struct RoleAssignmentNativePackage
    @*/
    impl RoleAssignmentNativePackage {
        /*@fn radix-engine/src/object_modules/role_assignment/package.rs :: impl RoleAssignmentNativePackage :: fn set_owner_role
        @sig
            requires inv(old(api).kst()), write_handles_unlocked(old(api).kst()),
                     // schema typing of the owner-role field (the real code unwraps the typed read)
                     old(api).kst().heap.contains_key(owner_field(old(api))),
                     payload_is::<RoleAssignmentOwnerFieldPayload>(field_of(old(api).kst().heap[owner_field(old(api))])->Some_0.pl()),
            ensures
                heap_monotone(old(api).kst().heap, final(api).kst().heap),
                inv(final(api).kst()),
                // a locked owner role cannot be set
                locked(owner_field(old(api)), old(api).kst().heap[owner_field(old(api))]) ==> ret is Err,
                ret is Ok ==> write_handles_unlocked(final(api).kst()) && final(api).kst().handles =~= old(api).kst().handles
                    && others_same(old(api).kst(), final(api).kst(), owner_field(old(api))),
        @closure 1 := |e: RoleAssignmentError| -> (r: RuntimeError) ensures true
        @entry
            proof { assert(1u32 & 1u32 == 1u32) by (bit_vector); }
        @after <<let handle = api.actor_open_field>> #1
            let ghost s1 = api.kst();
        @before <<api.field_close(handle)?>> #1
            let ghost s2 = api.kst();
        @after <<api.field_close(handle)?>> #1
            proof {
                lemma_closed(s2, api.kst(), handle);
                lemma_only_rewritten_frame(s1, s2, handle);
            }
        @*/
        /*@fn radix-engine/src/object_modules/role_assignment/package.rs :: impl RoleAssignmentNativePackage :: fn lock_owner_role
        @sig
            requires inv(old(api).kst()), write_handles_unlocked(old(api).kst()),
                     old(api).kst().heap.contains_key(owner_field(old(api))),
                     payload_is::<RoleAssignmentOwnerFieldPayload>(field_of(old(api).kst().heap[owner_field(old(api))])->Some_0.pl()),
            ensures
                heap_monotone(old(api).kst().heap, final(api).kst().heap),
                inv(final(api).kst()),
                // an already locked owner role cannot even be re-locked (write access is refused)
                locked(owner_field(old(api)), old(api).kst().heap[owner_field(old(api))]) ==> ret is Err,
                ret is Ok ==> write_handles_unlocked(final(api).kst()) && final(api).kst().handles =~= old(api).kst().handles
                    && locked(owner_field(old(api)), final(api).kst().heap[owner_field(old(api))])
                    && others_same(old(api).kst(), final(api).kst(), owner_field(old(api))),
        @entry
            proof { assert(1u32 & 1u32 == 1u32) by (bit_vector); }
        @after <<let handle = api.actor_open_field>> #1
            let ghost s1 = api.kst();
        @before <<api.field_lock(handle)?>> #1
            let ghost s2 = api.kst();
        @before <<api.field_close(handle)?>> #1
            let ghost s3 = api.kst();
        @after <<api.field_close(handle)?>> #1
            proof {
                lemma_closed(s3, api.kst(), handle);
                lemma_only_rewritten_frame(s1, s2, handle);
                lemma_only_rewritten_frame(s2, s3, handle);
            }
        @*/
    }

    // ==========================================================================================
    // (a') No operation of the wrapper types turns Locked into Unlocked.
    // The only `&mut self` methods are lock() and remove(); their contracts above say `old.locked() ==> final.locked()`.
    // Every other method takes `self`/`&self` (cannot change a stored wrapper) or is a constructor. As a step relation:
    // ==========================================================================================
    pub enum FieldOp { Lock }
    pub enum KvOp { Lock, Remove }
    pub open spec fn field_step<V>(a: FieldSubstate<V>, op: FieldOp, b: FieldSubstate<V>) -> bool {
        match op { FieldOp::Lock => b.locked() && b.pl() == a.pl() }          // = ensures of FieldSubstate::lock
    }
    pub open spec fn kv_step<V>(a: KeyValueEntrySubstate<V>, op: KvOp, b: KeyValueEntrySubstate<V>) -> bool {
        match op {
            KvOp::Lock => b.locked() && b.val() == a.val(),                    // = ensures of KeyValueEntrySubstate::lock
            KvOp::Remove => b.val() is None && b.st() == a.st(),               // = ensures of KeyValueEntrySubstate::remove
        }
    }
    pub open spec fn field_run<V>(t: Seq<FieldSubstate<V>>, ops: Seq<FieldOp>) -> bool {
        t.len() == ops.len() + 1 && forall|i: int| 0 <= i < ops.len() ==> field_step(t[i], #[trigger] ops[i], t[i + 1])
    }
    pub open spec fn kv_run<V>(t: Seq<KeyValueEntrySubstate<V>>, ops: Seq<KvOp>) -> bool {
        t.len() == ops.len() + 1 && forall|i: int| 0 <= i < ops.len() ==> kv_step(t[i], #[trigger] ops[i], t[i + 1])
    }
    /// any history of wrapper operations: once Locked, Locked at every later point
    pub proof fn lemma_field_wrapper_never_unlocks<V>(t: Seq<FieldSubstate<V>>, ops: Seq<FieldOp>, i: int, j: int)
        requires field_run(t, ops), 0 <= i <= j < t.len(), t[i].locked()
        ensures t[j].locked(), t[j].pl() == t[i].pl()
        decreases j - i
    {
        if i < j { lemma_field_wrapper_never_unlocks(t, ops, i, j - 1); assert(field_step(t[j - 1], ops[j - 1], t[j])); }
    }
    pub proof fn lemma_kv_wrapper_never_unlocks<V>(t: Seq<KeyValueEntrySubstate<V>>, ops: Seq<KvOp>, i: int, j: int)
        requires kv_run(t, ops), 0 <= i <= j < t.len(), t[i].locked()
        ensures t[j].locked()
        decreases j - i
    {
        if i < j { lemma_kv_wrapper_never_unlocks(t, ops, i, j - 1); assert(kv_step(t[j - 1], ops[j - 1], t[j])); }
    }

    // ==========================================================================================
    // HISTORY LEMMA (C51): `heap_monotone` is what every contracted function of SystemService ensures between its
    // pre- and post-state; it is reflexive and transitive, hence holds across ANY sequence of such calls, and it
    // means: a substate that is locked at some point is, at every later point, present, locked, with the same content.
    // ==========================================================================================
    pub proof fn lemma_monotone_refl(h: Map<SubstateId, IndexedScryptoValue>)
        ensures heap_monotone(h, h)
    {}
    pub proof fn lemma_monotone_trans(h0: Map<SubstateId, IndexedScryptoValue>, h1: Map<SubstateId, IndexedScryptoValue>, h2: Map<SubstateId, IndexedScryptoValue>)
        requires heap_monotone(h0, h1), heap_monotone(h1, h2)
        ensures heap_monotone(h0, h2)
    {
        assert forall|id: SubstateId| #[trigger] h0.contains_key(id) implies h2.contains_key(id) && write_allowed(id, h0[id], h2[id]) by {
            assert(h1.contains_key(id));
            assert(write_allowed(id, h0[id], h1[id]) && write_allowed(id, h1[id], h2[id]));
        }
    }
    pub proof fn lemma_locked_stays_locked(h0: Map<SubstateId, IndexedScryptoValue>, h1: Map<SubstateId, IndexedScryptoValue>, id: SubstateId)
        requires heap_monotone(h0, h1), h0.contains_key(id), locked(id, h0[id])
        ensures h1.contains_key(id), locked(id, h1[id]), same_content(id, h0[id], h1[id])
    {}
    /// a history = the sequence of heaps between contracted calls
    pub open spec fn history(t: Seq<Map<SubstateId, IndexedScryptoValue>>) -> bool {
        forall|k: int| 0 <= k < t.len() - 1 ==> heap_monotone(#[trigger] t[k], t[k + 1])
    }
    pub proof fn lemma_locked_forever(t: Seq<Map<SubstateId, IndexedScryptoValue>>, i: int, j: int, id: SubstateId)
        requires history(t), 0 <= i <= j < t.len(), t[i].contains_key(id), locked(id, t[i][id])
        ensures t[j].contains_key(id), locked(id, t[j][id]), same_content(id, t[i][id], t[j][id])
        decreases j - i
    {
        if i < j {
            lemma_locked_forever(t, i, j - 1, id);
            assert(heap_monotone(t[j - 1], t[j]));
        }
    }
    /// the sensitive precondition is exactly the step relation: a heap write allowed by `write_allowed` is monotone
    pub proof fn lemma_allowed_write_is_monotone(h: Map<SubstateId, IndexedScryptoValue>, id: SubstateId, v: IndexedScryptoValue)
        requires h.contains_key(id), write_allowed(id, h[id], v)
        ensures heap_monotone(h, h.insert(id, v))
    {}
    /// ... and a write that changes or unlocks a locked substate is NOT (the contract is not vacuous)
    pub proof fn lemma_forbidden_write_is_rejected(id: SubstateId, old_v: IndexedScryptoValue, new_v: IndexedScryptoValue)
        requires kind(id) is Field, field_of(old_v) matches Some(f) && f.locked(),
                 field_of(new_v) matches Some(g) && !g.locked(),
        ensures !write_allowed(id, old_v, new_v)
    {}

    impl<V> Default for KeyValueEntrySubstate<V> {
        /*@fn radix-engine/src/system/system_substates.rs :: impl<V> Default for KeyValueEntrySubstate<V> :: fn default
        @sig
            ensures ret.val() == None::<V>, ret.st() == LockStatus::Unlocked
        @*/
    }
}
} // verus!
fn main() {}
