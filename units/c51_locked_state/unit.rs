// Unit c51_locked_state -- property C51 "Locked state stays locked forever"
use vstd::prelude::*;
verus! {
/*@include shims/rt.rs @*/

pub mod env {
    use vstd::prelude::*;
}

pub mod unit {
    use vstd::prelude::*;
    use super::rt::*;
    use super::env::*;

    /*@item radix-engine/src/system/system_substates.rs :: enum LockStatus
    @derive Copy, Clone, PartialEq, Eq
    @*/
    /*@item radix-engine/src/system/system_substates.rs :: struct FieldSubstateV1
    @derive
    @*/
    /*@item radix-engine/src/system/system_substates.rs :: enum FieldSubstate
    @derive
    @*/
    /*@item radix-engine/src/system/system_substates.rs :: struct KeyValueEntrySubstateV1
    @derive
    @*/
    /*@item radix-engine/src/system/system_substates.rs :: enum KeyValueEntrySubstate
    @derive
    @*/

    // ORACLE: the abstract content of a wrapper = (payload, status)
    impl<V> FieldSubstate<V> {
        pub open spec fn st(self) -> LockStatus { self->V1_0.lock_status }
        pub open spec fn pl(self) -> V { self->V1_0.payload }
        pub open spec fn locked(self) -> bool { self.st() == LockStatus::Locked }
    }
    impl<V> KeyValueEntrySubstate<V> {
        pub open spec fn st(self) -> LockStatus { self->V1_0.lock_status }
        pub open spec fn val(self) -> Option<V> { self->V1_0.value }
        pub open spec fn locked(self) -> bool { self.st() == LockStatus::Locked }
    }

    impl<V> FieldSubstate<V> {
        /*@fn radix-engine/src/system/system_substates.rs :: impl<V> FieldSubstate<V> :: fn new_field
        @sig
            ensures ret.pl() == payload, ret.st() == lock_status
        @*/
        /*@fn radix-engine/src/system/system_substates.rs :: impl<V> FieldSubstate<V> :: fn new_unlocked_field
        @sig
            ensures ret.pl() == payload, ret.st() == LockStatus::Unlocked
        @*/
        /*@fn radix-engine/src/system/system_substates.rs :: impl<V> FieldSubstate<V> :: fn new_locked_field
        @sig
            ensures ret.pl() == payload, ret.st() == LockStatus::Locked
        @*/
        /*@fn radix-engine/src/system/system_substates.rs :: impl<V> FieldSubstate<V> :: fn lock
        @sig
            ensures final(self).locked(), final(self).pl() == old(self).pl()
        @*/
        /*@fn radix-engine/src/system/system_substates.rs :: impl<V> FieldSubstate<V> :: fn payload
        @sig
            ensures *ret == self.pl()
        @*/
        /*@fn radix-engine/src/system/system_substates.rs :: impl<V> FieldSubstate<V> :: fn lock_status
        @sig
            ensures ret == self.st()
        @*/
        /*@fn radix-engine/src/system/system_substates.rs :: impl<V> FieldSubstate<V> :: fn into_payload
        @sig
            ensures ret == self.pl()
        @*/
        /*@fn radix-engine/src/system/system_substates.rs :: impl<V> FieldSubstate<V> :: fn into_lock_status
        @sig
            ensures ret == self.st()
        @*/
    }

    impl<V> KeyValueEntrySubstate<V> {
        /*@fn radix-engine/src/system/system_substates.rs :: impl<V> KeyValueEntrySubstate<V> :: fn lock
        @sig
            ensures final(self).locked(), final(self).val() == old(self).val()
        @*/
        /*@fn radix-engine/src/system/system_substates.rs :: impl<V> KeyValueEntrySubstate<V> :: fn into_value
        @sig
            ensures ret == self.val()
        @*/
        /*@fn radix-engine/src/system/system_substates.rs :: impl<V> KeyValueEntrySubstate<V> :: fn is_locked
        @sig
            ensures ret == self.locked()
        @*/
        /*@fn radix-engine/src/system/system_substates.rs :: impl<V> KeyValueEntrySubstate<V> :: fn unlocked_entry
        @sig
            ensures ret.val() == Some(value), ret.st() == LockStatus::Unlocked
        @*/
        /*@fn radix-engine/src/system/system_substates.rs :: impl<V> KeyValueEntrySubstate<V> :: fn locked_entry
        @sig
            ensures ret.val() == Some(value), ret.st() == LockStatus::Locked
        @*/
        /*@fn radix-engine/src/system/system_substates.rs :: impl<V> KeyValueEntrySubstate<V> :: fn locked_empty_entry
        @sig
            ensures ret.val() == None::<V>, ret.st() == LockStatus::Locked
        @*/
        /*@fn radix-engine/src/system/system_substates.rs :: impl<V> KeyValueEntrySubstate<V> :: fn remove
        @sig
            ensures ret == old(self).val(), final(self).val() == None::<V>, final(self).st() == old(self).st()
        @*/
        /*@fn radix-engine/src/system/system_substates.rs :: impl<V> KeyValueEntrySubstate<V> :: fn lock_status
        @sig
            ensures ret == self.st()
        @*/
    }
    impl<V> Default for KeyValueEntrySubstate<V> {
        /*@fn radix-engine/src/system/system_substates.rs :: impl<V> Default for KeyValueEntrySubstate<V> :: fn default
        @sig
            ensures ret.val() == None::<V>, ret.st() == LockStatus::Unlocked
        @*/
    }
}
} // verus!
fn main() {}
