// Replay for the C51 observation: through ONE write handle, `field_lock(h)` followed by `field_write(h, ..)`
// leaves the field UNLOCKED (field_write always stores FieldSubstate::new_unlocked_field and checks only the
// handle's lock data, which still says Write). Same for key_value_entry_lock + key_value_entry_set.
// Scaffolding copied from /repo/radix-engine-tests/tests/system/system_errors.rs (unchanged /repo).
use radix_common::prelude::*;
use radix_engine::errors::{RuntimeError, SystemError};
use radix_engine::kernel::kernel_api::{KernelNodeApi, KernelSubstateApi};
use radix_engine::system::system_callback::SystemLockData;
use radix_engine::vm::{OverridePackageCode, VmApi, VmInvoke};
use radix_engine_interface::api::{AttachedModuleId, LockFlags, SystemApi};
use radix_engine_interface::blueprints::package::PackageDefinition;
use radix_native_sdk::modules::metadata::Metadata;
use radix_native_sdk::modules::role_assignment::RoleAssignment;
use radix_transactions::builder::ManifestBuilder;
use scrypto_test::prelude::*;

const BLUEPRINT_NAME: &str = "MyBlueprint";
const CUSTOM_PACKAGE_CODE_ID: u64 = 1024;
#[derive(Clone)]
struct TestInvoke;
impl VmInvoke for TestInvoke {
    fn invoke<
        Y: SystemApi<RuntimeError> + KernelNodeApi + KernelSubstateApi<SystemLockData>,
        V: VmApi,
    >(
        &mut self,
        export_name: &str,
        _input: &IndexedScryptoValue,
        api: &mut Y,
        _vm_api: &V,
    ) -> Result<IndexedScryptoValue, RuntimeError> {
        match export_name {
            // control: lock the field and close the handle
            "lock_only" => {
                let handle = api.actor_open_field(ACTOR_STATE_SELF, 0, LockFlags::MUTABLE)?;
                api.field_lock(handle)?;
                api.field_close(handle)?;
            }
            // the sequence in question: lock, then write through the SAME handle
            "lock_then_write" => {
                let handle = api.actor_open_field(ACTOR_STATE_SELF, 0, LockFlags::MUTABLE)?;
                api.field_lock(handle)?;
                api.field_write(handle, scrypto_encode(&()).unwrap())?;
                api.field_close(handle)?;
            }
            // a later transaction asks for write access to the field
            "open_mutable" => {
                let handle = api.actor_open_field(ACTOR_STATE_SELF, 0, LockFlags::MUTABLE)?;
                api.field_write(handle, scrypto_encode(&()).unwrap())?;
                api.field_close(handle)?;
            }
            "new" => {
                let metadata = Metadata::create(api)?;
                let access_rules = RoleAssignment::create(OwnerRole::None, indexmap!(), api)?;
                let node_id =
                    api.new_simple_object(BLUEPRINT_NAME, indexmap!(0u8 => FieldValue::new(())))?;
                api.globalize(
                    node_id,
                    indexmap!(
                        AttachedModuleId::Metadata => metadata.0,
                        AttachedModuleId::RoleAssignment => access_rules.0.0,
                    ),
                    None,
                )?;
            }
            _ => {}
        }
        Ok(IndexedScryptoValue::from_typed(&()))
    }
}

fn scenario(first: &str) {
    let mut ledger = LedgerSimulatorBuilder::new()
        .with_custom_extension(OverridePackageCode::new(CUSTOM_PACKAGE_CODE_ID, TestInvoke))
        .build();
    let package_address = ledger.publish_native_package(
        CUSTOM_PACKAGE_CODE_ID,
        PackageDefinition::new_with_field_test_definition(
            BLUEPRINT_NAME,
            vec![
                ("new", "new", false),
                ("lock_only", "lock_only", true),
                ("lock_then_write", "lock_then_write", true),
                ("open_mutable", "open_mutable", true),
            ],
        ),
    );
    let receipt = ledger.execute_manifest(
        ManifestBuilder::new()
            .lock_fee(ledger.faucet_component(), 500u32)
            .call_function(package_address, BLUEPRINT_NAME, "new", manifest_args!())
            .build(),
        vec![],
    );
    let component_address = receipt.expect_commit_success().new_component_addresses()[0];

    // transaction 1
    let receipt = ledger.execute_manifest(
        ManifestBuilder::new()
            .lock_fee(ledger.faucet_component(), 500u32)
            .call_method(component_address, first, manifest_args!())
            .build(),
        vec![],
    );
    let ok1 = receipt.is_commit_success();
    println!("tx1 {:<16} : commit_success = {}", first, ok1);

    // transaction 2: a LATER transaction tries to obtain write access and write
    let receipt = ledger.execute_manifest(
        ManifestBuilder::new()
            .lock_fee(ledger.faucet_component(), 500u32)
            .call_method(component_address, "open_mutable", manifest_args!())
            .build(),
        vec![],
    );
    if receipt.is_commit_success() {
        println!("tx2 open_mutable     : commit_success = true   (field is NOT locked: a later transaction wrote it)");
    } else {
        let locked = std::panic::catch_unwind(std::panic::AssertUnwindSafe(|| {
            receipt.expect_specific_failure(|e| {
                matches!(e, RuntimeError::SystemError(SystemError::FieldLocked(..)))
            });
        }))
        .is_ok();
        println!("tx2 open_mutable     : failed, FieldLocked = {}", locked);
    }
}

fn main() {
    println!("--- control: field_lock; close");
    scenario("lock_only");
    println!("--- field_lock; field_write (same handle); close");
    scenario("lock_then_write");
}
