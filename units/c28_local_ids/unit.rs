// Unit c28_local_ids -- property C28 "Addresses and identifiers have lossless, network-bound text forms"
// Real code (all bodies extracted verbatim on every run; 43 functions):
//   radix-common/src/data/scrypto/model/non_fungible_local_id.rs
//     StringNonFungibleLocalId::{validate_slice, new, value, as_bytes}, TryFrom<String>, TryFrom<&str>
//     IntegerNonFungibleLocalId::{new, value}, From<u64>;  RUIDNonFungibleLocalId::{new, value}, From<[u8; 32]>
//     BytesNonFungibleLocalId::{validate, new, value}, TryFrom<Vec<u8>>
//     NonFungibleLocalId::{string, integer, bytes, ruid, const_string, const_integer, const_bytes, const_ruid, id_type,
//       encode_body_common, decode_body_common, to_vec}, From<the four id structs>, From<u64>, From<[u8; 32]>,
//       TryFrom<String>, TryFrom<Vec<u8>>;  fn is_canonically_formatted_integer (private; text form of integer ids);
//       impl FromStr :: from_str (whole parser: panic-freedom for every &str, accepted ==> valid id of the bracket's kind)
//   radix-common/src/address/{hrpset,decoder,encoder}.rs
//     HrpSet::get_entity_hrp, AddressBech32Decoder::{validate_and_decode_ignore_hrp, validate_and_decode},
//     AddressBech32Encoder::{encode, encode_to_fmt}
// Strings: this vstd models `str` as Seq<char> with `str::as_bytes(s) == vstd::utf8::encode_utf8(s@)`, so the
//   byte-level validation is tied to the CHARACTER-level grammar by lemmas proved here (lemma_scalar, lemma_utf8,
//   lemma_string_bridge): no "ASCII only" restriction on the inputs of `new` / `string` / `const_string`.
// Not in this unit (string formatting / third-party code): `impl Display` for NonFungibleLocalId, the exact acceptance
//   set of from_str (bounded Kani harnesses in kani/c28_h), to_key (scrypto_encode of the whole payload), NonFungibleGlobalId,
//   the Bech32m codec itself (bech32 crate; encoder.rs :: bech32_encode_to_fmt / bech32_check_hrp are copies of
//   crate code and are part of the uninterpreted codec model), `From<&NetworkDefinition> for HrpSet` (format!),
//   EntityType::from_repr (strum derive), the typed address wrappers (macro-generated).
// @subst (7): `.map(Self::String)` and `.map_err(Variant)` x4 eta-expanded (Verus rejects constructor functions as values);
//   `u64::{to,from}_be_bytes` routed through env fns with the std contract; in from_str the hyphen filter/collect chain
//   -> env::collect_without_hyphens and `.try_into()` -> `.try_into_array32()` (std contract; the `.unwrap()` stays an obligation).
#![feature(pattern)]
use vstd::prelude::*;
verus! {
/*@include shims/rt.rs @*/

pub mod env {
    use vstd::prelude::*;
    /// alloc::borrow::Cow, re-declared with the same shape (std's `AsRef for Cow` cannot be given an
    /// assume_specification on this Verus: early/late-bound lifetime mismatch). Only the two
    /// instantiations used by the ids get accessor contracts.
    #[verifier::reject_recursive_types(B)]
    pub enum Cow<'a, B: ?Sized + ToOwned + 'a> { Borrowed(&'a B), Owned(<B as ToOwned>::Owned) }
    pub open spec fn cow_bytes(c: Cow<'static, [u8]>) -> Seq<u8> {
        match c { Cow::Owned(v) => v@, Cow::Borrowed(s) => s@ }
    }
    pub open spec fn cow_chars(c: Cow<'static, str>) -> Seq<char> {
        match c { Cow::Owned(v) => v@, Cow::Borrowed(s) => s@ }
    }
    impl<'a> Cow<'a, [u8]> {
        /// `<Cow<[u8]> as AsRef<[u8]>>::as_ref` / Deref
        #[verifier::external_body]
        pub fn as_ref(&self) -> (r: &[u8])
            ensures r@ == (match *self { Cow::Owned(v) => v@, Cow::Borrowed(s) => s@ })
        { unimplemented!() }
        /// `<[u8]>::len` through Deref
        #[verifier::external_body]
        pub fn len(&self) -> (r: usize)
            ensures r == (match *self { Cow::Owned(v) => v@, Cow::Borrowed(s) => s@ }).len()
        { unimplemented!() }
    }
    impl<'a> Cow<'a, str> {
        #[verifier::external_body]
        pub fn as_ref(&self) -> (r: &str)
            ensures r@ == (match *self { Cow::Owned(v) => v@, Cow::Borrowed(s) => s@ })
        { unimplemented!() }
    }

    /// core::convert::AsRef, re-declared (shadows the prelude trait inside the unit): vstd has no
    /// specification of `AsRef::as_ref`. The only assumption is that `as_ref` is a FUNCTION of the
    /// receiver (the real code calls it twice on the same value and must see the same string).
    pub trait AsRef<T: ?Sized> {
        spec fn as_ref_spec(&self) -> &T;
        fn as_ref(&self) -> (r: &T)
            ensures r == self.as_ref_spec();
    }
    impl<'a> AsRef<str> for &'a str {
        open spec fn as_ref_spec(&self) -> &str { *self }
        fn as_ref(&self) -> (r: &str) { *self }
    }
    /// `<String as AsRef<str>>::as_ref`: the string's own contents
    pub uninterp spec fn string_as_str(s: &String) -> &str;
    pub broadcast axiom fn ax_string_as_str(s: &String)
        ensures #[trigger] string_as_str(s)@ == s@;
    impl AsRef<str> for String {
        open spec fn as_ref_spec(&self) -> &str { string_as_str(self) }
        #[verifier::external_body]
        fn as_ref(&self) -> (r: &str) { self.as_str() }
    }
    /// core: `impl<T> From<T> for T { fn from(t: T) -> T { t } }` (vstd has no specification for it)
    pub assume_specification<T> [<T as From<T>>::from] (t: T) -> (r: T)
        ensures r == t;

    impl<'a> Cow<'a, str> {
        /// `str::len` through Deref: the BYTE length of the UTF-8 form (vstd: `str::as_bytes` is `encode_utf8(s@)`)
        #[verifier::external_body]
        pub fn len(&self) -> (r: usize)
            ensures r == vstd::utf8::encode_utf8(match *self { Cow::Owned(v) => v@, Cow::Borrowed(s) => s@ }).len()
        { unimplemented!() }
    }

    // ---- sbor byte-stream model (contracts PROVED on the real sbor code in unit c20_size_codec for
    //      write_size / read_size / write_byte / read_byte; write_slice / read_slice are assumed from
    //      VecEncoder / VecDecoder: `buf.extend(slice)`, `&input[offset..offset + n]`) -----------------
    pub trait CustomValueKind {}
    /*@item sbor/src/encoder.rs :: enum EncodeError
    @derive Clone, PartialEq, Eq
    @*/
    /*@item sbor/src/decoder.rs :: enum DecodeError
    @derive Copy, Clone, PartialEq, Eq
    @*/
    /// `Result::unwrap` needs `E: Debug`
    #[verifier::external]
    impl core::fmt::Debug for EncodeError { fn fmt(&self, f: &mut core::fmt::Formatter) -> core::fmt::Result { Ok(()) } }
    /// SBOR size prefix: unsigned LEB128 (oracle of unit c20_size_codec)
    pub open spec fn leb(n: nat) -> Seq<u8>
        decreases n
    {
        if n < 128 { seq![n as u8] } else { seq![(n % 128 + 128) as u8] + leb(n / 128) }
    }
    pub open spec fn max_size() -> nat { 0x0FFF_FFFF }
    pub open spec fn is_prefix(a: Seq<u8>, b: Seq<u8>) -> bool {
        a.len() <= b.len() && forall|j: int| 0 <= j < a.len() ==> a[j] == b[j]
    }
    pub open spec fn wf_at(input: Seq<u8>, pos: int) -> bool { 0 <= pos <= input.len() }
    pub open spec fn rest_of(input: Seq<u8>, pos: int) -> Seq<u8> { input.subrange(pos, input.len() as int) }

    pub trait Encoder<X: CustomValueKind>: Sized {
        /// ghost: the bytes written so far
        spec fn out(&self) -> Seq<u8>;
        /// ghost: this encoder's byte sink cannot fail (true of VecEncoder, the only implementor in /repo)
        spec fn infallible(&self) -> bool;
        /// ghost (prophetic): the eventual contents of the sink this encoder writes through (for VecEncoder the
        /// final value of the borrowed buffer); writing never re-targets the encoder
        #[verifier::prophetic]
        spec fn sink_final(&self) -> Seq<u8>;
        fn write_discriminator(&mut self, discriminator: u8) -> (ret: Result<(), EncodeError>)
            ensures
                final(self).sink_final() == old(self).sink_final(),
                final(self).infallible() == old(self).infallible(),
                old(self).infallible() ==> ret is Ok,
                ret is Ok ==> final(self).out() == old(self).out().push(discriminator);
        fn write_size(&mut self, size: usize) -> (ret: Result<(), EncodeError>)
            ensures
                final(self).sink_final() == old(self).sink_final(),
                final(self).infallible() == old(self).infallible(),
                old(self).infallible() && size <= 0x0FFF_FFFF ==> ret is Ok,
                ret is Ok ==> size <= 0x0FFF_FFFF && final(self).out() == old(self).out() + leb(size as nat);
        fn write_slice(&mut self, slice: &[u8]) -> (ret: Result<(), EncodeError>)
            ensures
                final(self).sink_final() == old(self).sink_final(),
                final(self).infallible() == old(self).infallible(),
                old(self).infallible() ==> ret is Ok,
                ret is Ok ==> final(self).out() == old(self).out() + slice@;
    }

    /// sbor VecEncoder (struct shape and `new` as in sbor/src/encoder.rs; the three write methods carry the
    /// trait contract with `out()` = the borrowed buffer, and never fail: `buf.push` / `buf.extend`)
    pub struct ScryptoCustomValueKind;
    impl CustomValueKind for ScryptoCustomValueKind {}
    pub struct VecEncoder<'a, X: CustomValueKind> {
        pub buf: &'a mut Vec<u8>,
        pub max_depth: usize,
        pub stack_depth: usize,
        pub phantom: core::marker::PhantomData<X>,
    }
    pub type ScryptoEncoder<'a> = VecEncoder<'a, ScryptoCustomValueKind>;
    impl<'a, X: CustomValueKind> VecEncoder<'a, X> {
        pub fn new(buf: &'a mut Vec<u8>, max_depth: usize) -> (ret: Self)
            ensures ret.out() == old(buf)@, ret.infallible(), ret.sink_final() == final(buf)@
        {
            Self { buf, max_depth, stack_depth: 0, phantom: core::marker::PhantomData }
        }
    }
    impl<'a, X: CustomValueKind> Encoder<X> for VecEncoder<'a, X> {
        open spec fn out(&self) -> Seq<u8> { (*self.buf)@ }
        open spec fn infallible(&self) -> bool { true }
        #[verifier::prophetic]
        open spec fn sink_final(&self) -> Seq<u8> { (*final(self.buf))@ }
        #[verifier::external_body]
        fn write_discriminator(&mut self, discriminator: u8) -> (ret: Result<(), EncodeError>)
            ensures ret is Ok
        { unimplemented!() }
        #[verifier::external_body]
        fn write_size(&mut self, size: usize) -> (ret: Result<(), EncodeError>)
        { unimplemented!() }
        #[verifier::external_body]
        fn write_slice(&mut self, slice: &[u8]) -> (ret: Result<(), EncodeError>)
            ensures ret is Ok
        { unimplemented!() }
    }

    pub trait Decoder<X: CustomValueKind>: Sized {
        /// ghost: the whole input and the read position
        spec fn input(&self) -> Seq<u8>;
        spec fn pos(&self) -> int;
        /// provided method `read_discriminator` = `read_byte` (contract proved for VecDecoder in c20_size_codec)
        fn read_discriminator(&mut self) -> (ret: Result<u8, DecodeError>)
            requires wf_at(old(self).input(), old(self).pos())
            ensures
                wf_at(final(self).input(), final(self).pos()), final(self).input() == old(self).input(),
                ret is Ok <==> old(self).pos() < old(self).input().len(),
                ret matches Ok(b) ==> b == old(self).input()[old(self).pos()] && final(self).pos() == old(self).pos() + 1;
        /// provided method `read_size` (this contract is PROVED on the real body in c20_size_codec)
        fn read_size(&mut self) -> (ret: Result<usize, DecodeError>)
            requires wf_at(old(self).input(), old(self).pos())
            ensures
                wf_at(final(self).input(), final(self).pos()), final(self).input() == old(self).input(),
                ret matches Ok(n) ==> n <= 0x0FFF_FFFF && is_prefix(leb(n as nat), rest_of(old(self).input(), old(self).pos()))
                    && final(self).pos() == old(self).pos() + leb(n as nat).len(),
                ret is Err ==> forall|n: nat| n <= max_size() ==> !is_prefix(#[trigger] leb(n), rest_of(old(self).input(), old(self).pos())),
                forall|n: nat| n <= max_size() && is_prefix(#[trigger] leb(n), rest_of(old(self).input(), old(self).pos())) ==> ret == Ok::<usize, DecodeError>(n as usize);
        /// `read_slice(n)`: the next n bytes, or an error when fewer remain (VecDecoder: require_remaining + `&input[offset..offset + n]`)
        fn read_slice(&mut self, n: usize) -> (ret: Result<&[u8], DecodeError>)
            requires wf_at(old(self).input(), old(self).pos())
            ensures
                wf_at(final(self).input(), final(self).pos()), final(self).input() == old(self).input(),
                ret is Ok <==> old(self).pos() + n <= old(self).input().len(),
                ret matches Ok(sl) ==> sl@ == old(self).input().subrange(old(self).pos(), old(self).pos() + n) && final(self).pos() == old(self).pos() + n;
    }

    /// core::str::from_utf8: succeeds exactly on well-formed UTF-8, returning the string those bytes encode
    /// (vstd: `encode_utf8` is the UTF-8 encoder, `str::as_bytes(s) == encode_utf8(s@)`)
    #[verifier::external_type_specification]
    #[verifier::external_body]
    pub struct ExUtf8Error(core::str::Utf8Error);
    pub assume_specification [core::str::from_utf8] (v: &[u8]) -> (r: Result<&str, core::str::Utf8Error>)
        ensures
            r matches Ok(s) ==> vstd::utf8::encode_utf8(s@) == v@,
            r is Err ==> forall|cs: Seq<char>| #[trigger] vstd::utf8::encode_utf8(cs) != v@;

    /// radix-rust/src/slice.rs :: copy_u8_array -- panics unless the length matches (same contract as shims/bytes.rs)
    #[verifier::external_body]
    pub fn copy_u8_array<const N: usize>(slice: &[u8]) -> (r: [u8; N])
        requires slice@.len() == N
        ensures r@ == slice@
    { unimplemented!() }
    /// `<[T]>::to_vec` clones element-wise; for element types whose clone is the identity (u8) the result
    /// is the same sequence
    pub assume_specification<T: Clone> [<[T]>::to_vec] (s: &[T]) -> (r: Vec<T>)
        ensures
            r@.len() == s@.len(),
            forall|i: int| 0 <= i < s@.len() ==> cloned(s@[i], #[trigger] r@[i]),
            (forall|x: T, y: T| cloned(x, y) ==> x == y) ==> r@ == s@;

    /// `u64::to_be_bytes` / `u64::from_be_bytes` (std: most significant byte first). Verus cannot attach a
    /// specification to the inherent methods (the array length is an anonymous const), hence free fns.
    pub open spec fn be8(v: u64) -> Seq<u8> {
        seq![((v >> 56) & 0xff) as u8, ((v >> 48) & 0xff) as u8, ((v >> 40) & 0xff) as u8, ((v >> 32) & 0xff) as u8,
             ((v >> 24) & 0xff) as u8, ((v >> 16) & 0xff) as u8, ((v >> 8) & 0xff) as u8, (v & 0xff) as u8]
    }
    pub open spec fn be_val(s: Seq<u8>) -> u64 {
        ((s[0] as u64) << 56) | ((s[1] as u64) << 48) | ((s[2] as u64) << 40) | ((s[3] as u64) << 32)
        | ((s[4] as u64) << 24) | ((s[5] as u64) << 16) | ((s[6] as u64) << 8) | (s[7] as u64)
    }
    #[verifier::external_body]
    pub fn u64_to_be_bytes(v: u64) -> (r: [u8; 8]) ensures r@ == be8(v) { v.to_be_bytes() }
    #[verifier::external_body]
    pub fn u64_from_be_bytes(a: [u8; 8]) -> (r: u64) ensures r == be_val(a@) { u64::from_be_bytes(a) }

    // ---- third-party `bech32` crate and `core::fmt`: ABSTRACT model (uninterpreted codec) ------------------
    pub mod fmt {
        use vstd::prelude::*;
        /// `core::fmt::Write`: a text sink; ghost `text()` = everything written so far
        pub trait Write { spec fn text(&self) -> Seq<char>; }
        pub struct Error;
        pub type Result = core::result::Result<(), Error>;
        impl Write for String { open spec fn text(&self) -> Seq<char> { self@ } }
    }
    pub mod bech32 {
        use vstd::prelude::*;
        #[allow(non_camel_case_types)]
        pub struct u5(pub u8);
        pub enum Variant { Bech32, Bech32m }
        pub struct Error { pub code: u8 }
        /// the library's decoder / encoder and 8<->5 bit regrouping, as uninterpreted functions of the text
        pub uninterp spec fn spec_decode(text: Seq<char>) -> Option<(Seq<char>, Seq<u5>, Variant)>;
        pub uninterp spec fn spec_encode(hrp: Seq<char>, data: Seq<u5>, v: Variant) -> Option<Seq<char>>;
        pub uninterp spec fn spec_from_base32(d: Seq<u5>) -> Option<Seq<u8>>;
        pub uninterp spec fn spec_to_base32(d: Seq<u8>) -> Seq<u5>;
        #[verifier::external_body]
        pub fn decode(s: &str) -> (r: Result<(String, Vec<u5>, Variant), Error>)
            ensures
                r matches Ok(t) ==> spec_decode(s@) == Some((t.0@, t.1@, t.2)),
                r is Err ==> spec_decode(s@) is None,
        { unimplemented!() }
        pub trait FromBase32: Sized {
            type Err;
            fn from_base32(b32: &[u5]) -> Result<Self, Self::Err>;
        }
        impl FromBase32 for Vec<u8> {
            type Err = Error;
            #[verifier::external_body]
            fn from_base32(b32: &[u5]) -> (r: Result<Self, Self::Err>)
                ensures
                    r matches Ok(v) ==> spec_from_base32(b32@) == Some(v@),
                    r is Err ==> spec_from_base32(b32@) is None,
            { unimplemented!() }
        }
        pub trait ToBase32 { fn to_base32(&self) -> Vec<u5>; }
        impl ToBase32 for [u8] {
            #[verifier::external_body]
            fn to_base32(&self) -> (r: Vec<u5>)
                ensures r@ == spec_to_base32(self@)
            { unimplemented!() }
        }
    }
    impl AsRef<[bech32::u5]> for Vec<bech32::u5> {
        open spec fn as_ref_spec(&self) -> &[bech32::u5] { vec_u5_as_slice(self) }
        #[verifier::external_body]
        fn as_ref(&self) -> (r: &[bech32::u5]) { self.as_slice() }
    }
    pub uninterp spec fn vec_u5_as_slice(v: &Vec<bech32::u5>) -> &[bech32::u5];
    pub broadcast axiom fn ax_vec_u5_as_slice(v: &Vec<bech32::u5>)
        ensures #[trigger] vec_u5_as_slice(v)@ == v@;
    /// radix-common/src/address/encoder.rs :: bech32_encode_to_fmt -- the repository's adaptation of the bech32
    /// crate's `encode_to_fmt` (HRP check, Bech32Writer, checksum): part of the codec model, NOT under contract
    #[verifier::external_body]
    pub fn bech32_encode_to_fmt<F: fmt::Write, T: AsRef<[bech32::u5]>>(
        fmt: &mut F, hrp: &str, data: T, variant: bech32::Variant,
    ) -> (r: Result<fmt::Result, bech32::Error>)
        ensures
            r matches Ok(Ok(_)) ==> bech32::spec_encode(hrp@, data.as_ref_spec()@, variant) matches Some(t)
                && final(fmt).text() == old(fmt).text() + t,
            r is Err ==> bech32::spec_encode(hrp@, data.as_ref_spec()@, variant) is None,
    { unimplemented!() }
    /// strum `FromRepr` derive: `EntityType::from_repr` is SOME function of the byte (the discriminant table is
    /// not needed for what is proved about the address glue)
    pub uninterp spec fn spec_from_repr(b: u8) -> Option<super::unit::EntityType>;
    /// `impl PartialEq<&str> for String` (std): string contents are compared
    pub assume_specification<'a> [<String as PartialEq<&'a str>>::ne] (a: &String, b: &&str) -> (r: bool)
        ensures r == (a@ != (*b)@);

    // ---- std / hex contracts used by `impl FromStr for NonFungibleLocalId` -----------------------------------
    /// `str::starts_with` / `ends_with` are generic in the pattern; only the `char` pattern is characterised
    pub uninterp spec fn pat_prefix<P>(p: P, s: Seq<char>) -> bool;
    pub uninterp spec fn pat_suffix<P>(p: P, s: Seq<char>) -> bool;
    pub assume_specification<P: core::str::pattern::Pattern> [str::starts_with] (s: &str, pat: P) -> (r: bool)
        ensures r == pat_prefix(pat, s@);
    pub assume_specification<P: core::str::pattern::Pattern> [str::ends_with] (s: &str, pat: P) -> (r: bool)
        where for<'a> P::Searcher<'a>: core::str::pattern::ReverseSearcher<'a>
        ensures r == pat_suffix(pat, s@);
    pub broadcast axiom fn ax_char_prefix(c: char, s: Seq<char>)
        ensures #[trigger] pat_prefix::<char>(c, s) == (s.len() > 0 && s[0] == c);
    pub broadcast axiom fn ax_char_suffix(c: char, s: Seq<char>)
        ensures #[trigger] pat_suffix::<char>(c, s) == (s.len() > 0 && s.last() == c);
    /// a str's byte length is a usize (vstd specifies `str::len` as the byte length clipped to usize)
    pub broadcast axiom fn ax_str_len_fits(s: &str)
        ensures #[trigger] vstd::string::StringSliceAdditionalSpecFns::spec_bytes(s).len() <= usize::MAX;
    /// `str::parse::<F>()` = `F::from_str`: nothing is assumed about the result
    #[verifier::external_trait_specification]
    pub trait ExFromStr: Sized { type ExternalTraitSpecificationFor: core::str::FromStr; type Err; fn from_str(s: &str) -> Result<Self, Self::Err>; }
    #[verifier::external_type_specification]
    #[verifier::external_body]
    pub struct ExParseIntError(core::num::ParseIntError);
    pub assume_specification<F: core::str::FromStr> [str::parse] (s: &str) -> (r: Result<F, F::Err>);
    /// `String::len` is the byte length of the UTF-8 form
    pub assume_specification [String::len] (s: &String) -> (r: usize)
        ensures r == vstd::utf8::encode_utf8(s@).len();
    /// `Vec<u8>::try_into::<[u8; 32]>()` = std `impl TryFrom<Vec<T>> for [T; N]`: Ok exactly when the length is N, else the
    /// vector is handed back. (vstd specifies the blanket `TryInto::try_into` through the trait-level `TryFrom::try_from`,
    /// which cannot be tied to that std impl, hence an extension method with the std contract.)
    pub trait VecIntoArray32 { fn try_into_array32(self) -> Result<[u8; 32], Vec<u8>>; }
    impl VecIntoArray32 for Vec<u8> {
        #[verifier::external_body]
        fn try_into_array32(self) -> (r: Result<[u8; 32], Vec<u8>>)
            ensures r is Ok <==> self@.len() == 32, r matches Ok(a) ==> a@ == self@, r matches Err(v) ==> v == self
        { self.try_into() }
    }
    /// third-party crate `hex`: `decode` accepts an even number of ASCII hex digits and returns one byte per pair
    pub mod hex {
        use vstd::prelude::*;
        pub struct FromHexError { pub code: u8 }
        pub trait HexSrc { spec fn src_bytes(&self) -> Seq<u8>; }
        impl<'a> HexSrc for &'a str { open spec fn src_bytes(&self) -> Seq<u8> { vstd::utf8::encode_utf8((*self)@) } }
        impl<'a> HexSrc for &'a String { open spec fn src_bytes(&self) -> Seq<u8> { vstd::utf8::encode_utf8((*self)@) } }
        #[verifier::external_body]
        pub fn decode<T: HexSrc>(data: T) -> (r: Result<Vec<u8>, FromHexError>)
            ensures r matches Ok(v) ==> data.src_bytes().len() % 2 == 0 && v@.len() == data.src_bytes().len() / 2
        { unimplemented!() }
    }
    /// `chars.into_iter().filter(|c| *c != '-').collect::<String>()` (iterator adapters are not supported by Verus)
    #[verifier::external_body]
    pub fn collect_without_hyphens(chars: Vec<char>) -> (r: String)
        ensures r@ == chars@.filter(|c: char| c != '-')
    { unimplemented!() }

    /// std: `char::is_ascii_digit` is `matches!(*self, '0'..='9')`
    pub assume_specification [char::is_ascii_digit] (c: &char) -> (r: bool)
        ensures r == ('0' <= *c && *c <= '9');
}

pub mod unit {
    use vstd::prelude::*;
    use vstd::string::*;
    use vstd::utf8::*;
    use super::rt::*;
    use super::env::*;
    broadcast use {ax_string_as_str, ax_vec_u5_as_slice, ax_char_prefix, ax_char_suffix, ax_str_len_fits, vstd::std_specs::range::group_range_axioms};

    // (declared first: placed after the other items, this Verus build mis-evaluates the binary discriminant literals)
    /*@item radix-common/src/types/entity_type.rs :: enum EntityType
    @derive Clone, Copy
    @*/

    /*@item radix-common/src/data/scrypto/model/non_fungible_local_id.rs :: const NON_FUNGIBLE_LOCAL_ID_MAX_LENGTH
    @*/
    /*@item radix-common/src/data/scrypto/model/non_fungible_local_id.rs :: enum ContentValidationError
    @derive Clone, PartialEq, Eq
    @*/
    /*@item radix-common/src/data/scrypto/model/non_fungible_local_id.rs :: struct StringNonFungibleLocalId
    @derive
    @*/
    /*@item radix-common/src/data/scrypto/model/non_fungible_local_id.rs :: struct IntegerNonFungibleLocalId
    @derive
    @*/
    /*@item radix-common/src/data/scrypto/model/non_fungible_local_id.rs :: struct BytesNonFungibleLocalId
    @derive
    @*/
    /*@item radix-common/src/data/scrypto/model/non_fungible_local_id.rs :: struct RUIDNonFungibleLocalId
    @derive
    @*/

    // ---- ORACLE (from the property statement / the documented id grammar) -----------------------
    /// a string id is `[_0-9a-zA-Z]{1,64}`: the allowed alphabet, as BYTES
    pub open spec fn ok_byte(b: u8) -> bool {
        (0x30 <= b <= 0x39) || (0x41 <= b <= 0x5a) || b == 0x5f || (0x61 <= b <= 0x7a)
    }
    pub open spec fn valid_string_bytes(s: Seq<u8>) -> bool {
        1 <= s.len() <= 64 && forall|i: int| 0 <= i < s.len() ==> ok_byte(#[trigger] s[i])
    }
    /// ... and as CHARACTERS (the text form)
    pub open spec fn ok_char(c: char) -> bool {
        ('0' <= c && c <= '9') || ('A' <= c && c <= 'Z') || c == '_' || ('a' <= c && c <= 'z')
    }
    pub open spec fn valid_string_id(s: Seq<char>) -> bool {
        1 <= s.len() <= 64 && forall|i: int| 0 <= i < s.len() ==> ok_char(#[trigger] s[i])
    }
    /// which error a rejected string gets: lengths are BYTE lengths of the UTF-8 form
    pub open spec fn string_error(s: Seq<char>) -> ContentValidationError {
        if s.len() == 0 { ContentValidationError::Empty }
        else if encode_utf8(s).len() > 64 { ContentValidationError::TooLong }
        else { ContentValidationError::ContainsBadCharacter }
    }
    pub open spec fn bytes_error(s: Seq<u8>) -> ContentValidationError {
        if s.len() == 0 { ContentValidationError::Empty } else { ContentValidationError::TooLong }
    }
    /// a bytes id is any byte string of length 1..=64
    pub open spec fn valid_bytes_id(s: Seq<u8>) -> bool { 1 <= s.len() <= 64 }

    impl StringNonFungibleLocalId {
        /*@fn radix-common/src/data/scrypto/model/non_fungible_local_id.rs :: impl StringNonFungibleLocalId :: fn validate_slice
        @sig
            ensures
                ret is Ok <==> valid_string_bytes(slice@),
                ret matches Err(e) ==> e == (if slice@.len() == 0 { ContentValidationError::Empty }
                    else if slice@.len() > 64 { ContentValidationError::TooLong }
                    else { ContentValidationError::ContainsBadCharacter }),
        @loop 1
            invariant
                slice_len == slice@.len(), index <= slice_len, 1 <= slice_len <= 64,
                forall|i: int| 0 <= i < index ==> ok_byte(#[trigger] slice@[i]),
            decreases slice_len - index
        @*/
    }

    // ---- UTF-8 bridge: `str::as_bytes` is vstd's `encode_utf8(s@)`; the allowed alphabet is ASCII ----
    pub open spec fn ascii_bytes(s: Seq<char>) -> Seq<u8> { Seq::new(s.len(), |i: int| s[i] as u8) }
    pub open spec fn all_ascii(s: Seq<char>) -> bool { forall|i: int| 0 <= i < s.len() ==> (#[trigger] s[i] as u32) < 128 }
    pub open spec fn all_low(b: Seq<u8>) -> bool { forall|i: int| 0 <= i < b.len() ==> #[trigger] b[i] < 128 }

    /// one scalar: ASCII is encoded as itself, anything else starts with a byte >= 0xC0
    pub proof fn lemma_scalar(c: char)
        ensures
            (c as u32) < 128 ==> encode_scalar(c as u32) == seq![c as u8],
            (c as u32) >= 128 ==> encode_scalar(c as u32).len() >= 2 && encode_scalar(c as u32)[0] >= 0xC0,
    {
        let x = c as u32;
        if x < 128 {
            assert((x & 0x7f) == x) by (bit_vector) requires x < 128;
            assert(encode_scalar(x) =~= seq![c as u8]);
        } else {
            assert(forall|y: u8| (0xC0u8 | y) >= 0xC0u8) by (bit_vector);
            assert(forall|y: u8| (0xE0u8 | y) >= 0xC0u8) by (bit_vector);
            assert(forall|y: u8| (0xF0u8 | y) >= 0xC0u8) by (bit_vector);
        }
    }
    /// a string whose UTF-8 bytes are all < 0x80 is pure ASCII and its bytes are its chars
    pub proof fn lemma_utf8(s: Seq<char>)
        ensures
            encode_utf8(s).len() >= s.len(),
            all_ascii(s) ==> encode_utf8(s) == ascii_bytes(s),
            all_low(encode_utf8(s)) ==> all_ascii(s),
        decreases s.len()
    {
        if s.len() == 0 {
            assert(encode_utf8(s) =~= ascii_bytes(s));
        } else {
            let c = s[0]; let t = s.drop_first();
            lemma_scalar(c);
            lemma_utf8(t);
            let h = encode_scalar(c as u32);
            assert(encode_utf8(s) == h + encode_utf8(t));
            if all_ascii(s) {
                assert((s[0] as u32) < 128);
                assert forall|i: int| 0 <= i < t.len() implies (#[trigger] t[i] as u32) < 128 by { assert(t[i] == s[i + 1]); }
                assert(h + ascii_bytes(t) =~= ascii_bytes(s)) by {
                    assert forall|i: int| 0 <= i < s.len() implies (h + ascii_bytes(t))[i] == ascii_bytes(s)[i] by {
                        if i > 0 { assert(t[i - 1] == s[i]); }
                    }
                }
            }
            if all_low(encode_utf8(s)) {
                assert(encode_utf8(s)[0] == h[0]);
                assert((c as u32) < 128);
                assert forall|i: int| 0 <= i < encode_utf8(t).len() implies #[trigger] encode_utf8(t)[i] < 128 by {
                    assert(encode_utf8(s)[i + 1] == encode_utf8(t)[i]);
                }
                assert forall|i: int| 0 <= i < s.len() implies (#[trigger] s[i] as u32) < 128 by {
                    if i > 0 { assert(t[i - 1] == s[i]); }
                }
            }
        }
    }
    /// the byte-level validity of the UTF-8 image is exactly the char-level grammar `[_0-9a-zA-Z]{1,64}`
    pub proof fn lemma_string_bridge(s: Seq<char>)
        ensures valid_string_bytes(encode_utf8(s)) <==> valid_string_id(s),
                encode_utf8(s).len() == 0 <==> s.len() == 0,
    {
        lemma_utf8(s);
        let b = encode_utf8(s);
        if s.len() == 0 { assert(b =~= Seq::<u8>::empty()); }
        if valid_string_bytes(b) {
            assert forall|i: int| 0 <= i < b.len() implies #[trigger] b[i] < 128 by { assert(ok_byte(b[i])); }
            assert(b == ascii_bytes(s));
            assert forall|i: int| 0 <= i < s.len() implies ok_char(#[trigger] s[i]) by { assert(ok_byte(b[i])); assert(b[i] == s[i] as u8); }
        }
        if valid_string_id(s) {
            assert forall|i: int| 0 <= i < s.len() implies (#[trigger] s[i] as u32) < 128 by { assert(ok_char(s[i])); }
            assert(b == ascii_bytes(s));
            assert forall|i: int| 0 <= i < b.len() implies ok_byte(#[trigger] b[i]) by { assert(ok_char(s[i])); }
        }
    }

    impl StringNonFungibleLocalId {
        /*@fn radix-common/src/data/scrypto/model/non_fungible_local_id.rs :: impl StringNonFungibleLocalId :: fn new
        @sig
            ensures
                ret is Ok <==> valid_string_id(id.as_ref_spec()@),
                ret matches Ok(v) ==> cow_chars(v.0) == id.as_ref_spec()@,
                ret matches Err(e) ==> e == string_error(id.as_ref_spec()@),
        @entry
            proof { lemma_string_bridge(id.as_ref_spec()@); }
        @closure 1 := |_u: ()| -> (r: Self) ensures cow_chars(r.0) == id.as_ref_spec()@
        @*/
        /*@fn radix-common/src/data/scrypto/model/non_fungible_local_id.rs :: impl StringNonFungibleLocalId :: fn value
        @sig
            ensures ret@ == cow_chars(self.0)
        @*/
        /*@fn radix-common/src/data/scrypto/model/non_fungible_local_id.rs :: impl StringNonFungibleLocalId :: fn as_bytes
        @sig
            ensures ret@ == encode_utf8(cow_chars(self.0))
        @*/
    }

    impl IntegerNonFungibleLocalId {
        /*@fn radix-common/src/data/scrypto/model/non_fungible_local_id.rs :: impl IntegerNonFungibleLocalId :: fn new
        @sig
            ensures ret.0 == id
        @*/
        /*@fn radix-common/src/data/scrypto/model/non_fungible_local_id.rs :: impl IntegerNonFungibleLocalId :: fn value
        @sig
            ensures ret == self.0
        @*/
    }

    impl RUIDNonFungibleLocalId {
        /*@fn radix-common/src/data/scrypto/model/non_fungible_local_id.rs :: impl RUIDNonFungibleLocalId :: fn new
        @sig
            ensures ret.0 == id
        @*/
        /*@fn radix-common/src/data/scrypto/model/non_fungible_local_id.rs :: impl RUIDNonFungibleLocalId :: fn value
        @sig
            ensures *ret == self.0
        @*/
    }

    impl BytesNonFungibleLocalId {
        /*@fn radix-common/src/data/scrypto/model/non_fungible_local_id.rs :: impl BytesNonFungibleLocalId :: fn new
        @sig
            ensures
                ret is Ok <==> valid_bytes_id(id@),
                ret matches Ok(v) ==> v.0 == Cow::<'static, [u8]>::Owned(id),
                ret matches Err(e) ==> e == bytes_error(id@),
        @closure 1 := |_u: ()| -> (r: Self) ensures r.0 == Cow::<'static, [u8]>::Owned(id)
        @*/
        /*@fn radix-common/src/data/scrypto/model/non_fungible_local_id.rs :: impl BytesNonFungibleLocalId :: fn value
        @sig
            ensures ret@ == cow_bytes(self.0)
        @*/
        /*@fn radix-common/src/data/scrypto/model/non_fungible_local_id.rs :: impl BytesNonFungibleLocalId :: fn validate
        @sig
            ensures
                ret is Ok <==> valid_bytes_id(slice@),
                ret matches Err(e) ==> e == bytes_error(slice@),
        @*/
    }

    // =============================================================================================
    // the id enum: every public constructor establishes the validity invariant `wf`
    // =============================================================================================
    /*@item radix-common/src/data/scrypto/model/non_fungible_id_type.rs :: enum NonFungibleIdType
    @derive Clone, Copy, PartialEq, Eq
    @*/
    /*@item radix-common/src/data/scrypto/model/non_fungible_local_id.rs :: enum NonFungibleLocalId
    @derive
    @*/

    /// the abstract value of an id
    pub enum IdView { String(Seq<char>), Integer(u64), Bytes(Seq<u8>), RUID(Seq<u8>) }
    pub open spec fn view_of(id: NonFungibleLocalId) -> IdView {
        match id {
            NonFungibleLocalId::String(v) => IdView::String(cow_chars(v.0)),
            NonFungibleLocalId::Integer(v) => IdView::Integer(v.0),
            NonFungibleLocalId::Bytes(v) => IdView::Bytes(cow_bytes(v.0)),
            NonFungibleLocalId::RUID(v) => IdView::RUID(v.0@),
        }
    }
    /// ORACLE: which abstract values denote an id (doc comments of the enum: `[_0-9a-zA-Z]{1,64}`,
    /// any u64, 1..=64 bytes, exactly 32 bytes)
    pub open spec fn valid_id(v: IdView) -> bool {
        match v {
            IdView::String(s) => valid_string_id(s),
            IdView::Integer(_) => true,
            IdView::Bytes(b) => valid_bytes_id(b),
            IdView::RUID(r) => r.len() == 32,
        }
    }
    pub open spec fn wf(id: NonFungibleLocalId) -> bool { valid_id(view_of(id)) }
    pub open spec fn type_of(v: IdView) -> NonFungibleIdType {
        match v {
            IdView::String(_) => NonFungibleIdType::String,
            IdView::Integer(_) => NonFungibleIdType::Integer,
            IdView::Bytes(_) => NonFungibleIdType::Bytes,
            IdView::RUID(_) => NonFungibleIdType::RUID,
        }
    }

    impl NonFungibleLocalId {
        /*@fn radix-common/src/data/scrypto/model/non_fungible_local_id.rs :: impl NonFungibleLocalId :: fn string
        @subst <<.map(Self::String)>> => <<.map(|v: StringNonFungibleLocalId| -> (r: Self) ensures r == Self::String(v) { Self::String(v) })>> why: Verus rejects a tuple-variant constructor used as a function value; eta-expanded to the closure it denotes
        @sig
            ensures
                ret is Ok <==> valid_string_id(value.as_ref_spec()@),
                ret matches Ok(id) ==> wf(id) && view_of(id) == IdView::String(value.as_ref_spec()@),
                ret matches Err(e) ==> e == string_error(value.as_ref_spec()@),
        @*/
        /*@fn radix-common/src/data/scrypto/model/non_fungible_local_id.rs :: impl NonFungibleLocalId :: fn integer
        @sig
            ensures wf(ret), view_of(ret) == IdView::Integer(value)
        @*/
        /*@fn radix-common/src/data/scrypto/model/non_fungible_local_id.rs :: impl NonFungibleLocalId :: fn ruid
        @sig
            ensures wf(ret), view_of(ret) == IdView::RUID(value@)
        @*/
        /*@fn radix-common/src/data/scrypto/model/non_fungible_local_id.rs :: impl NonFungibleLocalId :: fn const_string
        @sig
            ensures
                ret is Ok <==> valid_string_id(value@),
                ret matches Ok(id) ==> wf(id) && view_of(id) == IdView::String(value@),
                ret matches Err(e) ==> e == string_error(value@),
        @entry
            proof { lemma_string_bridge(value@); }
        @*/
        /*@fn radix-common/src/data/scrypto/model/non_fungible_local_id.rs :: impl NonFungibleLocalId :: fn const_integer
        @sig
            ensures wf(ret), view_of(ret) == IdView::Integer(value)
        @*/
        /*@fn radix-common/src/data/scrypto/model/non_fungible_local_id.rs :: impl NonFungibleLocalId :: fn const_bytes
        @sig
            ensures
                ret is Ok <==> valid_bytes_id(value@),
                ret matches Ok(id) ==> wf(id) && view_of(id) == IdView::Bytes(value@),
                ret matches Err(e) ==> e == bytes_error(value@),
        @*/
        /*@fn radix-common/src/data/scrypto/model/non_fungible_local_id.rs :: impl NonFungibleLocalId :: fn const_ruid
        @sig
            ensures wf(ret), view_of(ret) == IdView::RUID(value@)
        @*/
        /*@fn radix-common/src/data/scrypto/model/non_fungible_local_id.rs :: impl NonFungibleLocalId :: fn id_type
        @sig
            ensures ret == type_of(view_of(*self))
        @*/
    }

    // ---- conversions (`From` / `TryFrom` impls): each is the corresponding constructor ----------------
    use vstd::std_specs::convert::{FromSpecImpl, TryFromSpecImpl};
    pub open spec fn bytes_result(v: Vec<u8>) -> Result<NonFungibleLocalId, ContentValidationError> {
        if valid_bytes_id(v@) { Ok(NonFungibleLocalId::Bytes(BytesNonFungibleLocalId(Cow::Owned(v)))) } else { Err(bytes_error(v@)) }
    }
    impl FromSpecImpl<StringNonFungibleLocalId> for NonFungibleLocalId {
        open spec fn obeys_from_spec() -> bool { true }
        open spec fn from_spec(v: StringNonFungibleLocalId) -> Self { NonFungibleLocalId::String(v) }
    }
    impl From<StringNonFungibleLocalId> for NonFungibleLocalId {
        /*@fn radix-common/src/data/scrypto/model/non_fungible_local_id.rs :: impl From<StringNonFungibleLocalId> for NonFungibleLocalId :: fn from
        @sig
            ensures ret == NonFungibleLocalId::String(value)
        @*/
    }
    impl FromSpecImpl<IntegerNonFungibleLocalId> for NonFungibleLocalId {
        open spec fn obeys_from_spec() -> bool { true }
        open spec fn from_spec(v: IntegerNonFungibleLocalId) -> Self { NonFungibleLocalId::Integer(v) }
    }
    impl From<IntegerNonFungibleLocalId> for NonFungibleLocalId {
        /*@fn radix-common/src/data/scrypto/model/non_fungible_local_id.rs :: impl From<IntegerNonFungibleLocalId> for NonFungibleLocalId :: fn from
        @sig
            ensures ret == NonFungibleLocalId::Integer(value)
        @*/
    }
    impl FromSpecImpl<BytesNonFungibleLocalId> for NonFungibleLocalId {
        open spec fn obeys_from_spec() -> bool { true }
        open spec fn from_spec(v: BytesNonFungibleLocalId) -> Self { NonFungibleLocalId::Bytes(v) }
    }
    impl From<BytesNonFungibleLocalId> for NonFungibleLocalId {
        /*@fn radix-common/src/data/scrypto/model/non_fungible_local_id.rs :: impl From<BytesNonFungibleLocalId> for NonFungibleLocalId :: fn from
        @sig
            ensures ret == NonFungibleLocalId::Bytes(value)
        @*/
    }
    impl FromSpecImpl<RUIDNonFungibleLocalId> for NonFungibleLocalId {
        open spec fn obeys_from_spec() -> bool { true }
        open spec fn from_spec(v: RUIDNonFungibleLocalId) -> Self { NonFungibleLocalId::RUID(v) }
    }
    impl From<RUIDNonFungibleLocalId> for NonFungibleLocalId {
        /*@fn radix-common/src/data/scrypto/model/non_fungible_local_id.rs :: impl From<RUIDNonFungibleLocalId> for NonFungibleLocalId :: fn from
        @sig
            ensures ret == NonFungibleLocalId::RUID(value)
        @*/
    }
    impl FromSpecImpl<u64> for IntegerNonFungibleLocalId {
        open spec fn obeys_from_spec() -> bool { true }
        open spec fn from_spec(v: u64) -> Self { IntegerNonFungibleLocalId(v) }
    }
    impl From<u64> for IntegerNonFungibleLocalId {
        /*@fn radix-common/src/data/scrypto/model/non_fungible_local_id.rs :: impl From<u64> for IntegerNonFungibleLocalId :: fn from
        @sig
            ensures ret == IntegerNonFungibleLocalId(value)
        @*/
    }
    impl FromSpecImpl<[u8; 32]> for RUIDNonFungibleLocalId {
        open spec fn obeys_from_spec() -> bool { true }
        open spec fn from_spec(v: [u8; 32]) -> Self { RUIDNonFungibleLocalId(v) }
    }
    impl From<[u8; 32]> for RUIDNonFungibleLocalId {
        /*@fn radix-common/src/data/scrypto/model/non_fungible_local_id.rs :: impl From<[u8; 32]> for RUIDNonFungibleLocalId :: fn from
        @sig
            ensures ret == RUIDNonFungibleLocalId(value)
        @*/
    }
    impl FromSpecImpl<u64> for NonFungibleLocalId {
        open spec fn obeys_from_spec() -> bool { true }
        open spec fn from_spec(v: u64) -> Self { NonFungibleLocalId::Integer(IntegerNonFungibleLocalId(v)) }
    }
    impl From<u64> for NonFungibleLocalId {
        /*@fn radix-common/src/data/scrypto/model/non_fungible_local_id.rs :: impl From<u64> for NonFungibleLocalId :: fn from
        @sig
            ensures ret == NonFungibleLocalId::Integer(IntegerNonFungibleLocalId(value)), wf(ret)
        @*/
    }
    impl FromSpecImpl<[u8; 32]> for NonFungibleLocalId {
        open spec fn obeys_from_spec() -> bool { true }
        open spec fn from_spec(v: [u8; 32]) -> Self { NonFungibleLocalId::RUID(RUIDNonFungibleLocalId(v)) }
    }
    impl From<[u8; 32]> for NonFungibleLocalId {
        /*@fn radix-common/src/data/scrypto/model/non_fungible_local_id.rs :: impl From<[u8; 32]> for NonFungibleLocalId :: fn from
        @sig
            ensures ret == NonFungibleLocalId::RUID(RUIDNonFungibleLocalId(value)), wf(ret)
        @*/
    }
    impl TryFromSpecImpl<Vec<u8>> for BytesNonFungibleLocalId {
        open spec fn obeys_try_from_spec() -> bool { true }
        open spec fn try_from_spec(v: Vec<u8>) -> Result<Self, ContentValidationError> {
            if valid_bytes_id(v@) { Ok(BytesNonFungibleLocalId(Cow::Owned(v))) } else { Err(bytes_error(v@)) }
        }
    }
    impl TryFrom<Vec<u8>> for BytesNonFungibleLocalId {
        type Error = ContentValidationError;
        /*@fn radix-common/src/data/scrypto/model/non_fungible_local_id.rs :: impl TryFrom<Vec<u8>> for BytesNonFungibleLocalId :: fn try_from
        @sig
            ensures ret == (if valid_bytes_id(value@) { Ok(BytesNonFungibleLocalId(Cow::Owned(value))) } else { Err(bytes_error(value@)) })
        @*/
    }
    impl TryFromSpecImpl<Vec<u8>> for NonFungibleLocalId {
        open spec fn obeys_try_from_spec() -> bool { true }
        open spec fn try_from_spec(v: Vec<u8>) -> Result<Self, ContentValidationError> { bytes_result(v) }
    }
    impl TryFrom<Vec<u8>> for NonFungibleLocalId {
        type Error = ContentValidationError;
        /*@fn radix-common/src/data/scrypto/model/non_fungible_local_id.rs :: impl TryFrom<Vec<u8>> for NonFungibleLocalId :: fn try_from
        @sig
            ensures ret == bytes_result(value)
        @*/
    }
    /// String -> id: the owned copy made by `new` is a fresh String, so only its CONTENT is specified
    /// (obeys_try_from_spec is false: `.try_into()` callers learn nothing; direct callers use the ensures)
    impl TryFromSpecImpl<String> for StringNonFungibleLocalId {
        open spec fn obeys_try_from_spec() -> bool { false }
        open spec fn try_from_spec(v: String) -> Result<Self, ContentValidationError> { arbitrary() }
    }
    impl TryFrom<String> for StringNonFungibleLocalId {
        type Error = ContentValidationError;
        /*@fn radix-common/src/data/scrypto/model/non_fungible_local_id.rs :: impl TryFrom<String> for StringNonFungibleLocalId :: fn try_from
        @sig
            ensures
                ret is Ok <==> valid_string_id(value@),
                ret matches Ok(v) ==> cow_chars(v.0) == value@,
                ret matches Err(e) ==> e == string_error(value@),
        @*/
    }
    impl<'a> TryFromSpecImpl<&'a str> for StringNonFungibleLocalId {
        open spec fn obeys_try_from_spec() -> bool { false }
        open spec fn try_from_spec(v: &'a str) -> Result<Self, ContentValidationError> { arbitrary() }
    }
    impl TryFrom<&str> for StringNonFungibleLocalId {
        type Error = ContentValidationError;
        /*@fn radix-common/src/data/scrypto/model/non_fungible_local_id.rs :: impl TryFrom<&str> for StringNonFungibleLocalId :: fn try_from
        @sig
            ensures
                ret is Ok <==> valid_string_id(value@),
                ret matches Ok(v) ==> cow_chars(v.0) == value@,
                ret matches Err(e) ==> e == string_error(value@),
        @*/
    }
    impl TryFromSpecImpl<String> for NonFungibleLocalId {
        open spec fn obeys_try_from_spec() -> bool { false }
        open spec fn try_from_spec(v: String) -> Result<Self, ContentValidationError> { arbitrary() }
    }
    impl TryFrom<String> for NonFungibleLocalId {
        type Error = ContentValidationError;
        /*@fn radix-common/src/data/scrypto/model/non_fungible_local_id.rs :: impl TryFrom<String> for NonFungibleLocalId :: fn try_from
        @sig
            ensures
                ret is Ok <==> valid_string_id(value@),
                ret matches Ok(id) ==> wf(id) && view_of(id) == IdView::String(value@),
                ret matches Err(e) ==> e == string_error(value@),
        @*/
    }

    impl NonFungibleLocalId {
        /*@fn radix-common/src/data/scrypto/model/non_fungible_local_id.rs :: impl NonFungibleLocalId :: fn bytes
        @sig
            ensures
                exists|v: Vec<u8>| call_ensures(<T as Into<Vec<u8>>>::into, (value,), v) && ret == bytes_result(v),
        @*/
    }

    // =============================================================================================
    // text form of integer ids: canonical decimal
    // =============================================================================================
    pub open spec fn is_digit(c: char) -> bool { '0' <= c && c <= '9' }
    /// ORACLE (property: "integer ids are accepted only in canonical decimal form"): a non-empty string
    /// of ASCII decimal digits with no redundant leading zero (no sign, no blank, no other character)
    pub open spec fn canonical_decimal(s: Seq<char>) -> bool {
        &&& s.len() >= 1
        &&& forall|i: int| 0 <= i < s.len() ==> is_digit(#[trigger] s[i])
        &&& (s.len() > 1 ==> s[0] != '0')
    }

    /// the number a digit string denotes
    pub open spec fn dec_val(s: Seq<char>) -> nat
        decreases s.len()
    {
        if s.len() == 0 { 0 } else { 10 * dec_val(s.drop_last()) + ((s.last() as u32 - '0' as u32) as nat) }
    }
    pub proof fn lemma_dec_pos(s: Seq<char>)
        requires s.len() >= 1, forall|i: int| 0 <= i < s.len() ==> is_digit(#[trigger] s[i]), s[0] != '0'
        ensures dec_val(s) >= 1, s.len() >= 2 ==> dec_val(s) >= 10
        decreases s.len()
    {
        assert(is_digit(s.last()));
        if s.len() == 1 {
            assert(s.drop_last().len() == 0);
            assert(s.last() == s[0]);
        } else {
            let t = s.drop_last();
            assert forall|i: int| 0 <= i < t.len() implies is_digit(#[trigger] t[i]) by { assert(t[i] == s[i]); }
            assert(t[0] == s[0]);
            lemma_dec_pos(t);
        }
    }
    /// "canonical" means: every number has exactly ONE accepted text
    pub proof fn lemma_canonical_unique(a: Seq<char>, b: Seq<char>)
        requires canonical_decimal(a), canonical_decimal(b), dec_val(a) == dec_val(b)
        ensures a == b
        decreases a.len()
    {
        let (ta, tb) = (a.drop_last(), b.drop_last());
        let da = (a.last() as u32 - '0' as u32) as nat; let db = (b.last() as u32 - '0' as u32) as nat;
        assert(is_digit(a.last()) && is_digit(b.last()));
        assert(da < 10 && db < 10);
        assert(dec_val(a) == 10 * dec_val(ta) + da && dec_val(b) == 10 * dec_val(tb) + db);
        assert(da == db && dec_val(ta) == dec_val(tb));
        assert(a.last() == b.last());
        assert forall|i: int| 0 <= i < ta.len() implies is_digit(#[trigger] ta[i]) by { assert(ta[i] == a[i]); }
        assert forall|i: int| 0 <= i < tb.len() implies is_digit(#[trigger] tb[i]) by { assert(tb[i] == b[i]); }
        if a.len() == 1 && b.len() == 1 {
        } else if a.len() == 1 {
            assert(dec_val(ta) == 0);
            assert(tb[0] == b[0]);
            lemma_dec_pos(tb);
            assert(false);
        } else if b.len() == 1 {
            assert(dec_val(tb) == 0);
            assert(ta[0] == a[0]);
            lemma_dec_pos(ta);
            assert(false);
        } else {
            assert(ta[0] == a[0] && tb[0] == b[0]);
            assert(canonical_decimal(ta) && canonical_decimal(tb));
            lemma_canonical_unique(ta, tb);
        }
        assert(a =~= ta.push(a.last()));
        assert(b =~= tb.push(b.last()));
    }

    /*@fn radix-common/src/data/scrypto/model/non_fungible_local_id.rs :: fn is_canonically_formatted_integer
    @sig
        ensures ret == canonical_decimal(digits@)
    @entry
        proof { reveal_strlit("0"); }
    @before <<return false>> #2
        proof {
            assert(digits@[0] == first_char->0);
            if digits@[0] == '0' { assert(digits@.len() > 1) by { if digits@.len() == 1 { assert(digits@ =~= "0"@); } } }
        }
    @loop 1 iter it
        invariant
            digits@.len() >= 1, '1' <= digits@[0] && digits@[0] <= '9',
            vstd::std_specs::iter::IteratorSpec::remaining(&it.snapshot@) == digits@.drop_first(),
            forall|j: int| 1 <= j <= it.index@ ==> is_digit(#[trigger] digits@[j]),
    @before <<return false>> #3
        proof { assert(char == digits@[it.index@ + 1]); }
    @*/

    // =============================================================================================
    // binary form (SBOR custom value body): discriminator byte, then the payload
    // =============================================================================================
    /// ORACLE: the wire format of an id body
    pub open spec fn enc(v: IdView) -> Seq<u8> {
        match v {
            IdView::String(s) => seq![0u8] + leb(encode_utf8(s).len()) + encode_utf8(s),
            IdView::Integer(n) => seq![1u8] + be8(n),
            IdView::Bytes(b) => seq![2u8] + leb(b.len()) + b,
            IdView::RUID(r) => seq![3u8] + r,
        }
    }
    pub proof fn lemma_be_round(v: u64)
        ensures be_val(be8(v)) == v, be8(v).len() == 8
    {
        assert(
          (((((v >> 56) & 0xff) as u8) as u64) << 56) | (((((v >> 48) & 0xff) as u8) as u64) << 48) | (((((v >> 40) & 0xff) as u8) as u64) << 40) | (((((v >> 32) & 0xff) as u8) as u64) << 32)
        | (((((v >> 24) & 0xff) as u8) as u64) << 24) | (((((v >> 16) & 0xff) as u8) as u64) << 16) | (((((v >> 8) & 0xff) as u8) as u64) << 8) | (((v & 0xff) as u8) as u64) == v) by (bit_vector);
    }
    pub proof fn lemma_be_inj(s: Seq<u8>)
        requires s.len() == 8
        ensures be8(be_val(s)) == s
    {
        let (b0, b1, b2, b3, b4, b5, b6, b7) = (s[0], s[1], s[2], s[3], s[4], s[5], s[6], s[7]);
        let v = be_val(s);
        assert(v == ((b0 as u64) << 56) | ((b1 as u64) << 48) | ((b2 as u64) << 40) | ((b3 as u64) << 32) | ((b4 as u64) << 24) | ((b5 as u64) << 16) | ((b6 as u64) << 8) | (b7 as u64));
        assert(((v >> 56) & 0xff) as u8 == b0 && ((v >> 48) & 0xff) as u8 == b1 && ((v >> 40) & 0xff) as u8 == b2 && ((v >> 32) & 0xff) as u8 == b3
            && ((v >> 24) & 0xff) as u8 == b4 && ((v >> 16) & 0xff) as u8 == b5 && ((v >> 8) & 0xff) as u8 == b6 && (v & 0xff) as u8 == b7) by (bit_vector)
            requires v == ((b0 as u64) << 56) | ((b1 as u64) << 48) | ((b2 as u64) << 40) | ((b3 as u64) << 32) | ((b4 as u64) << 24) | ((b5 as u64) << 16) | ((b6 as u64) << 8) | (b7 as u64);
        assert(be8(v) =~= s);
    }

    impl NonFungibleLocalId {
        /*@fn radix-common/src/data/scrypto/model/non_fungible_local_id.rs :: impl NonFungibleLocalId :: fn encode_body_common
        @subst <<v.0.to_be_bytes()>> => <<u64_to_be_bytes(v.0)>> why: Verus cannot give `u64::to_be_bytes` a specification (anonymous-const array length); env::u64_to_be_bytes is the same call with the std contract (big endian)
        @sig
            ensures
                ret is Ok ==> final(encoder).out() == old(encoder).out() + enc(view_of(*self)),
                wf(*self) && old(encoder).infallible() ==> ret is Ok,
                final(encoder).infallible() == old(encoder).infallible(),
                final(encoder).sink_final() == old(encoder).sink_final(),
        @entry
            proof { if *self is String { lemma_string_bridge(cow_chars(self->String_0.0)); } }
        @*/
    }

    impl NonFungibleLocalId {
        /*@fn radix-common/src/data/scrypto/model/non_fungible_local_id.rs :: impl NonFungibleLocalId :: fn to_vec
        @sig
            requires wf(*self)
            ensures ret@ == enc(view_of(*self))
        @*/
    }

    /// what an input that STARTS WITH the encoding of a valid id looks like, in the terms in which the
    /// decoder's reads are specified (position arithmetic on `input`)
    pub open spec fn shape(v: IdView, input: Seq<u8>, p: int) -> bool {
        &&& p < input.len()
        &&& match v {
            IdView::String(s) => {
                let b = encode_utf8(s); let l = leb(b.len()).len() as int;
                &&& input[p] == 0 && b.len() <= 64
                &&& is_prefix(leb(b.len()), rest_of(input, p + 1))
                &&& p + 1 + l + b.len() <= input.len()
                &&& input.subrange(p + 1 + l, p + 1 + l + b.len()) == b
            },
            IdView::Integer(n) => input[p] == 1 && p + 9 <= input.len() && input.subrange(p + 1, p + 1 + 8) == be8(n),
            IdView::Bytes(b) => {
                let l = leb(b.len()).len() as int;
                &&& input[p] == 2 && b.len() <= 64
                &&& is_prefix(leb(b.len()), rest_of(input, p + 1))
                &&& p + 1 + l + b.len() <= input.len()
                &&& input.subrange(p + 1 + l, p + 1 + l + b.len()) == b
            },
            IdView::RUID(r) => input[p] == 3 && p + 33 <= input.len() && input.subrange(p + 1, p + 1 + 32) == r,
        }
    }
    pub proof fn lemma_enc_shape(v: IdView, input: Seq<u8>, p: int)
        requires valid_id(v), wf_at(input, p), is_prefix(enc(v), rest_of(input, p))
        ensures shape(v, input, p), enc(v).len() >= 1
    {
        let r = rest_of(input, p);
        let e = enc(v);
        assert(e.len() >= 1);
        assert(e[0] == r[0] && r[0] == input[p]);
        match v {
            IdView::String(s) => {
                lemma_string_bridge(s);
                let b = encode_utf8(s); let lb = leb(b.len()); let l = lb.len() as int;
                assert(e == seq![0u8] + lb + b);
                assert forall|j: int| 0 <= j < lb.len() implies lb[j] == rest_of(input, p + 1)[j] by { assert(e[j + 1] == r[j + 1]); }
                assert(input.subrange(p + 1 + l, p + 1 + l + b.len()) =~= b) by {
                    assert forall|j: int| 0 <= j < b.len() implies input[p + 1 + l + j] == b[j] by { assert(e[1 + l + j] == r[1 + l + j]); }
                }
            },
            IdView::Integer(n) => {
                lemma_be_round(n);
                assert(input.subrange(p + 1, p + 1 + 8) =~= be8(n)) by {
                    assert forall|j: int| 0 <= j < 8 implies input[p + 1 + j] == be8(n)[j] by { assert(e[1 + j] == r[1 + j]); }
                }
            },
            IdView::Bytes(b) => {
                let lb = leb(b.len()); let l = lb.len() as int;
                assert(e == seq![2u8] + lb + b);
                assert forall|j: int| 0 <= j < lb.len() implies lb[j] == rest_of(input, p + 1)[j] by { assert(e[j + 1] == r[j + 1]); }
                assert(input.subrange(p + 1 + l, p + 1 + l + b.len()) =~= b) by {
                    assert forall|j: int| 0 <= j < b.len() implies input[p + 1 + l + j] == b[j] by { assert(e[1 + l + j] == r[1 + l + j]); }
                }
            },
            IdView::RUID(x) => {
                assert(input.subrange(p + 1, p + 1 + 32) =~= x) by {
                    assert forall|j: int| 0 <= j < 32 implies input[p + 1 + j] == x[j] by { assert(e[1 + j] == r[1 + j]); }
                }
            },
        }
    }
    /// conversely: an input with that shape starts with the encoding
    pub proof fn lemma_shape_enc(v: IdView, input: Seq<u8>, p: int)
        requires wf_at(input, p), shape(v, input, p), v is RUID ==> v->RUID_0.len() == 32
        ensures is_prefix(enc(v), rest_of(input, p))
    {
        let r = rest_of(input, p);
        let e = enc(v);
        match v {
            IdView::String(s) => {
                let b = encode_utf8(s); let lb = leb(b.len()); let l = lb.len() as int;
                assert(e == seq![0u8] + lb + b);
                assert forall|j: int| 0 <= j < e.len() implies e[j] == r[j] by {
                    if 1 <= j < 1 + l { assert(lb[j - 1] == rest_of(input, p + 1)[j - 1]); }
                    else if j >= 1 + l { assert(input.subrange(p + 1 + l, p + 1 + l + b.len())[j - 1 - l] == b[j - 1 - l]); }
                }
            },
            IdView::Integer(n) => {
                lemma_be_round(n);
                assert forall|j: int| 0 <= j < e.len() implies e[j] == r[j] by {
                    if j >= 1 { assert(input.subrange(p + 1, p + 1 + 8)[j - 1] == be8(n)[j - 1]); }
                }
            },
            IdView::Bytes(b) => {
                let lb = leb(b.len()); let l = lb.len() as int;
                assert(e == seq![2u8] + lb + b);
                assert forall|j: int| 0 <= j < e.len() implies e[j] == r[j] by {
                    if 1 <= j < 1 + l { assert(lb[j - 1] == rest_of(input, p + 1)[j - 1]); }
                    else if j >= 1 + l { assert(input.subrange(p + 1 + l, p + 1 + l + b.len())[j - 1 - l] == b[j - 1 - l]); }
                }
            },
            IdView::RUID(x) => {
                assert forall|j: int| 0 <= j < e.len() implies e[j] == r[j] by {
                    if j >= 1 { assert(input.subrange(p + 1, p + 1 + 32)[j - 1] == x[j - 1]); }
                }
            },
        }
    }
    /// the UTF-8 image determines a valid string id
    pub proof fn lemma_utf8_inj_valid(a: Seq<char>, b: Seq<char>)
        requires valid_string_id(a), encode_utf8(a) == encode_utf8(b)
        ensures a == b
    {
        lemma_string_bridge(a); lemma_string_bridge(b);
        lemma_utf8(a); lemma_utf8(b);
        assert(valid_string_id(b));
        assert forall|i: int| 0 <= i < a.len() implies (#[trigger] a[i] as u32) < 128 by { assert(ok_char(a[i])); }
        assert forall|i: int| 0 <= i < b.len() implies (#[trigger] b[i] as u32) < 128 by { assert(ok_char(b[i])); }
        assert(ascii_bytes(a) == ascii_bytes(b));
        assert(a.len() == b.len());
        assert forall|i: int| 0 <= i < a.len() implies a[i] == b[i] by {
            assert(ascii_bytes(a)[i] == ascii_bytes(b)[i]);
            assert((a[i] as u32) < 128 && (b[i] as u32) < 128);
        }
        assert(a =~= b);
    }

    impl NonFungibleLocalId {
        /*@fn radix-common/src/data/scrypto/model/non_fungible_local_id.rs :: impl NonFungibleLocalId :: fn decode_body_common
        @subst <<u64::from_be_bytes(>> => <<u64_from_be_bytes(>> why: Verus cannot give `u64::from_be_bytes` a specification (anonymous-const array length); env::u64_from_be_bytes is the same call with the std contract (big endian)
        @closure 1 := |_e: core::str::Utf8Error| -> (r: DecodeError) ensures r == DecodeError::InvalidCustomValue
        @closure 2 := |_e: ContentValidationError| -> (r: DecodeError) ensures r == DecodeError::InvalidCustomValue
        @closure 3 := |_e: ContentValidationError| -> (r: DecodeError) ensures r == DecodeError::InvalidCustomValue
        @sig
            requires wf_at(old(decoder).input(), old(decoder).pos())
            ensures
                final(decoder).input() == old(decoder).input(), wf_at(final(decoder).input(), final(decoder).pos()),
                // accepted ==> a VALID id, and the bytes consumed are exactly its own encoding (unique encoding)
                ret matches Ok(id) ==> wf(id) && shape(view_of(id), old(decoder).input(), old(decoder).pos())
                    && final(decoder).pos() == old(decoder).pos() + enc(view_of(id)).len(),
                // round trip: an input that starts with the encoding of a valid id decodes to that id
                forall|v: IdView| valid_id(v) && #[trigger] shape(v, old(decoder).input(), old(decoder).pos())
                    ==> (ret matches Ok(id) && view_of(id) == v),
        @entry
            let ghost inp = decoder.input();
            let ghost p0 = decoder.pos();
            proof {
                assert forall|sq: Seq<u8>| sq.len() == 8 implies be8(#[trigger] be_val(sq)) == sq by { lemma_be_inj(sq); }
                assert forall|n: u64| be_val(#[trigger] be8(n)) == n && be8(n).len() == 8 by { lemma_be_round(n); }
                assert forall|a: Seq<char>, b: Seq<char>| valid_string_id(a) && #[trigger] encode_utf8(a) == #[trigger] encode_utf8(b) implies a == b by { lemma_utf8_inj_valid(a, b); }
                assert forall|a: Seq<char>| valid_string_bytes(#[trigger] encode_utf8(a)) == valid_string_id(a) by { lemma_string_bridge(a); }
            }
        @*/
    }

    /// COROLLARY (binary round trip, stated on sequences): whatever a correct encoder wrote for a valid id,
    /// followed by anything, has the shape the decoder contract needs -- so decode(encode(id) ++ tail) == id.
    pub proof fn theorem_binary_round_trip(v: IdView, before: Seq<u8>, tail: Seq<u8>)
        requires valid_id(v)
        ensures shape(v, before + enc(v) + tail, before.len() as int)
    {
        let input = before + enc(v) + tail;
        let p = before.len() as int;
        assert(is_prefix(enc(v), rest_of(input, p))) by {
            assert forall|j: int| 0 <= j < enc(v).len() implies enc(v)[j] == rest_of(input, p)[j] by { }
        }
        lemma_enc_shape(v, input, p);
    }

    // =============================================================================================
    // ADDRESSES (radix-common/src/address): the glue around the third-party Bech32m codec.
    // The codec itself (bech32 crate, and encoder.rs :: bech32_encode_to_fmt / bech32_check_hrp, copied
    // from that crate) is an UNINTERPRETED model in env::bech32; what is proved is what the repository's
    // own code adds: variant check, entity-type byte check, and the network (HRP) check.
    // =============================================================================================
    use super::env::bech32::{self, FromBase32, ToBase32, Variant};
    use super::env::fmt;
    /// strum `FromRepr` derive (macro-generated, cannot be extracted): modelled by env::spec_from_repr
    impl EntityType {
        #[verifier::external_body]
        pub fn from_repr(discriminant: u8) -> (r: Option<EntityType>)
            ensures r == spec_from_repr(discriminant)
        { unimplemented!() }
    }
    /*@item radix-common/src/address/hrpset.rs :: struct HrpSet
    @derive
    @*/
    /*@item radix-common/src/address/errors.rs :: enum AddressBech32EncodeError
    @derive
    @*/
    /*@item radix-common/src/address/errors.rs :: enum AddressBech32DecodeError
    @derive
    @*/
    /*@item radix-common/src/address/decoder.rs :: struct AddressBech32Decoder
    @derive
    @*/
    /*@item radix-common/src/address/encoder.rs :: struct AddressBech32Encoder
    @derive
    @*/

    /// ORACLE: which human-readable part an entity type carries on a network (REP-60 / REP-71 families)
    pub open spec fn hrp_of(h: HrpSet, e: EntityType) -> Seq<char> {
        match e {
            EntityType::GlobalPackage => h.package@,
            EntityType::GlobalFungibleResourceManager | EntityType::GlobalNonFungibleResourceManager => h.resource@,
            EntityType::GlobalGenericComponent => h.component@,
            EntityType::GlobalAccount | EntityType::GlobalPreallocatedSecp256k1Account | EntityType::GlobalPreallocatedEd25519Account => h.account@,
            EntityType::GlobalIdentity | EntityType::GlobalPreallocatedSecp256k1Identity | EntityType::GlobalPreallocatedEd25519Identity => h.identity@,
            EntityType::GlobalConsensusManager => h.consensus_manager@,
            EntityType::GlobalValidator => h.validator@,
            EntityType::GlobalAccessController => h.access_controller@,
            EntityType::GlobalOneResourcePool | EntityType::GlobalTwoResourcePool | EntityType::GlobalMultiResourcePool => h.pool@,
            EntityType::GlobalAccountLocker => h.locker@,
            EntityType::GlobalTransactionTracker => h.transaction_tracker@,
            EntityType::InternalFungibleVault | EntityType::InternalNonFungibleVault => h.internal_vault@,
            EntityType::InternalGenericComponent => h.internal_component@,
            EntityType::InternalKeyValueStore => h.internal_key_value_store@,
        }
    }
    /// ORACLE: the texts a network's decoder accepts, and what they denote
    pub open spec fn accepts(h: HrpSet, text: Seq<char>) -> Option<(EntityType, Seq<u8>)> {
        match bech32::spec_decode(text) {
            Some((hrp, d5, Variant::Bech32m)) => match bech32::spec_from_base32(d5) {
                Some(data) => if data.len() == 0 { None } else {
                    match spec_from_repr(data[0]) {
                        Some(e) => if hrp == hrp_of(h, e) { Some((e, data)) } else { None },
                        None => None,
                    }
                },
                None => None,
            },
            _ => None,
        }
    }

    impl HrpSet {
        /*@fn radix-common/src/address/hrpset.rs :: impl HrpSet :: fn get_entity_hrp
        @sig
            ensures ret@ == hrp_of(*self, *entity)
        @*/
    }
    impl AddressBech32Decoder {
        /*@fn radix-common/src/address/decoder.rs :: impl AddressBech32Decoder :: fn validate_and_decode_ignore_hrp
        @subst <<.map_err(AddressBech32DecodeError::Bech32mDecodingError)>> => <<.map_err(|e: bech32::Error| -> (r: AddressBech32DecodeError) ensures r == AddressBech32DecodeError::Bech32mDecodingError(e) { AddressBech32DecodeError::Bech32mDecodingError(e) })>> x2 why: Verus rejects a tuple-variant constructor used as a function value; eta-expanded to the closure it denotes
        @sig
            ensures
                ret matches Ok(t) ==> (exists|d5: Seq<bech32::u5>| bech32::spec_decode(address@) == Some((t.0@, d5, Variant::Bech32m))
                        && bech32::spec_from_base32(d5) == Some(t.2@))
                    && t.2@.len() > 0 && spec_from_repr(t.2@[0]) == Some(t.1),
                ret is Err ==> forall|h: HrpSet| accepts(h, address@) is None,
        @*/
        /*@fn radix-common/src/address/decoder.rs :: impl AddressBech32Decoder :: fn validate_and_decode
        @sig
            ensures
                ret matches Ok(t) ==> accepts(self.hrp_set, address@) == Some((t.0, t.1@)),
                ret is Err ==> accepts(self.hrp_set, address@) is None,
        @*/
    }
    impl AddressBech32Encoder {
        /*@fn radix-common/src/address/encoder.rs :: impl AddressBech32Encoder :: fn encode
        @sig
            ensures
                ret matches Ok(text) ==> full_data@.len() > 0 && (spec_from_repr(full_data@[0]) matches Some(e)
                    && bech32::spec_encode(hrp_of(self.hrp_set, e), bech32::spec_to_base32(full_data@), Variant::Bech32m) == Some(text@)),
                full_data@.len() == 0 ==> ret is Err,
                full_data@.len() > 0 && spec_from_repr(full_data@[0]) is None ==> ret is Err,
        @*/
        /*@fn radix-common/src/address/encoder.rs :: impl AddressBech32Encoder :: fn encode_to_fmt
        @closure 1 := || -> (r: AddressBech32EncodeError) ensures r == AddressBech32EncodeError::InvalidEntityTypeId(full_data@[0])
        @sig
            ensures
                ret is Ok ==> full_data@.len() > 0 && (spec_from_repr(full_data@[0]) matches Some(e)
                    && (bech32::spec_encode(hrp_of(self.hrp_set, e), bech32::spec_to_base32(full_data@), Variant::Bech32m) matches Some(t)
                    && final(fmt).text() == old(fmt).text() + t)),
                full_data@.len() == 0 ==> ret == Err::<(), AddressBech32EncodeError>(AddressBech32EncodeError::MissingEntityTypeByte),
                full_data@.len() > 0 && spec_from_repr(full_data@[0]) is None
                    ==> ret == Err::<(), AddressBech32EncodeError>(AddressBech32EncodeError::InvalidEntityTypeId(full_data@[0])),
        @*/
    }

    /// COROLLARY (address round trip and network binding), relative to the codec laws of the bech32 crate which
    /// appear here as HYPOTHESES (they are not proved): if `text` is what the codec produces for (hrp, data) and
    /// the codec reads it back, then the decoder of the SAME network returns (entity type, data), and the decoder
    /// of any network whose HRP for that entity type differs rejects the text.
    pub proof fn theorem_address_round_trip(h: HrpSet, other: HrpSet, data: Seq<u8>, e: EntityType, text: Seq<char>)
        requires
            data.len() > 0, spec_from_repr(data[0]) == Some(e),
            bech32::spec_encode(hrp_of(h, e), bech32::spec_to_base32(data), Variant::Bech32m) == Some(text),
            // codec laws (assumed of the third-party crate for this text)
            bech32::spec_decode(text) == Some((hrp_of(h, e), bech32::spec_to_base32(data), Variant::Bech32m)),
            bech32::spec_from_base32(bech32::spec_to_base32(data)) == Some(data),
        ensures
            accepts(h, text) == Some((e, data)),
            hrp_of(other, e) != hrp_of(h, e) ==> accepts(other, text) is None,
    {
    }

    // =============================================================================================
    // TEXT PARSER: impl FromStr for NonFungibleLocalId -- panic-freedom for EVERY &str, accepted ==> valid id
    // =============================================================================================
    /*@item radix-common/src/data/scrypto/model/non_fungible_local_id.rs :: enum ParseNonFungibleLocalIdError
    @derive
    @*/
    /// the UTF-8 image of a prefix ends on a character boundary of the whole image (so `&s[a..b]` cannot panic there)
    pub proof fn lemma_boundary_concat(a: Seq<char>, b: Seq<char>)
        ensures
            encode_utf8(a + b) == encode_utf8(a) + encode_utf8(b),
            valid_utf8(encode_utf8(a + b)),
            is_char_boundary(encode_utf8(a + b), encode_utf8(a).len() as int),
    {
        encode_utf8_concat(a, b);
        encode_utf8_valid_utf8(a + b);
        let bytes = encode_utf8(a + b);
        let k = encode_utf8(a).len() as int;
        is_char_boundary_start_end_of_seq(bytes);
        if b.len() > 0 {
            let c = b[0];
            lemma_scalar(c);
            let h = encode_scalar(c as u32);
            assert(encode_utf8(b) == h + encode_utf8(b.drop_first()));
            assert(bytes[k] == h[0]);
            let x = h[0];
            assert(x < 128 || x >= 0xC0);
            assert(!is_continuation_byte(x)) by {
                assert(x < 128 || x >= 0xC0 ==> (x & 0xC0) != 0x80) by (bit_vector);
            }
            is_char_boundary_iff_not_is_continuation_byte(bytes, k);
        } else {
            assert(encode_utf8(b).len() == 0);
        }
    }
    /// a text whose first and last characters are ASCII and that has at least two characters can be sliced
    /// at byte offsets 1 and len - 1, and the slice is the text without those two characters
    pub proof fn lemma_inner_slice(s: Seq<char>)
        requires s.len() >= 2, (s[0] as u32) < 128, (s.last() as u32) < 128
        ensures
            encode_utf8(s).len() >= 2,
            is_char_boundary(encode_utf8(s), 1),
            is_char_boundary(encode_utf8(s), encode_utf8(s).len() - 1),
            encode_utf8(s).subrange(1, encode_utf8(s).len() - 1) == encode_utf8(s.subrange(1, s.len() - 1)),
    {
        let n = s.len() as int;
        let first = seq![s[0]]; let mid = s.subrange(1, n - 1); let last = seq![s.last()];
        assert(s =~= first + (mid + last));
        assert(s =~= (first + mid) + last);
        lemma_scalar(s[0]); lemma_scalar(s.last());
        assert(encode_utf8(first) =~= seq![s[0] as u8]) by { assert(first.drop_first() =~= Seq::<char>::empty()); assert(encode_utf8(first.drop_first()).len() == 0); }
        assert(encode_utf8(last) =~= seq![s.last() as u8]) by { assert(last.drop_first() =~= Seq::<char>::empty()); assert(encode_utf8(last.drop_first()).len() == 0); }
        lemma_boundary_concat(first, mid + last);
        lemma_boundary_concat(first + mid, last);
        lemma_boundary_concat(first, mid);
        lemma_boundary_concat(mid, last);
        let b = encode_utf8(s);
        assert(b == encode_utf8(first) + encode_utf8(mid) + encode_utf8(last));
        assert(b.subrange(1, b.len() - 1) =~= encode_utf8(mid));
    }

    impl core::str::FromStr for NonFungibleLocalId {
        type Err = ParseNonFungibleLocalIdError;
        /*@fn radix-common/src/data/scrypto/model/non_fungible_local_id.rs :: impl FromStr for NonFungibleLocalId :: fn from_str
        @subst <<.map_err(ParseNonFungibleLocalIdError::ContentValidationError)>> => <<.map_err(|e: ContentValidationError| -> (r: ParseNonFungibleLocalIdError) ensures r == ParseNonFungibleLocalIdError::ContentValidationError(e) { ParseNonFungibleLocalIdError::ContentValidationError(e) })>> x2 why: Verus rejects a tuple-variant constructor used as a function value; eta-expanded to the closure it denotes
        @subst <<chars.into_iter().filter(|c| *c != '-').collect()>> => <<collect_without_hyphens(chars)>> why: Verus has no iterator adapters (filter/collect); env::collect_without_hyphens is the same computation (keep every character that is not '-') as one call
        @subst <<.try_into()>> => <<.try_into_array32()>> why: vstd's specification of the blanket TryInto::try_into cannot be connected to std's `impl TryFrom<Vec<T>> for [T; N]`; env::VecIntoArray32::try_into_array32 is that conversion with its documented contract (Ok <==> len == 32), so the following `.unwrap()` stays a real proof obligation
        @closure 1 := |_e: core::num::ParseIntError| -> (r: ParseNonFungibleLocalIdError) ensures r == ParseNonFungibleLocalIdError::InvalidInteger
        @closure 2 := |_e: hex::FromHexError| -> (r: ParseNonFungibleLocalIdError) ensures r == ParseNonFungibleLocalIdError::InvalidBytes
        @closure 4 := |_e: hex::FromHexError| -> (r: ParseNonFungibleLocalIdError) ensures r == ParseNonFungibleLocalIdError::InvalidRUID
        @sig
            ensures
                // (no precondition: every &str) never panics; accepted ==> a VALID id, and the text has at least two
                // characters and is bracketed by the pair of the id's kind. What the INNER text must be is not stated
                // here: this vstd gives `&s[a..b]` on str a precondition (char boundaries) but no usable postcondition.
                ret matches Ok(id) ==> wf(id) && s@.len() >= 2 && (match view_of(id) {
                    IdView::String(_) => s@[0] == '<' && s@.last() == '>',
                    IdView::Integer(_) => s@[0] == '#' && s@.last() == '#',
                    IdView::Bytes(_) => s@[0] == '[' && s@.last() == ']',
                    IdView::RUID(_) => s@[0] == '{' && s@.last() == '}',
                }),
        @entry
            proof {
                if s@.len() >= 2 && (s@[0] as u32) < 128 && (s@.last() as u32) < 128 { lemma_inner_slice(s@); }
                assert(s.spec_bytes() == encode_utf8(s@));
                // a one-character text with an ASCII character is one byte long (`s.len() > 1` then means two characters)
                if s@.len() == 1 { lemma_scalar(s@[0]); assert(s@.drop_first() =~= Seq::<char>::empty()); assert(encode_utf8(s@.drop_first()).len() == 0); }
                assert(('<' as u32) < 128 && ('>' as u32) < 128 && ('#' as u32) < 128 && ('[' as u32) < 128 && (']' as u32) < 128 && ('{' as u32) < 128 && ('}' as u32) < 128);
            }
        @*/
    }
}
} // verus!
fn main() {}
