// Unit c29_calendar -- property C29 "Calendar time conversions are correct and invertible"
// Real code (all bodies extracted verbatim on every run):
//   radix-common/src/time/utc_date_time.rs :: UtcDateTime::{new, from_instant, to_instant, is_leap_year,
//       num_leap_years_up_to_exclusive, year/month/day_of_month/hour/minute/second,
//       add_days/add_hours/add_minutes/add_seconds}, `From<UtcDateTime> for Instant :: from`
//   radix-common/src/time/instant.rs :: Instant::{new, compare, add_days, add_hours, add_minutes, add_seconds}
//   constants: SECONDS_IN_*, DAYS_PER_*, SHIFT_FROM_UNIX_TIME_TO_MARCH_Y2K, MIN/MAX_SUPPORTED_TIMESTAMP,
//       LEAP_YEAR_DAYS_IN_MONTHS (re-read from /repo; their values are checked against the oracle)
// Not in this unit: FromStr / Display (string processing; bounded Kani harness), `TryFrom<Instant> for
//   UtcDateTime :: try_from` (one-line wrapper of from_instant; `Self::Error` needs the trait impl),
//   derived PartialOrd/Ord/Decode on UtcDateTime.
// Trusted std contracts: vstd's own specs for u32::is_multiple_of, RangeInclusive::contains,
//   {u32,u8}::try_from, Result::{unwrap, ok}, Option::{and_then, map}, i64::{checked_mul, checked_add};
//   plus ONE assumed spec of this framework: shims/slice_rotate.rs (`<[T]>::rotate_left`).
use vstd::prelude::*;
verus! {
/*@include shims/rt.rs @*/
/*@include shims/slice_rotate.rs @*/

pub mod env {
    use vstd::prelude::*;
    /*@item radix-common/src/time/constants.rs :: const SECONDS_IN_A_MINUTE
    @*/
    /*@item radix-common/src/time/constants.rs :: const SECONDS_IN_AN_HOUR
    @*/
    /*@item radix-common/src/time/constants.rs :: const SECONDS_IN_A_DAY
    @*/
}

pub mod unit {
    use vstd::prelude::*;
    use super::rt::*;
    use super::env::*;
    use super::slice_rotate::*;

    /*@item radix-common/src/time/utc_date_time.rs :: const UNIX_EPOCH_YEAR
    @*/
    /*@item radix-common/src/time/utc_date_time.rs :: const SECONDS_IN_A_NON_LEAP_YEAR
    @*/
    /*@item radix-common/src/time/utc_date_time.rs :: const SECONDS_IN_A_LEAP_YEAR
    @*/
    /*@item radix-common/src/time/utc_date_time.rs :: const LEAP_YEAR_DAYS_IN_MONTHS
    @*/
    /*@item radix-common/src/time/utc_date_time.rs :: const DAYS_PER_4Y
    @*/
    /*@item radix-common/src/time/utc_date_time.rs :: const DAYS_PER_100Y
    @*/
    /*@item radix-common/src/time/utc_date_time.rs :: const DAYS_PER_400Y
    @*/
    /*@item radix-common/src/time/utc_date_time.rs :: const SHIFT_FROM_UNIX_TIME_TO_MARCH_Y2K
    @*/
    /*@item radix-common/src/time/utc_date_time.rs :: const MIN_SUPPORTED_TIMESTAMP
    @*/
    /*@item radix-common/src/time/utc_date_time.rs :: const MAX_SUPPORTED_TIMESTAMP
    @*/
    /*@item radix-common/src/time/utc_date_time.rs :: struct UtcDateTime
    @derive Clone, Copy, PartialEq, Eq
    @*/
    /*@item radix-common/src/time/utc_date_time.rs :: enum DateTimeError
    @derive Clone, Copy, PartialEq, Eq
    @*/
    /*@item radix-common/src/time/instant.rs :: struct Instant
    @derive Clone, Copy, PartialEq, Eq
    @*/
    /*@item radix-common/src/time/instant.rs :: enum TimeComparisonOperator
    @derive Clone, Copy, PartialEq, Eq
    @*/

    // ------------------------------------------------------------------------------------------
    // ORACLE, from the property statement (proleptic Gregorian calendar, days-from-civil):
    //   * year y is leap  <=>  4 | y and (100 !| y or 400 | y)
    //   * month lengths 31,28/29,31,30,31,30,31,31,30,31,30,31
    //   * days_before_year(1) == 0 and days_before_year(y+1) == days_before_year(y) + 365/366
    //     (closed form below; lemma_days_before_year_rule shows it satisfies exactly this rule)
    //   * secs_from_civil = 86400 * (days since 1970-01-01) + 3600 h + 60 mi + s
    // ------------------------------------------------------------------------------------------
    #[verifier::opaque]
    pub open spec fn leap(y: int) -> bool { y % 4 == 0 && (y % 100 != 0 || y % 400 == 0) }
    pub open spec fn dim(y: int, m: int) -> int {
        if m == 2 { if leap(y) { 29 } else { 28 } } else if m == 4 || m == 6 || m == 9 || m == 11 { 30 } else { 31 }
    }
    pub open spec fn days_in_year(y: int) -> int { if leap(y) { 366 } else { 365 } }
    pub open spec fn days_before_month(y: int, m: int) -> int
        decreases m
    {
        if m <= 1 { 0 } else { days_before_month(y, m - 1) + dim(y, m - 1) }
    }
    /// number of leap years in [1, y)
    #[verifier::opaque]
    pub open spec fn leaps_before(y: int) -> int { (y - 1) / 4 - (y - 1) / 100 + (y - 1) / 400 }
    /// days from 0001-01-01 to y-01-01
    pub open spec fn days_before_year(y: int) -> int { 365 * (y - 1) + leaps_before(y) }
    pub open spec fn days_from_civil(y: int, m: int, d: int) -> int {
        days_before_year(y) + days_before_month(y, m) + (d - 1) - days_before_year(1970)
    }
    pub open spec fn secs_from_civil(y: int, m: int, d: int, h: int, mi: int, s: int) -> int {
        days_from_civil(y, m, d) * 86400 + h * 3600 + mi * 60 + s
    }
    pub open spec fn valid_civil(y: int, m: int, d: int, h: int, mi: int, s: int) -> bool {
        1 <= y <= u32::MAX && 1 <= m <= 12 && 1 <= d <= dim(y, m) && 0 <= h <= 23 && 0 <= mi <= 59 && 0 <= s <= 59
    }
    pub open spec fn valid(dt: UtcDateTime) -> bool {
        valid_civil(dt.year as int, dt.month as int, dt.day_of_month as int, dt.hour as int, dt.minute as int, dt.second as int)
    }
    pub open spec fn secs(dt: UtcDateTime) -> int {
        secs_from_civil(dt.year as int, dt.month as int, dt.day_of_month as int, dt.hour as int, dt.minute as int, dt.second as int)
    }
    /// the error `new` must report: the first offending component in the order y, m, d, h, mi, s
    pub open spec fn first_error(y: int, m: int, d: int, h: int, mi: int, s: int) -> Option<DateTimeError> {
        if y == 0 { Some(DateTimeError::InvalidYear) }
        else if !(1 <= m <= 12) { Some(DateTimeError::InvalidMonth) }
        else if !(1 <= d <= dim(y, m)) { Some(DateTimeError::InvalidDayOfMonth) }
        else if h > 23 { Some(DateTimeError::InvalidHour) }
        else if mi > 59 { Some(DateTimeError::InvalidMinute) }
        else if s > 59 { Some(DateTimeError::InvalidSecond) }
        else { None }
    }

    /// the closed form is THE Gregorian year rule: starts at 0 and grows by 365 / 366 (leap)
    pub proof fn lemma_days_before_year_rule(y: int)
        ensures days_before_year(1) == 0,
                days_before_year(y + 1) == days_before_year(y) + days_in_year(y),
    {
        assert(days_before_year(1) == 0) by { reveal(leaps_before); }
        let d4 = y / 4 - (y - 1) / 4; let d100 = y / 100 - (y - 1) / 100; let d400 = y / 400 - (y - 1) / 400;
        assert(d4 == (if y % 4 == 0 { 1int } else { 0 }));
        assert(d100 == (if y % 100 == 0 { 1int } else { 0 }));
        assert(d400 == (if y % 400 == 0 { 1int } else { 0 }));
        assert(y % 100 == 0 ==> y % 4 == 0);
        assert(y % 400 == 0 ==> y % 100 == 0);
        assert(leaps_before(y + 1) - leaps_before(y) == d4 - d100 + d400) by { reveal(leaps_before); }
        assert(leap(y) <==> d4 - d100 + d400 == 1) by { reveal(leap); }
        assert(!leap(y) <==> d4 - d100 + d400 == 0) by { reveal(leap); }
    }
    /// facts about the (opaque) leap-year count that the conversion code relies on
    pub proof fn lemma_leaps_facts(y: int)
        ensures
            leaps_before(1970) == 477, leaps_before(1971) == 477, days_before_year(1970) == 719162,
            y >= 1970 ==> 0 <= leaps_before(y) - 477 <= y - 1970,
            1 <= y < 1970 ==> 0 <= 477 - leaps_before(y + 1) <= 1970 - y - 1,
    {
        reveal(leaps_before);
    }
    pub proof fn lemma_days_before_month_table(y: int)
        ensures
            days_before_month(y, 1) == 0, days_before_month(y, 2) == 31,
            days_before_month(y, 3) == 59 + (if leap(y) { 1int } else { 0 }),
            days_before_month(y, 4) == 90 + (if leap(y) { 1int } else { 0 }),
            days_before_month(y, 5) == 120 + (if leap(y) { 1int } else { 0 }),
            days_before_month(y, 6) == 151 + (if leap(y) { 1int } else { 0 }),
            days_before_month(y, 7) == 181 + (if leap(y) { 1int } else { 0 }),
            days_before_month(y, 8) == 212 + (if leap(y) { 1int } else { 0 }),
            days_before_month(y, 9) == 243 + (if leap(y) { 1int } else { 0 }),
            days_before_month(y, 10) == 273 + (if leap(y) { 1int } else { 0 }),
            days_before_month(y, 11) == 304 + (if leap(y) { 1int } else { 0 }),
            days_before_month(y, 12) == 334 + (if leap(y) { 1int } else { 0 }),
            days_before_month(y, 13) == days_in_year(y),
    {
        reveal_with_fuel(days_before_month, 14);
    }

    pub proof fn lemma_year_length(y: int)
        ensures days_before_month(y, 13) == days_in_year(y)
    {
        lemma_days_before_month_table(y);
    }


    // ---- oracle for Instant arithmetic / comparison: plain integer arithmetic on the timestamp,
    //      None exactly when the mathematical result does not fit the i64 representation
    //      (for a step s > 1, `delta` = n*s overflowing i64 implies the sum overflows as well,
    //       see lemma_instant_plus_none)
    pub open spec fn instant_plus(i: Instant, delta: int) -> Option<Instant> {
        if i64::MIN <= delta <= i64::MAX && i64::MIN <= i.seconds_since_unix_epoch + delta <= i64::MAX {
            Some(Instant { seconds_since_unix_epoch: (i.seconds_since_unix_epoch + delta) as i64 })
        } else { None }
    }
    pub open spec fn cmp_spec(a: int, b: int, op: TimeComparisonOperator) -> bool {
        match op {
            TimeComparisonOperator::Eq => a == b,
            TimeComparisonOperator::Lt => a < b,
            TimeComparisonOperator::Lte => a <= b,
            TimeComparisonOperator::Gt => a > b,
            TimeComparisonOperator::Gte => a >= b,
        }
    }

    // ---- lemmas for from_instant (era decomposition relative to 2000-03-01) -----------------
    /// cumulative month lengths of a year that starts on 1 March (Mar, Apr, ..., Jan, Feb)
    pub open spec fn march_prefix(k: int) -> int {
        if k <= 0 { 0 } else if k == 1 { 31 } else if k == 2 { 61 } else if k == 3 { 92 } else if k == 4 { 122 }
        else if k == 5 { 153 } else if k == 6 { 184 } else if k == 7 { 214 } else if k == 8 { 245 }
        else if k == 9 { 275 } else if k == 10 { 306 } else if k == 11 { 337 } else { 366 }
    }
    pub open spec fn march_dims() -> Seq<u8> { seq![31u8, 30, 31, 30, 31, 31, 30, 31, 30, 31, 31, 29] }

    /// 400/100/4/1-year cycle digits (a, b, c, e) of a March-based year yp = 2000+400a+100b+4c+e:
    /// day count to the next 1 January and leap status of the following calendar year
    pub proof fn lemma_cycle(yp: int, a: int, b: int, c: int, e: int)
        requires 0 <= b <= 3, 0 <= c <= 24, 0 <= e <= 3, yp == 2000 + 400 * a + 100 * b + 4 * c + e
        ensures
            days_before_year(yp + 1) - 730485 == 146097 * a + 36524 * b + 1461 * c + 365 * e,
            leap(yp + 1) <==> (e == 3 && (c != 24 || b == 3)),
    {
        assert(yp / 4 == 500 + 100 * a + 25 * b + c && yp % 4 == e);
        assert(yp / 100 == 20 + 4 * a + b && yp % 100 == 4 * c + e);
        assert(yp / 400 == 5 + a && yp % 400 == 100 * b + 4 * c + e);
        assert(leaps_before(yp + 1) == 485 + 97 * a + 24 * b + c) by { reveal(leaps_before); }
        assert(leap(yp + 1) <==> (e == 3 && (c != 24 || b == 3))) by { reveal(leap); }
    }
    /// position (k-th month counted from March, rem days into it) inside March-year yp -> civil date
    pub proof fn lemma_march_month(yp: int, k: int, rem: int)
        requires 0 <= k <= 11, 0 <= rem < march_dims()[k], (k == 11 && !leap(yp + 1)) ==> rem < 28
        ensures ({
            let y = if k >= 10 { yp + 1 } else { yp };
            let m = if k >= 10 { k - 9 } else { k + 3 };
            1 <= m <= 12 && 1 <= rem + 1 <= dim(y, m)
            && days_before_year(y) + days_before_month(y, m) + rem == days_before_year(yp + 1) - 306 + march_prefix(k) + rem
        })
    {
        lemma_days_before_month_table(yp); lemma_days_before_month_table(yp + 1); lemma_days_before_year_rule(yp);
    }
    pub proof fn lemma_hms(rs: int)
        requires 0 <= rs < 86400
        ensures (rs / 3600) * 3600 + (rs / 60 % 60) * 60 + rs % 60 == rs,
                0 <= rs / 3600 <= 23, 0 <= rs / 60 % 60 <= 59, 0 <= rs % 60 <= 59,
    {}
    pub proof fn lemma_days_before_year_monotone(y1: int, y2: int)
        requires y1 <= y2
        ensures days_before_year(y2) - days_before_year(y1) >= 365 * (y2 - y1)
        decreases y2 - y1
    {
        if y1 < y2 { lemma_days_before_year_monotone(y1, y2 - 1); lemma_days_before_year_rule(y2 - 1); }
    }
    pub proof fn lemma_day_of_year_range(y: int, m: int, d: int)
        requires 1 <= m <= 12, 1 <= d <= dim(y, m)
        ensures 0 <= days_before_month(y, m) + d - 1 < days_in_year(y)
    {
        lemma_days_before_month_table(y);
    }
    /// a date outside years 1..=u32::MAX lies outside the supported day range
    pub proof fn lemma_year_range(y: int, m: int, d: int)
        requires 1 <= m <= 12, 1 <= d <= dim(y, m)
        ensures y <= 0 ==> days_from_civil(y, m, d) < -719162,
                y >= 0x1_0000_0000 ==> days_from_civil(y, m, d) >= 1568703873082,
                -719162 <= days_from_civil(y, m, d) <= 1568703873081 ==> 1 <= y <= u32::MAX,
    {
        lemma_day_of_year_range(y, m, d);
        lemma_leaps_facts(y);
        reveal(leaps_before);
        assert(days_before_year(1) == 0);
        assert(days_before_year(0x1_0000_0000) == 1568704592244);
        if y <= 0 { lemma_days_before_year_monotone(y + 1, 1); lemma_days_before_year_rule(y); }
        if y >= 0x1_0000_0000 { lemma_days_before_year_monotone(0x1_0000_0000, y); }
    }
    /// the documented limits are the first second of 0001-01-01 and the last second of u32::MAX-12-31
    pub open spec fn min_supported() -> int { secs_from_civil(1, 1, 1, 0, 0, 0) }
    pub open spec fn max_supported() -> int { secs_from_civil(u32::MAX as int, 12, 31, 23, 59, 59) }
    pub proof fn lemma_supported_values()
        ensures min_supported() == -62135596800, max_supported() == 135536014634284799,
    {
        reveal(leaps_before); reveal(leap);
        lemma_days_before_month_table(1); lemma_days_before_month_table(u32::MAX as int);
    }
    /// (private: mentions the private constants of utc_date_time.rs, re-read from /repo on every run)
    proof fn lemma_supported_range()
        ensures MIN_SUPPORTED_TIMESTAMP == min_supported(),
                MAX_SUPPORTED_TIMESTAMP == max_supported(),
    {
        reveal(leaps_before); reveal(leap);
        lemma_days_before_month_table(1); lemma_days_before_month_table(u32::MAX as int);
    }

    impl Instant {
        /*@fn radix-common/src/time/instant.rs :: impl Instant :: fn new
        @sig
            ensures ret.seconds_since_unix_epoch == seconds_since_unix_epoch
        @*/
        // trait method `From<UtcDateTime> for Instant :: from`, placed in the inherent impl
        /*@fn radix-common/src/time/utc_date_time.rs :: impl From<UtcDateTime> for Instant :: fn from
        @sig
            requires valid(dt)
            ensures ret.seconds_since_unix_epoch == secs(dt)
        @*/
        /*@fn radix-common/src/time/instant.rs :: impl Instant :: fn compare
        @sig
            ensures ret == cmp_spec(self.seconds_since_unix_epoch as int, other.seconds_since_unix_epoch as int, operator)
        @*/
        /*@fn radix-common/src/time/instant.rs :: impl Instant :: fn add_days
        @sig
            ensures ret == instant_plus(*self, days_to_add * 86400)
        @closure 1 := |to_add: i64| -> (r: Option<i64>) ensures r == (if i64::MIN <= self.seconds_since_unix_epoch + to_add <= i64::MAX { Some((self.seconds_since_unix_epoch + to_add) as i64) } else { None })
        @*/
        /*@fn radix-common/src/time/instant.rs :: impl Instant :: fn add_hours
        @sig
            ensures ret == instant_plus(*self, hours_to_add * 3600)
        @closure 1 := |to_add: i64| -> (r: Option<i64>) ensures r == (if i64::MIN <= self.seconds_since_unix_epoch + to_add <= i64::MAX { Some((self.seconds_since_unix_epoch + to_add) as i64) } else { None })
        @*/
        /*@fn radix-common/src/time/instant.rs :: impl Instant :: fn add_minutes
        @sig
            ensures ret == instant_plus(*self, minutes_to_add * 60)
        @closure 1 := |to_add: i64| -> (r: Option<i64>) ensures r == (if i64::MIN <= self.seconds_since_unix_epoch + to_add <= i64::MAX { Some((self.seconds_since_unix_epoch + to_add) as i64) } else { None })
        @*/
        /*@fn radix-common/src/time/instant.rs :: impl Instant :: fn add_seconds
        @sig
            ensures ret == instant_plus(*self, seconds_to_add as int)
        @*/
    }

    impl UtcDateTime {
        /*@fn radix-common/src/time/utc_date_time.rs :: impl UtcDateTime :: fn num_leap_years_up_to_exclusive
        @sig
            requires year >= 1
            ensures ret == leaps_before(year as int)
        @entry
            proof { reveal(leaps_before); }
        @*/
        /*@fn radix-common/src/time/utc_date_time.rs :: impl UtcDateTime :: fn is_leap_year
        @sig
            ensures ret == leap(year as int)
        @entry
            proof { reveal(leap); }
        @*/
        /*@fn radix-common/src/time/utc_date_time.rs :: impl UtcDateTime :: fn new
        @sig
            ensures
                ret is Ok <==> valid_civil(year as int, month as int, day_of_month as int, hour as int, minute as int, second as int),
                ret matches Ok(dt) ==> dt.year == year && dt.month == month && dt.day_of_month == day_of_month
                    && dt.hour == hour && dt.minute == minute && dt.second == second,
                ret matches Err(e) ==> Some(e) == first_error(year as int, month as int, day_of_month as int, hour as int, minute as int, second as int),
        @*/
        #[verifier::rlimit(60)]
        /*@fn radix-common/src/time/utc_date_time.rs :: impl UtcDateTime :: fn from_instant
        @sig
            ensures
                ret is Ok <==> min_supported() <= instant.seconds_since_unix_epoch <= max_supported(),
                ret matches Ok(dt) ==> valid(dt) && secs(dt) == instant.seconds_since_unix_epoch,
                ret matches Err(e) ==> e == DateTimeError::InstantIsOutOfRange,
        @entry
            proof { lemma_supported_range(); lemma_supported_values(); assert(DAYS_PER_4Y == 1461 && DAYS_PER_100Y == 36524 && DAYS_PER_400Y == 146097 && SHIFT_FROM_UNIX_TIME_TO_MARCH_Y2K == 951868800); assert(SECONDS_IN_A_DAY == 86400 && SECONDS_IN_AN_HOUR == 3600 && SECONDS_IN_A_MINUTE == 60); }
        @before <<let mut num_400_year_cycles>> #1
            let ghost dd = days_since_march_y2k as int;
            let ghost rs = remaining_secs as int;
            assert(instant.seconds_since_unix_epoch == (dd + 11017) * 86400 + rs && 0 <= rs < 86400);
            assert(-730179 <= dd <= 1568703862064);
        @before <<let mut num_100_year_cycles>> #1
            let ghost a = num_400_year_cycles as int;
            let ghost r400 = remaining_days as int;
            assert(dd == 146097 * a + r400 && 0 <= r400 < 146097);
            assert(-5 <= a <= 10737413);
        @before <<let mut num_4_year_cycles>> #1
            let ghost b = num_100_year_cycles as int;
            let ghost r100 = remaining_days as int;
            assert(0 <= b <= 3 && r400 == 36524 * b + r100 && 0 <= r100 <= 36524 && (b < 3 ==> r100 < 36524));
        @before <<let mut remaining_years>> #1
            let ghost c = num_4_year_cycles as int;
            let ghost r4 = remaining_days as int;
            assert(0 <= c <= 24 && r100 == 1461 * c + r4 && 0 <= r4 <= 1460 && ((c == 24 && b < 3) ==> r4 < 1460));
        @before <<let mut year>> #1
            let ghost e = remaining_years as int;
            let ghost rd0 = remaining_days as int;
            assert(0 <= e <= 3 && r4 == 365 * e + rd0 && 0 <= rd0 <= 365 && (rd0 == 365 ==> e == 3));
        @after <<let mut year>> #1
            let ghost yp = year as int;
            proof {
                assert(yp == 2000 + 400 * a + 100 * b + 4 * c + e);
                lemma_cycle(yp, a, b, c, e);
                assert(dd == days_before_year(yp + 1) - 730485 + rd0);
                assert(!leap(yp + 1) ==> rd0 <= 364);
            }
        @after <<rotate_left>> #1
            assert(days_in_months_starting_on_march@ =~= march_dims());
        @loop 1
            invariant
                0 <= month <= 11, 0 <= remaining_days, 0 <= rd0 <= 365,
                remaining_days + march_prefix(month as int) == rd0,
                days_in_months_starting_on_march@ == march_dims(),
            decreases 12 - month
        @before <<month += 2>> #1
            let ghost k = month as int;
            let ghost rem = remaining_days as int;
            proof {
                lemma_march_month(yp, k, rem);
                lemma_leaps_facts(0);
                assert(rd0 == march_prefix(k) + rem);
            }
        @before <<Ok(Self>> #1
            assert(days_from_civil(year as int, month as int, day_of_month as int) == dd + 11017);
            proof { lemma_year_range(year as int, month as int, day_of_month as int); lemma_hms(rs); }
            assert(1 <= year <= u32::MAX);
            assert(hour * 3600 + minute * 60 + second == rs && 0 <= hour <= 23 && 0 <= minute <= 59 && 0 <= second <= 59);
        @*/
        /*@fn radix-common/src/time/utc_date_time.rs :: impl UtcDateTime :: fn to_instant
        @sig
            requires valid(*self)
            ensures ret.seconds_since_unix_epoch == secs(*self)
        @entry
            proof {
                lemma_year_length(self.year as int);
                assert(SECONDS_IN_A_NON_LEAP_YEAR == 31536000 && SECONDS_IN_A_LEAP_YEAR == 31622400);
                assert(SECONDS_IN_A_DAY == 86400 && SECONDS_IN_AN_HOUR == 3600 && SECONDS_IN_A_MINUTE == 60);
                lemma_leaps_facts(self.year as int);
                lemma_days_before_year_rule(self.year as int);
            }
        @after <<let seconds_up_to_the_beginning_of_the_year>> #1
            assert(seconds_up_to_the_beginning_of_the_year == (days_before_year(self.year as int) - days_before_year(1970)) * 86400);
        @after <<let seconds_up_to_the_end_of_the_year>> #1
            assert(seconds_up_to_the_end_of_the_year == (days_before_year(1970) - days_before_year(self.year as int + 1)) * 86400);
        @before <<let remaining_days_in_month>> #1
            assert(curr_month == self.month - 1);
            assert(days_in_month == dim(self.year as int, self.month as int));
            assert(days_before_month(self.year as int, self.month as int + 1) == days_before_month(self.year as int, self.month as int) + dim(self.year as int, self.month as int));
        @loop 1 iter it
                invariant
                    valid(*self), is_leap_year == leap(self.year as int),
                    seconds_in_ended_months == days_before_month(self.year as int, n as int + 1) * 86400,
                    0 <= n <= 11, SECONDS_IN_A_DAY == 86400,
                    0 <= seconds_in_ended_months <= 2678400 * (n as int),
        @loop 2
                invariant
                    valid(*self), is_leap_year == leap(self.year as int),
                    self.month - 1 <= curr_month <= 11, SECONDS_IN_A_DAY == 86400,
                    0 <= seconds_in_non_started_months <= 2678400 * (11 - curr_month as int),
                    seconds_in_non_started_months == (days_before_month(self.year as int, 13) - days_before_month(self.year as int, curr_month as int + 2)) * 86400,
                decreases curr_month
        @*/
        /*@fn radix-common/src/time/utc_date_time.rs :: impl UtcDateTime :: fn year
        @sig
            ensures ret == self.year
        @*/
        /*@fn radix-common/src/time/utc_date_time.rs :: impl UtcDateTime :: fn month
        @sig
            ensures ret == self.month
        @*/
        /*@fn radix-common/src/time/utc_date_time.rs :: impl UtcDateTime :: fn day_of_month
        @sig
            ensures ret == self.day_of_month
        @*/
        /*@fn radix-common/src/time/utc_date_time.rs :: impl UtcDateTime :: fn hour
        @sig
            ensures ret == self.hour
        @*/
        /*@fn radix-common/src/time/utc_date_time.rs :: impl UtcDateTime :: fn minute
        @sig
            ensures ret == self.minute
        @*/
        /*@fn radix-common/src/time/utc_date_time.rs :: impl UtcDateTime :: fn second
        @sig
            ensures ret == self.second
        @*/
        /*@fn radix-common/src/time/utc_date_time.rs :: impl UtcDateTime :: fn add_days
        @sig
            requires valid(*self)
            ensures date_time_plus(*self, days_to_add * 86400, ret)
        @entry
            proof { lemma_secs_range(*self); lemma_supported_values(); }
        @closure 1 := |i: Instant| -> (r: Option<UtcDateTime>) ensures (r is Some <==> min_supported() <= i.seconds_since_unix_epoch <= max_supported()), (r matches Some(d) ==> valid(d) && secs(d) == i.seconds_since_unix_epoch)
        @*/
        /*@fn radix-common/src/time/utc_date_time.rs :: impl UtcDateTime :: fn add_hours
        @sig
            requires valid(*self)
            ensures date_time_plus(*self, hours_to_add * 3600, ret)
        @entry
            proof { lemma_secs_range(*self); lemma_supported_values(); }
        @closure 1 := |i: Instant| -> (r: Option<UtcDateTime>) ensures (r is Some <==> min_supported() <= i.seconds_since_unix_epoch <= max_supported()), (r matches Some(d) ==> valid(d) && secs(d) == i.seconds_since_unix_epoch)
        @*/
        /*@fn radix-common/src/time/utc_date_time.rs :: impl UtcDateTime :: fn add_minutes
        @sig
            requires valid(*self)
            ensures date_time_plus(*self, minutes_to_add * 60, ret)
        @entry
            proof { lemma_secs_range(*self); lemma_supported_values(); }
        @closure 1 := |i: Instant| -> (r: Option<UtcDateTime>) ensures (r is Some <==> min_supported() <= i.seconds_since_unix_epoch <= max_supported()), (r matches Some(d) ==> valid(d) && secs(d) == i.seconds_since_unix_epoch)
        @*/
        /*@fn radix-common/src/time/utc_date_time.rs :: impl UtcDateTime :: fn add_seconds
        @sig
            requires valid(*self)
            ensures date_time_plus(*self, seconds_to_add * 1, ret)
        @entry
            proof { lemma_secs_range(*self); lemma_supported_values(); }
        @closure 1 := |i: Instant| -> (r: Option<UtcDateTime>) ensures (r is Some <==> min_supported() <= i.seconds_since_unix_epoch <= max_supported()), (r matches Some(d) ==> valid(d) && secs(d) == i.seconds_since_unix_epoch)
        @*/
    }

    // ---- corollaries of the contracts (property: invertible, strictly increasing) ------------
    /// lexicographic order on (year, month, day, hour, minute, second) -- the calendar order
    pub open spec fn lex_lt(a: UtcDateTime, b: UtcDateTime) -> bool {
        a.year < b.year || (a.year == b.year && (a.month < b.month || (a.month == b.month && (
        a.day_of_month < b.day_of_month || (a.day_of_month == b.day_of_month && (
        a.hour < b.hour || (a.hour == b.hour && (a.minute < b.minute || (a.minute == b.minute && a.second < b.second)))))))))
    }
    pub proof fn lemma_days_before_month_monotone(y: int, m1: int, m2: int)
        requires 1 <= m1 <= m2 <= 13
        ensures days_before_month(y, m1) <= days_before_month(y, m2)
        decreases m2 - m1
    {
        if m1 < m2 { lemma_days_before_month_monotone(y, m1, m2 - 1); }
    }
    /// every valid date-time maps into the supported timestamp range
    pub proof fn lemma_secs_range(dt: UtcDateTime)
        requires valid(dt)
        ensures min_supported() <= secs(dt) <= max_supported()
    {
        let y = dt.year as int;
        lemma_supported_values();
        lemma_leaps_facts(y);
        lemma_day_of_year_range(y, dt.month as int, dt.day_of_month as int);
        lemma_days_before_year_rule(y);
        lemma_days_before_year_monotone(1, y);
        lemma_days_before_year_monotone(y + 1, 0x1_0000_0000);
        assert(days_before_year(0x1_0000_0000) == 1568704592244) by { reveal(leaps_before); }
    }
    /// the conversion to timestamps is strictly increasing in calendar order
    pub proof fn lemma_secs_strictly_increasing(a: UtcDateTime, b: UtcDateTime)
        requires valid(a), valid(b), lex_lt(a, b)
        ensures secs(a) < secs(b)
    {
        let ya = a.year as int; let yb = b.year as int;
        let da = days_from_civil(ya, a.month as int, a.day_of_month as int);
        let db = days_from_civil(yb, b.month as int, b.day_of_month as int);
        lemma_day_of_year_range(ya, a.month as int, a.day_of_month as int);
        lemma_day_of_year_range(yb, b.month as int, b.day_of_month as int);
        if ya < yb {
            lemma_days_before_year_rule(ya);
            lemma_days_before_year_monotone(ya + 1, yb);
            assert(da < db);
        } else if a.month < b.month {
            lemma_days_before_month_monotone(ya, a.month as int + 1, b.month as int);
            assert(da < db);
        } else if a.day_of_month < b.day_of_month {
            assert(da < db);
        } else {
            assert(da == db);
        }
    }
    /// ... hence injective on valid date-times (two valid date-times with the same timestamp are equal)
    pub proof fn lemma_secs_injective(a: UtcDateTime, b: UtcDateTime)
        requires valid(a), valid(b), secs(a) == secs(b)
        ensures a == b
    {
        if lex_lt(a, b) { lemma_secs_strictly_increasing(a, b); }
        if lex_lt(b, a) { lemma_secs_strictly_increasing(b, a); }
    }
    /// ... and the inverse conversion is strictly increasing as well
    pub proof fn lemma_inverse_strictly_increasing(a: UtcDateTime, b: UtcDateTime)
        requires valid(a), valid(b), secs(a) < secs(b)
        ensures lex_lt(a, b)
    {
        if lex_lt(b, a) { lemma_secs_strictly_increasing(b, a); }
    }
    /// oracle for date-time arithmetic: the result is the (unique, by lemma_secs_injective) valid
    /// date-time whose timestamp is `secs(dt) + delta`; None exactly when that leaves the supported range
    pub open spec fn date_time_plus(dt: UtcDateTime, delta: int, ret: Option<UtcDateTime>) -> bool {
        &&& ret is Some <==> min_supported() <= secs(dt) + delta <= max_supported()
        &&& ret matches Some(r) ==> valid(r) && secs(r) == secs(dt) + delta
    }

    /// round trip Instant -> UtcDateTime -> Instant (composition of the two real functions)
    pub fn round_trip_instant(i: &Instant) -> (r: Option<Instant>)
        ensures r == (if min_supported() <= i.seconds_since_unix_epoch <= max_supported() { Some(*i) } else { None })
    {
        match UtcDateTime::from_instant(i) {
            Ok(dt) => Some(dt.to_instant()),
            Err(_) => None,
        }
    }
    /// round trip UtcDateTime -> Instant -> UtcDateTime
    pub fn round_trip_date_time(dt: &UtcDateTime) -> (r: Result<UtcDateTime, DateTimeError>)
        requires valid(*dt)
        ensures r == Ok::<UtcDateTime, DateTimeError>(*dt)
    {
        let i = dt.to_instant();
        proof { lemma_secs_range(*dt); }
        let r = UtcDateTime::from_instant(&i);
        proof { lemma_secs_injective(r->Ok_0, *dt); }
        r
    }
}
} // verus!
fn main() {}
