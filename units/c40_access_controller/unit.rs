// Unit c40_access_controller -- property C40 "Access controller changes need two roles or an elapsed timer"
// Real code: radix-engine/src/blueprints/access_controller/v2/state_machine.rs -- every Transition /
// TransitionMut impl on AccessControllerV2Substate, validate_recovery_proposal, the error macro (used as
// defined in /repo), the traits; the state types of access_controller/types.rs, error.rs, v2/state.rs and
// radix-engine-interface/.../access_controller/data.rs; Instant::compare / add_minutes of radix-common.
use vstd::prelude::*;
verus! {
/*@include shims/rt.rs @*/
/*@include shims/try_from.rs @*/
/*@include shims/option_map_or.rs @*/
/*@include shims/tuple_default.rs @*/


// ================================================================================================
// env: what the state machine mentions but which is NOT under contract (system API, vaults, errors)
// ================================================================================================
pub mod env {
    use vstd::prelude::*;
    use super::unit::{AccessControllerError, Instant, TimeComparisonOperator, TimePrecision, TimePrecisionV2, instant_compare};

    // ---- opaque values ----------------------------------------------------------------------------
    /// radix-engine-interface AccessRule (a recursive rule tree); only its equality matters here.
    #[verifier::external_body]
    #[derive(PartialEq, Eq)]
    pub struct AccessRule { x: u8 }
    #[verifier::external_body]
    pub struct Decimal { x: u8 }
    #[verifier::external_body]
    pub struct Proof { x: u8 }
    #[verifier::external_body]
    pub struct Bucket { x: u8 }
    /// stands for IndexSet<NonFungibleLocalId>
    #[verifier::external_body]
    pub struct NonFungibleLocalIds { x: u8 }
    #[verifier::external_body]
    pub struct ResourceAddress { x: u8 }
    #[verifier::external_body]
    pub struct OpaqueError { x: u8 }

    #[verifier::external_body]
    pub struct NodeId { x: [u8; 30] }
    impl NodeId {
        pub uninterp spec fn spec_is_internal_fungible_vault(&self) -> bool;
        #[verifier::external_body]
        pub fn is_internal_fungible_vault(&self) -> (r: bool)
            ensures r == self.spec_is_internal_fungible_vault()
        { unimplemented!() }
    }
    pub struct Own(pub NodeId);
    pub struct Vault(pub Own);

    // ---- errors: RuntimeError / ApplicationError reduced to the variant this file constructs --------
    pub enum ApplicationError {
        AccessControllerError(AccessControllerError),
        OtherBlueprintError(OpaqueError),
    }
    pub enum RuntimeError {
        ApplicationError(ApplicationError),
        OtherRuntimeError(OpaqueError),
    }

    // ---- the system API as seen from this file: a ghost clock and a ghost log of vault operations ----
    pub enum AssetOp {
        ProofCreated(Vault),
        TakenAll(Vault),
    }
    pub trait SystemApi<E> {
        /// ghost clock: the consensus-manager proposer timestamp (as an Instant) at the given precision
        spec fn clock(&self, precision: TimePrecision) -> Instant;
        /// ghost: None if a call to the consensus-manager time methods succeeds in this state, Some(e) if it fails with e
        spec fn time_call_error(&self) -> Option<E>;
        /// ghost: every proof creation / withdrawal performed on a vault through this api, in order
        spec fn asset_log(&self) -> Seq<AssetOp>;
    }

    /// ASSUMED (consensus_manager.rs :: compare_current_time_v2): the instant passed in is first rounded to
    /// the requested precision (epoch minute, saturating); the rounding itself is left uninterpreted.
    pub uninterp spec fn to_precision(i: Instant, precision: TimePrecision) -> Instant;

    pub struct Runtime;
    impl Runtime {
        /// ASSUMED contract of radix-native-sdk Runtime::current_time (call_method on the consensus manager).
        #[verifier::external_body]
        pub fn current_time<Y: SystemApi<RuntimeError>>(precision: TimePrecision, api: &mut Y) -> (r: Result<Instant, RuntimeError>)
            ensures
                r == (match old(api).time_call_error() {
                    Some(e) => Err::<Instant, RuntimeError>(e),
                    None => Ok::<Instant, RuntimeError>(old(api).clock(precision)),
                }),
                final(api).asset_log() == old(api).asset_log(),
                forall|p: TimePrecision| final(api).clock(p) == old(api).clock(p),
        { unimplemented!() }

        /// ASSUMED contract of Runtime::compare_against_current_time: `clock <op> round(instant)`.
        #[verifier::external_body]
        pub fn compare_against_current_time<Y: SystemApi<RuntimeError>>(
            instant: Instant, precision: TimePrecision, operator: TimeComparisonOperator, api: &mut Y,
        ) -> (r: Result<bool, RuntimeError>)
            ensures
                r == (match old(api).time_call_error() {
                    Some(e) => Err::<bool, RuntimeError>(e),
                    None => Ok::<bool, RuntimeError>(instant_compare(old(api).clock(precision), to_precision(instant, precision), operator)),
                }),
                final(api).asset_log() == old(api).asset_log(),
                forall|p: TimePrecision| final(api).clock(p) == old(api).clock(p),
        { unimplemented!() }
    }

    /// ASSUMED contracts of the radix-native-sdk NativeVault / NativeFungibleVault / NativeNonFungibleVault
    /// methods on Vault (inherent here): reads leave the log alone, a successful proof creation / take_all
    /// appends exactly one entry for this vault, a failed one appends nothing.
    impl Vault {
        #[verifier::external_body]
        pub fn amount<Y: SystemApi<RuntimeError>>(&self, api: &mut Y) -> (r: Result<Decimal, RuntimeError>)
            ensures final(api).asset_log() == old(api).asset_log(),
        { unimplemented!() }
        #[verifier::external_body]
        pub fn non_fungible_local_ids<Y: SystemApi<RuntimeError>>(&self, limit: u32, api: &mut Y) -> (r: Result<NonFungibleLocalIds, RuntimeError>)
            ensures final(api).asset_log() == old(api).asset_log(),
        { unimplemented!() }
        #[verifier::external_body]
        pub fn create_proof_of_amount<Y: SystemApi<RuntimeError>>(&self, amount: Decimal, api: &mut Y) -> (r: Result<Proof, RuntimeError>)
            ensures
                r is Ok ==> final(api).asset_log() == old(api).asset_log().push(AssetOp::ProofCreated(*self)),
                r is Err ==> final(api).asset_log() == old(api).asset_log(),
        { unimplemented!() }
        #[verifier::external_body]
        pub fn create_proof_of_non_fungibles<Y: SystemApi<RuntimeError>>(&self, ids: NonFungibleLocalIds, api: &mut Y) -> (r: Result<Proof, RuntimeError>)
            ensures
                r is Ok ==> final(api).asset_log() == old(api).asset_log().push(AssetOp::ProofCreated(*self)),
                r is Err ==> final(api).asset_log() == old(api).asset_log(),
        { unimplemented!() }
        #[verifier::external_body]
        pub fn take_all<Y: SystemApi<RuntimeError>>(&mut self, api: &mut Y) -> (r: Result<Bucket, RuntimeError>)
            ensures
                *final(self) == *old(self),
                r is Ok ==> final(api).asset_log() == old(api).asset_log().push(AssetOp::TakenAll(*old(self))),
                r is Err ==> final(api).asset_log() == old(api).asset_log(),
        { unimplemented!() }
    }
}

pub mod unit {
    use vstd::prelude::*;
    use super::rt::*;
    use super::env::*;
    broadcast use super::try_from::axiom_question_mark_calls_from;

    // ---------------------------------------------------------------------------------------------
    // Real data types (verbatim)
    // ---------------------------------------------------------------------------------------------
    /*@item radix-common/src/time/instant.rs :: struct Instant
    @derive Copy, Clone, PartialEq, Eq
    @*/
    /*@item radix-common/src/time/instant.rs :: enum TimeComparisonOperator
    @derive Copy, Clone, PartialEq, Eq
    @*/
    /*@item radix-engine-interface/src/blueprints/consensus_manager/invocations.rs :: enum TimePrecisionV2
    @derive Copy, Clone, PartialEq, Eq
    @*/
    /*@item radix-engine-interface/src/blueprints/consensus_manager/invocations.rs :: type TimePrecision
    @*/
    /*@item radix-engine-interface/src/blueprints/access_controller/data.rs :: enum Proposer
    @derive Copy, Clone, PartialEq, Eq
    @*/
    /*@item radix-engine-interface/src/blueprints/access_controller/data.rs :: struct RuleSet
    @derive PartialEq, Eq
    @*/
    /*@item radix-engine-interface/src/blueprints/access_controller/data.rs :: struct RecoveryProposal
    @derive PartialEq, Eq
    @*/
    /*@item radix-engine/src/blueprints/access_controller/types.rs :: enum PrimaryRoleLockingState
    @derive PartialEq, Eq
    @*/
    /*@item radix-engine/src/blueprints/access_controller/types.rs :: enum PrimaryRoleRecoveryAttemptState
    @derive PartialEq, Eq
    @*/
    /*@item radix-engine/src/blueprints/access_controller/types.rs :: enum PrimaryRoleBadgeWithdrawAttemptState
    @derive PartialEq, Eq
    @*/
    /*@item radix-engine/src/blueprints/access_controller/types.rs :: enum RecoveryRoleRecoveryAttemptState
    @derive PartialEq, Eq
    @*/
    /*@item radix-engine/src/blueprints/access_controller/types.rs :: enum RecoveryRoleRecoveryState
    @derive PartialEq, Eq
    @*/
    /*@item radix-engine/src/blueprints/access_controller/types.rs :: enum RecoveryRoleBadgeWithdrawAttemptState
    @derive PartialEq, Eq
    @*/
    /*@item radix-engine/src/blueprints/access_controller/error.rs :: enum AccessControllerError
    @derive
    @*/
    /*@item radix-engine/src/blueprints/access_controller/v2/state.rs :: struct AccessControllerV2Substate
    @derive
    @*/

    // ASSUMED: #[derive(Clone)] / #[derive(PartialEq)] on RecoveryProposal (and, through RuleSet, on AccessRule)
    // are structural: clone returns an equal value, `==` is equality of values.
    impl Clone for RecoveryProposal {
        #[verifier::external_body]
        fn clone(&self) -> (r: Self) ensures r == *self { unimplemented!() }
    }
    impl vstd::std_specs::cmp::PartialEqSpecImpl for RecoveryProposal {
        open spec fn obeys_eq_spec() -> bool { true }
        open spec fn eq_spec(&self, o: &RecoveryProposal) -> bool { *self == *o }
    }

    // #[derive(Default)]: the variant is the one carrying `#[default]` in /repo (read on every run).
    impl Default for PrimaryRoleLockingState {
        fn default() -> (r: Self) ensures r == Self::/*@expr-after radix-engine/src/blueprints/access_controller/types.rs :: enum PrimaryRoleLockingState :: <<#[default]>> @*/
        { Self::/*@expr-after radix-engine/src/blueprints/access_controller/types.rs :: enum PrimaryRoleLockingState :: <<#[default]>> @*/ }
    }
    impl Default for PrimaryRoleRecoveryAttemptState {
        fn default() -> (r: Self) ensures r == Self::/*@expr-after radix-engine/src/blueprints/access_controller/types.rs :: enum PrimaryRoleRecoveryAttemptState :: <<#[default]>> @*/
        { Self::/*@expr-after radix-engine/src/blueprints/access_controller/types.rs :: enum PrimaryRoleRecoveryAttemptState :: <<#[default]>> @*/ }
    }
    impl Default for PrimaryRoleBadgeWithdrawAttemptState {
        fn default() -> (r: Self) ensures r == Self::/*@expr-after radix-engine/src/blueprints/access_controller/types.rs :: enum PrimaryRoleBadgeWithdrawAttemptState :: <<#[default]>> @*/
        { Self::/*@expr-after radix-engine/src/blueprints/access_controller/types.rs :: enum PrimaryRoleBadgeWithdrawAttemptState :: <<#[default]>> @*/ }
    }
    impl Default for RecoveryRoleRecoveryAttemptState {
        fn default() -> (r: Self) ensures r == Self::/*@expr-after radix-engine/src/blueprints/access_controller/types.rs :: enum RecoveryRoleRecoveryAttemptState :: <<#[default]>> @*/
        { Self::/*@expr-after radix-engine/src/blueprints/access_controller/types.rs :: enum RecoveryRoleRecoveryAttemptState :: <<#[default]>> @*/ }
    }
    impl Default for RecoveryRoleBadgeWithdrawAttemptState {
        fn default() -> (r: Self) ensures r == Self::/*@expr-after radix-engine/src/blueprints/access_controller/types.rs :: enum RecoveryRoleBadgeWithdrawAttemptState :: <<#[default]>> @*/
        { Self::/*@expr-after radix-engine/src/blueprints/access_controller/types.rs :: enum RecoveryRoleBadgeWithdrawAttemptState :: <<#[default]>> @*/ }
    }

    // ---------------------------------------------------------------------------------------------
    // Oracle
    // ---------------------------------------------------------------------------------------------
    pub type St = (
        PrimaryRoleLockingState,
        PrimaryRoleRecoveryAttemptState,
        PrimaryRoleBadgeWithdrawAttemptState,
        RecoveryRoleRecoveryAttemptState,
        RecoveryRoleBadgeWithdrawAttemptState,
    );

    pub open spec fn instant_compare(a: Instant, b: Instant, op: TimeComparisonOperator) -> bool {
        match op {
            TimeComparisonOperator::Eq => a.seconds_since_unix_epoch == b.seconds_since_unix_epoch,
            TimeComparisonOperator::Lt => a.seconds_since_unix_epoch < b.seconds_since_unix_epoch,
            TimeComparisonOperator::Lte => a.seconds_since_unix_epoch <= b.seconds_since_unix_epoch,
            TimeComparisonOperator::Gt => a.seconds_since_unix_epoch > b.seconds_since_unix_epoch,
            TimeComparisonOperator::Gte => a.seconds_since_unix_epoch >= b.seconds_since_unix_epoch,
        }
    }

    pub open spec fn ace(e: AccessControllerError) -> RuntimeError {
        RuntimeError::ApplicationError(ApplicationError::AccessControllerError(e))
    }

    /// `Instant::add_minutes` as documented: None on i64 overflow of `60 * minutes` or of the sum.
    pub open spec fn add_minutes_spec(t: Instant, minutes: int) -> Option<Instant> {
        let to_add = minutes * 60;
        let sum = t.seconds_since_unix_epoch + to_add;
        if i64::MIN <= to_add <= i64::MAX && i64::MIN <= sum <= i64::MAX {
            Some(Instant { seconds_since_unix_epoch: sum as i64 })
        } else {
            None
        }
    }

    /// "the configured delay has elapsed": the comparison the timed confirm asks the clock for
    /// (operator Gte, minute precision): now >= allowed_after (rounded to the minute by the clock).
    pub open spec fn time_reached(now: Instant, allowed_after: Instant) -> bool {
        instant_compare(now, to_precision(allowed_after, TimePrecisionV2::Minute), TimeComparisonOperator::Gte)
    }

    pub open spec fn init_state() -> St {
        (
            PrimaryRoleLockingState::Unlocked,
            PrimaryRoleRecoveryAttemptState::NoRecoveryAttempt,
            PrimaryRoleBadgeWithdrawAttemptState::NoBadgeWithdrawAttempt,
            RecoveryRoleRecoveryAttemptState::NoRecoveryAttempt,
            RecoveryRoleBadgeWithdrawAttemptState::NoBadgeWithdrawAttempt,
        )
    }

    /// The calls of the property's histories (one per state-machine input).
    pub enum Op {
        CreateProof,
        InitiateRecoveryAsPrimary(RecoveryProposal),
        InitiateRecoveryAsRecovery(RecoveryProposal),
        InitiateBadgeWithdrawAsPrimary,
        InitiateBadgeWithdrawAsRecovery,
        QuickConfirmPrimaryRecovery(RecoveryProposal),
        QuickConfirmRecoveryRecovery(RecoveryProposal),
        QuickConfirmPrimaryBadgeWithdraw,
        QuickConfirmRecoveryBadgeWithdraw,
        TimedConfirmRecovery(RecoveryProposal),
        CancelPrimaryRecovery,
        CancelRecoveryRecovery,
        CancelPrimaryBadgeWithdraw,
        CancelRecoveryBadgeWithdraw,
        LockPrimary,
        UnlockPrimary,
        StopTimedRecovery(RecoveryProposal),
    }

    /// What the call observes besides the 5-tuple: the configured delay, the clock, and whether the
    /// clock can be read at all.
    pub struct Obs {
        pub delay: Option<u32>,
        pub now: Instant,
        pub time_err: Option<RuntimeError>,
    }
    pub open spec fn obs<Y: SystemApi<RuntimeError>>(delay: Option<u32>, api: &Y) -> Obs {
        Obs { delay, now: api.clock(TimePrecisionV2::Minute), time_err: api.time_call_error() }
    }

    /// the proposal the recovery role has pending (timed or untimed)
    pub open spec fn recovery_role_proposal(s: RecoveryRoleRecoveryAttemptState) -> Option<RecoveryProposal> {
        match s {
            RecoveryRoleRecoveryAttemptState::NoRecoveryAttempt => None,
            RecoveryRoleRecoveryAttemptState::RecoveryAttempt(RecoveryRoleRecoveryState::UntimedRecovery(p)) => Some(p),
            RecoveryRoleRecoveryAttemptState::RecoveryAttempt(RecoveryRoleRecoveryState::TimedRecovery { proposal, .. }) => Some(proposal),
        }
    }
    /// the recovery role's pending TIMED proposal and its earliest confirmation time
    pub open spec fn timed_recovery(s: RecoveryRoleRecoveryAttemptState) -> Option<(RecoveryProposal, Instant)> {
        match s {
            RecoveryRoleRecoveryAttemptState::RecoveryAttempt(RecoveryRoleRecoveryState::TimedRecovery { proposal, timed_recovery_allowed_after }) =>
                Some((proposal, timed_recovery_allowed_after)),
            _ => None,
        }
    }

    /// GUARD: the call is accepted exactly in these states (for CreateProof and the two badge-withdraw
    /// confirmations, which additionally call into the vault, this is the state-machine part of the guard).
    pub open spec fn ac_guard(s: St, o: Obs, op: Op) -> bool {
        match op {
            Op::CreateProof => s.0 == PrimaryRoleLockingState::Unlocked,
            Op::InitiateRecoveryAsPrimary(p) => s.1 == PrimaryRoleRecoveryAttemptState::NoRecoveryAttempt,
            Op::InitiateRecoveryAsRecovery(p) => {
                &&& s.3 == RecoveryRoleRecoveryAttemptState::NoRecoveryAttempt
                &&& o.delay matches Some(d) ==> o.time_err is None && add_minutes_spec(o.now, d as int) is Some
            },
            Op::InitiateBadgeWithdrawAsPrimary => s.2 == PrimaryRoleBadgeWithdrawAttemptState::NoBadgeWithdrawAttempt,
            Op::InitiateBadgeWithdrawAsRecovery => s.4 == RecoveryRoleBadgeWithdrawAttemptState::NoBadgeWithdrawAttempt,
            Op::QuickConfirmPrimaryRecovery(p) => s.1 == PrimaryRoleRecoveryAttemptState::RecoveryAttempt(p),
            Op::QuickConfirmRecoveryRecovery(p) => recovery_role_proposal(s.3) == Some(p),
            Op::QuickConfirmPrimaryBadgeWithdraw => s.2 == PrimaryRoleBadgeWithdrawAttemptState::BadgeWithdrawAttempt,
            Op::QuickConfirmRecoveryBadgeWithdraw => s.4 == RecoveryRoleBadgeWithdrawAttemptState::BadgeWithdrawAttempt,
            Op::TimedConfirmRecovery(p) => {
                &&& timed_recovery(s.3) matches Some(t)
                &&& t.0 == p
                &&& o.time_err is None
                &&& time_reached(o.now, t.1)
            },
            Op::CancelPrimaryRecovery => s.1 is RecoveryAttempt,
            Op::CancelRecoveryRecovery => s.3 is RecoveryAttempt,
            Op::CancelPrimaryBadgeWithdraw => s.2 == PrimaryRoleBadgeWithdrawAttemptState::BadgeWithdrawAttempt,
            Op::CancelRecoveryBadgeWithdraw => s.4 == RecoveryRoleBadgeWithdrawAttemptState::BadgeWithdrawAttempt,
            Op::LockPrimary => true,
            Op::UnlockPrimary => true,
            Op::StopTimedRecovery(p) => timed_recovery(s.3) matches Some(t) && t.0 == p,
        }
    }

    /// EFFECT of an accepted call on the whole 5-tuple.
    pub open spec fn ac_next(s: St, o: Obs, op: Op) -> St {
        match op {
            Op::CreateProof => s,
            Op::InitiateRecoveryAsPrimary(p) => (s.0, PrimaryRoleRecoveryAttemptState::RecoveryAttempt(p), s.2, s.3, s.4),
            Op::InitiateRecoveryAsRecovery(p) => (s.0, s.1, s.2,
                RecoveryRoleRecoveryAttemptState::RecoveryAttempt(match o.delay {
                    Some(d) => RecoveryRoleRecoveryState::TimedRecovery {
                        proposal: p,
                        timed_recovery_allowed_after: add_minutes_spec(o.now, d as int).unwrap(),
                    },
                    None => RecoveryRoleRecoveryState::UntimedRecovery(p),
                }), s.4),
            Op::InitiateBadgeWithdrawAsPrimary => (s.0, s.1, PrimaryRoleBadgeWithdrawAttemptState::BadgeWithdrawAttempt, s.3, s.4),
            Op::InitiateBadgeWithdrawAsRecovery => (s.0, s.1, s.2, s.3, RecoveryRoleBadgeWithdrawAttemptState::BadgeWithdrawAttempt),
            Op::QuickConfirmPrimaryRecovery(p) => init_state(),
            Op::QuickConfirmRecoveryRecovery(p) => init_state(),
            Op::QuickConfirmPrimaryBadgeWithdraw => init_state(),
            Op::QuickConfirmRecoveryBadgeWithdraw => init_state(),
            Op::TimedConfirmRecovery(p) => init_state(),
            Op::CancelPrimaryRecovery => (s.0, PrimaryRoleRecoveryAttemptState::NoRecoveryAttempt, s.2, s.3, s.4),
            Op::CancelRecoveryRecovery => (s.0, s.1, s.2, RecoveryRoleRecoveryAttemptState::NoRecoveryAttempt, s.4),
            Op::CancelPrimaryBadgeWithdraw => (s.0, s.1, PrimaryRoleBadgeWithdrawAttemptState::NoBadgeWithdrawAttempt, s.3, s.4),
            Op::CancelRecoveryBadgeWithdraw => (s.0, s.1, s.2, s.3, RecoveryRoleBadgeWithdrawAttemptState::NoBadgeWithdrawAttempt),
            Op::LockPrimary => (PrimaryRoleLockingState::Locked, s.1, s.2, s.3, s.4),
            Op::UnlockPrimary => (PrimaryRoleLockingState::Unlocked, s.1, s.2, s.3, s.4),
            Op::StopTimedRecovery(p) => (s.0, s.1, s.2,
                RecoveryRoleRecoveryAttemptState::RecoveryAttempt(RecoveryRoleRecoveryState::UntimedRecovery(p)), s.4),
        }
    }

    pub open spec fn mismatch(expected: RecoveryProposal, found: RecoveryProposal) -> RuntimeError {
        ace(AccessControllerError::RecoveryProposalMismatch { expected: Box::new(expected), found: Box::new(found) })
    }

    /// ERROR returned by a refused call (checks in the documented order: state, proposal, clock).
    pub open spec fn ac_err(s: St, o: Obs, op: Op) -> RuntimeError {
        match op {
            Op::CreateProof => ace(AccessControllerError::OperationRequiresUnlockedPrimaryRole),
            Op::InitiateRecoveryAsPrimary(p) => ace(AccessControllerError::RecoveryAlreadyExistsForProposer { proposer: Proposer::Primary }),
            Op::InitiateRecoveryAsRecovery(p) =>
                if s.3 != RecoveryRoleRecoveryAttemptState::NoRecoveryAttempt {
                    ace(AccessControllerError::RecoveryAlreadyExistsForProposer { proposer: Proposer::Recovery })
                } else if o.time_err is Some {
                    o.time_err.unwrap()
                } else {
                    ace(AccessControllerError::TimeOverflow)
                },
            Op::InitiateBadgeWithdrawAsPrimary => ace(AccessControllerError::BadgeWithdrawAttemptAlreadyExistsForProposer { proposer: Proposer::Primary }),
            // see the contract of that transition: the code reports RecoveryAlreadyExistsForProposer here
            Op::InitiateBadgeWithdrawAsRecovery => ace(AccessControllerError::BadgeWithdrawAttemptAlreadyExistsForProposer { proposer: Proposer::Recovery }),
            Op::QuickConfirmPrimaryRecovery(p) => match s.1 {
                PrimaryRoleRecoveryAttemptState::RecoveryAttempt(q) => mismatch(q, p),
                _ => ace(AccessControllerError::NoRecoveryExistsForProposer { proposer: Proposer::Primary }),
            },
            Op::QuickConfirmRecoveryRecovery(p) => match recovery_role_proposal(s.3) {
                Some(q) => mismatch(q, p),
                None => ace(AccessControllerError::NoRecoveryExistsForProposer { proposer: Proposer::Recovery }),
            },
            Op::QuickConfirmPrimaryBadgeWithdraw => ace(AccessControllerError::NoBadgeWithdrawAttemptExistsForProposer { proposer: Proposer::Primary }),
            Op::QuickConfirmRecoveryBadgeWithdraw => ace(AccessControllerError::NoBadgeWithdrawAttemptExistsForProposer { proposer: Proposer::Recovery }),
            Op::TimedConfirmRecovery(p) => match timed_recovery(s.3) {
                Some(t) =>
                    if t.0 != p { mismatch(t.0, p) }
                    else if o.time_err is Some { o.time_err.unwrap() }
                    else { ace(AccessControllerError::TimedRecoveryDelayHasNotElapsed) },
                None => ace(AccessControllerError::NoTimedRecoveriesFound),
            },
            Op::CancelPrimaryRecovery => ace(AccessControllerError::NoRecoveryExistsForProposer { proposer: Proposer::Primary }),
            Op::CancelRecoveryRecovery => ace(AccessControllerError::NoRecoveryExistsForProposer { proposer: Proposer::Recovery }),
            Op::CancelPrimaryBadgeWithdraw => ace(AccessControllerError::NoBadgeWithdrawAttemptExistsForProposer { proposer: Proposer::Primary }),
            Op::CancelRecoveryBadgeWithdraw => ace(AccessControllerError::NoBadgeWithdrawAttemptExistsForProposer { proposer: Proposer::Recovery }),
            Op::LockPrimary => arbitrary(),
            Op::UnlockPrimary => arbitrary(),
            Op::StopTimedRecovery(p) => match timed_recovery(s.3) {
                Some(t) => mismatch(t.0, p),
                None => ace(AccessControllerError::NoTimedRecoveriesFound),
            },
        }
    }

    impl AccessControllerV2Substate {
        /// everything of the substate except the 5-tuple is untouched
        pub open spec fn frame(&self, old: &Self) -> bool {
            &&& self.controlled_asset == old.controlled_asset
            &&& self.xrd_fee_vault == old.xrd_fee_vault
            &&& self.timed_recovery_delay_in_minutes == old.timed_recovery_delay_in_minutes
            &&& self.recovery_badge == old.recovery_badge
        }
    }

    /// Contract shape of a transition that makes no vault call: accepted exactly under the guard, the
    /// 5-tuple becomes ac_next, a refused call returns ac_err and changes nothing; no asset operation.
    pub open spec fn step_contract<Y: SystemApi<RuntimeError>, T>(
        pre: &AccessControllerV2Substate, post: &AccessControllerV2Substate, api0: &Y, api1: &Y, op: Op, ret: Result<T, RuntimeError>,
    ) -> bool {
        let o = obs(pre.timed_recovery_delay_in_minutes, api0);
        &&& ret is Ok <==> ac_guard(pre.state, o, op)
        &&& ret is Ok ==> post.state == ac_next(pre.state, o, op)
        &&& ret is Err ==> post.state == pre.state && ret->Err_0 == ac_err(pre.state, o, op)
        &&& post.frame(pre)
        &&& api1.asset_log() == api0.asset_log()
    }

    // ---------------------------------------------------------------------------------------------
    // Real code under contract
    // ---------------------------------------------------------------------------------------------
    /*@item radix-engine/src/blueprints/access_controller/v2/state_machine.rs :: trait Transition
    @*/
    /*@item radix-engine/src/blueprints/access_controller/v2/state_machine.rs :: trait TransitionMut
    @*/
    /*@item radix-engine/src/blueprints/access_controller/v2/state_machine.rs :: macro access_controller_runtime_error
    @*/

    impl vstd::std_specs::convert::FromSpecImpl<AccessControllerError> for RuntimeError {
        open spec fn obeys_from_spec() -> bool { true }
        open spec fn from_spec(v: AccessControllerError) -> RuntimeError { ace(v) }
    }
    impl From<AccessControllerError> for RuntimeError {
        /*@fn radix-engine/src/blueprints/access_controller/error.rs :: impl From<AccessControllerError> for RuntimeError :: fn from
        @sig
            ensures ret == ace(value)
        @*/
    }

    /*@item radix-common/src/time/constants.rs :: const SECONDS_IN_A_MINUTE
    @*/
    impl Instant {
        /*@fn radix-common/src/time/instant.rs :: impl Instant :: fn new
        @sig
            ensures ret == (Instant { seconds_since_unix_epoch })
        @*/
        /*@fn radix-common/src/time/instant.rs :: impl Instant :: fn add_minutes
        @sig
            ensures ret == add_minutes_spec(*self, minutes_to_add as int)
        @closure 1 := |to_add: i64| -> (r: Option<i64>) ensures r == (if i64::MIN <= self.seconds_since_unix_epoch + to_add <= i64::MAX { Some((self.seconds_since_unix_epoch + to_add) as i64) } else { None })
        @*/
        /*@fn radix-common/src/time/instant.rs :: impl Instant :: fn compare
        @sig
            ensures ret == instant_compare(*self, other, operator)
        @*/
    }

    /*@fn radix-engine/src/blueprints/access_controller/v2/state_machine.rs :: fn validate_recovery_proposal
    @sig
        ensures
            ret is Ok <==> *expected == *actual,
            ret matches Err(e) ==> e == (AccessControllerError::RecoveryProposalMismatch {
                expected: Box::new(*expected), found: Box::new(*actual) }),
    @*/

    /*@item radix-engine/src/blueprints/access_controller/v2/state_machine.rs :: struct AccessControllerCreateProofStateMachineInput
    @*/
    impl Transition<AccessControllerCreateProofStateMachineInput> for AccessControllerV2Substate {
        /*@item radix-engine/src/blueprints/access_controller/v2/state_machine.rs :: impl Transition<AccessControllerCreateProofStateMachineInput> for AccessControllerV2Substate :: type Output
        @*/
        /*@fn radix-engine/src/blueprints/access_controller/v2/state_machine.rs :: impl Transition<AccessControllerCreateProofStateMachineInput> for AccessControllerV2Substate :: fn transition
        @sig
            ensures
                ret is Ok ==> ac_guard(self.state, obs(self.timed_recovery_delay_in_minutes, old(api)), Op::CreateProof),
                ret is Ok ==> final(api).asset_log() == old(api).asset_log().push(AssetOp::ProofCreated(self.controlled_asset)),
                ret is Err ==> final(api).asset_log() == old(api).asset_log(),
                // locked: refused before any call is made
                self.state.0 != PrimaryRoleLockingState::Unlocked ==>
                    ret is Err && ret->Err_0 == ac_err(self.state, obs(self.timed_recovery_delay_in_minutes, old(api)), Op::CreateProof)
                    && *final(api) == *old(api),
        @*/
    }

    /*@item radix-engine/src/blueprints/access_controller/v2/state_machine.rs :: struct AccessControllerInitiateRecoveryAsPrimaryStateMachineInput
    @*/
    impl TransitionMut<AccessControllerInitiateRecoveryAsPrimaryStateMachineInput> for AccessControllerV2Substate {
        /*@item radix-engine/src/blueprints/access_controller/v2/state_machine.rs :: impl TransitionMut<AccessControllerInitiateRecoveryAsPrimaryStateMachineInput> for AccessControllerV2Substate :: type Output
        @*/
        /*@fn radix-engine/src/blueprints/access_controller/v2/state_machine.rs :: impl TransitionMut<AccessControllerInitiateRecoveryAsPrimaryStateMachineInput> for AccessControllerV2Substate :: fn transition_mut
        @sig
            ensures step_contract(old(self), final(self), old(_api), final(_api), Op::InitiateRecoveryAsPrimary(input.proposal), ret),
        @*/
    }

    /*@item radix-engine/src/blueprints/access_controller/v2/state_machine.rs :: struct AccessControllerInitiateRecoveryAsRecoveryStateMachineInput
    @*/
    impl TransitionMut<AccessControllerInitiateRecoveryAsRecoveryStateMachineInput> for AccessControllerV2Substate {
        /*@item radix-engine/src/blueprints/access_controller/v2/state_machine.rs :: impl TransitionMut<AccessControllerInitiateRecoveryAsRecoveryStateMachineInput> for AccessControllerV2Substate :: type Output
        @*/
        /*@fn radix-engine/src/blueprints/access_controller/v2/state_machine.rs :: impl TransitionMut<AccessControllerInitiateRecoveryAsRecoveryStateMachineInput> for AccessControllerV2Substate :: fn transition_mut
        @sig
            ensures step_contract(old(self), final(self), old(api), final(api), Op::InitiateRecoveryAsRecovery(input.proposal), ret),
        @closure 1 := |instant: Instant| -> (r: Result<Instant, RuntimeError>) ensures r == Ok::<Instant, RuntimeError>(instant)
        @*/
    }

    /*@item radix-engine/src/blueprints/access_controller/v2/state_machine.rs :: struct AccessControllerInitiateBadgeWithdrawAttemptAsPrimaryStateMachineInput
    @*/
    impl TransitionMut<AccessControllerInitiateBadgeWithdrawAttemptAsPrimaryStateMachineInput> for AccessControllerV2Substate {
        /*@item radix-engine/src/blueprints/access_controller/v2/state_machine.rs :: impl TransitionMut<AccessControllerInitiateBadgeWithdrawAttemptAsPrimaryStateMachineInput> for AccessControllerV2Substate :: type Output
        @*/
        /*@fn radix-engine/src/blueprints/access_controller/v2/state_machine.rs :: impl TransitionMut<AccessControllerInitiateBadgeWithdrawAttemptAsPrimaryStateMachineInput> for AccessControllerV2Substate :: fn transition_mut
        @sig
            ensures step_contract(old(self), final(self), old(_api), final(_api), Op::InitiateBadgeWithdrawAsPrimary, ret),
        @*/
    }

    /*@item radix-engine/src/blueprints/access_controller/v2/state_machine.rs :: struct AccessControllerInitiateBadgeWithdrawAttemptAsRecoveryStateMachineInput
    @*/
    impl TransitionMut<AccessControllerInitiateBadgeWithdrawAttemptAsRecoveryStateMachineInput> for AccessControllerV2Substate {
        /*@item radix-engine/src/blueprints/access_controller/v2/state_machine.rs :: impl TransitionMut<AccessControllerInitiateBadgeWithdrawAttemptAsRecoveryStateMachineInput> for AccessControllerV2Substate :: type Output
        @*/
        /*@fn radix-engine/src/blueprints/access_controller/v2/state_machine.rs :: impl TransitionMut<AccessControllerInitiateBadgeWithdrawAttemptAsRecoveryStateMachineInput> for AccessControllerV2Substate :: fn transition_mut
        @sig
            ensures
                ({
                    let o = obs(old(self).timed_recovery_delay_in_minutes, old(_api));
                    let op = Op::InitiateBadgeWithdrawAsRecovery;
                    &&& ret is Ok <==> ac_guard(old(self).state, o, op)
                    &&& ret is Ok ==> final(self).state == ac_next(old(self).state, o, op)
                    // NOTE: the code reports RecoveryAlreadyExistsForProposer{Recovery} here, where the sibling
                    // transitions report BadgeWithdrawAttemptAlreadyExistsForProposer; either is accepted.
                    &&& ret is Err ==> final(self).state == old(self).state && (ret->Err_0 == ac_err(old(self).state, o, op)
                        || ret->Err_0 == ace(AccessControllerError::RecoveryAlreadyExistsForProposer { proposer: Proposer::Recovery }))
                    &&& final(self).frame(old(self))
                    &&& final(_api).asset_log() == old(_api).asset_log()
                }),
        @*/
    }

    /*@item radix-engine/src/blueprints/access_controller/v2/state_machine.rs :: struct AccessControllerQuickConfirmPrimaryRoleRecoveryProposalStateMachineInput
    @*/
    impl TransitionMut<AccessControllerQuickConfirmPrimaryRoleRecoveryProposalStateMachineInput> for AccessControllerV2Substate {
        /*@item radix-engine/src/blueprints/access_controller/v2/state_machine.rs :: impl TransitionMut<AccessControllerQuickConfirmPrimaryRoleRecoveryProposalStateMachineInput> for AccessControllerV2Substate :: type Output
        @*/
        /*@fn radix-engine/src/blueprints/access_controller/v2/state_machine.rs :: impl TransitionMut<AccessControllerQuickConfirmPrimaryRoleRecoveryProposalStateMachineInput> for AccessControllerV2Substate :: fn transition_mut
        @sig
            ensures step_contract(old(self), final(self), old(_api), final(_api), Op::QuickConfirmPrimaryRecovery(input.proposal_to_confirm), ret),
                ret matches Ok(p) ==> p == input.proposal_to_confirm,
        @*/
    }

    /*@item radix-engine/src/blueprints/access_controller/v2/state_machine.rs :: struct AccessControllerQuickConfirmRecoveryRoleRecoveryProposalStateMachineInput
    @*/
    impl TransitionMut<AccessControllerQuickConfirmRecoveryRoleRecoveryProposalStateMachineInput> for AccessControllerV2Substate {
        /*@item radix-engine/src/blueprints/access_controller/v2/state_machine.rs :: impl TransitionMut<AccessControllerQuickConfirmRecoveryRoleRecoveryProposalStateMachineInput> for AccessControllerV2Substate :: type Output
        @*/
        /*@fn radix-engine/src/blueprints/access_controller/v2/state_machine.rs :: impl TransitionMut<AccessControllerQuickConfirmRecoveryRoleRecoveryProposalStateMachineInput> for AccessControllerV2Substate :: fn transition_mut
        @sig
            ensures step_contract(old(self), final(self), old(_api), final(_api), Op::QuickConfirmRecoveryRecovery(input.proposal_to_confirm), ret),
                ret matches Ok(p) ==> p == input.proposal_to_confirm,
        @*/
    }

    /*@item radix-engine/src/blueprints/access_controller/v2/state_machine.rs :: struct AccessControllerQuickConfirmPrimaryRoleBadgeWithdrawAttemptStateMachineInput
    @*/
    impl TransitionMut<AccessControllerQuickConfirmPrimaryRoleBadgeWithdrawAttemptStateMachineInput> for AccessControllerV2Substate {
        /*@item radix-engine/src/blueprints/access_controller/v2/state_machine.rs :: impl TransitionMut<AccessControllerQuickConfirmPrimaryRoleBadgeWithdrawAttemptStateMachineInput> for AccessControllerV2Substate :: type Output
        @*/
        /*@fn radix-engine/src/blueprints/access_controller/v2/state_machine.rs :: impl TransitionMut<AccessControllerQuickConfirmPrimaryRoleBadgeWithdrawAttemptStateMachineInput> for AccessControllerV2Substate :: fn transition_mut
        @sig
            ensures
                ({
                    let o = obs(old(self).timed_recovery_delay_in_minutes, old(api));
                    let op = Op::QuickConfirmPrimaryBadgeWithdraw;
                    // accepted by the state machine: the 5-tuple is reset and the vault is asked for everything
                    &&& ret is Ok ==> ac_guard(old(self).state, o, op)
                    &&& ac_guard(old(self).state, o, op) ==> final(self).state == ac_next(old(self).state, o, op)
                    &&& ret is Ok ==> final(api).asset_log() == old(api).asset_log().push(AssetOp::TakenAll(old(self).controlled_asset))
                    &&& ret is Err ==> final(api).asset_log() == old(api).asset_log()
                    // refused: nothing happens at all
                    &&& !ac_guard(old(self).state, o, op) ==> ret is Err && ret->Err_0 == ac_err(old(self).state, o, op)
                            && final(self).state == old(self).state && *final(api) == *old(api)
                    &&& final(self).frame(old(self))
                }),
        @*/
    }

    /*@item radix-engine/src/blueprints/access_controller/v2/state_machine.rs :: struct AccessControllerQuickConfirmRecoveryRoleBadgeWithdrawAttemptStateMachineInput
    @*/
    impl TransitionMut<AccessControllerQuickConfirmRecoveryRoleBadgeWithdrawAttemptStateMachineInput> for AccessControllerV2Substate {
        /*@item radix-engine/src/blueprints/access_controller/v2/state_machine.rs :: impl TransitionMut<AccessControllerQuickConfirmRecoveryRoleBadgeWithdrawAttemptStateMachineInput> for AccessControllerV2Substate :: type Output
        @*/
        /*@fn radix-engine/src/blueprints/access_controller/v2/state_machine.rs :: impl TransitionMut<AccessControllerQuickConfirmRecoveryRoleBadgeWithdrawAttemptStateMachineInput> for AccessControllerV2Substate :: fn transition_mut
        @sig
            ensures
                ({
                    let o = obs(old(self).timed_recovery_delay_in_minutes, old(api));
                    let op = Op::QuickConfirmRecoveryBadgeWithdraw;
                    // accepted by the state machine: the 5-tuple is reset and the vault is asked for everything
                    &&& ret is Ok ==> ac_guard(old(self).state, o, op)
                    &&& ac_guard(old(self).state, o, op) ==> final(self).state == ac_next(old(self).state, o, op)
                    &&& ret is Ok ==> final(api).asset_log() == old(api).asset_log().push(AssetOp::TakenAll(old(self).controlled_asset))
                    &&& ret is Err ==> final(api).asset_log() == old(api).asset_log()
                    // refused: nothing happens at all
                    &&& !ac_guard(old(self).state, o, op) ==> ret is Err && ret->Err_0 == ac_err(old(self).state, o, op)
                            && final(self).state == old(self).state && *final(api) == *old(api)
                    &&& final(self).frame(old(self))
                }),
        @*/
    }

    /*@item radix-engine/src/blueprints/access_controller/v2/state_machine.rs :: struct AccessControllerTimedConfirmRecoveryStateMachineInput
    @*/
    impl TransitionMut<AccessControllerTimedConfirmRecoveryStateMachineInput> for AccessControllerV2Substate {
        /*@item radix-engine/src/blueprints/access_controller/v2/state_machine.rs :: impl TransitionMut<AccessControllerTimedConfirmRecoveryStateMachineInput> for AccessControllerV2Substate :: type Output
        @*/
        /*@fn radix-engine/src/blueprints/access_controller/v2/state_machine.rs :: impl TransitionMut<AccessControllerTimedConfirmRecoveryStateMachineInput> for AccessControllerV2Substate :: fn transition_mut
        @sig
            ensures step_contract(old(self), final(self), old(api), final(api), Op::TimedConfirmRecovery(input.proposal_to_confirm), ret),
                ret matches Ok(p) ==> p == input.proposal_to_confirm,
        @*/
    }

    /*@item radix-engine/src/blueprints/access_controller/v2/state_machine.rs :: struct AccessControllerCancelPrimaryRoleRecoveryProposalStateMachineInput
    @*/
    impl TransitionMut<AccessControllerCancelPrimaryRoleRecoveryProposalStateMachineInput> for AccessControllerV2Substate {
        /*@item radix-engine/src/blueprints/access_controller/v2/state_machine.rs :: impl TransitionMut<AccessControllerCancelPrimaryRoleRecoveryProposalStateMachineInput> for AccessControllerV2Substate :: type Output
        @*/
        /*@fn radix-engine/src/blueprints/access_controller/v2/state_machine.rs :: impl TransitionMut<AccessControllerCancelPrimaryRoleRecoveryProposalStateMachineInput> for AccessControllerV2Substate :: fn transition_mut
        @sig
            ensures step_contract(old(self), final(self), old(_api), final(_api), Op::CancelPrimaryRecovery, ret),
        @*/
    }

    /*@item radix-engine/src/blueprints/access_controller/v2/state_machine.rs :: struct AccessControllerCancelRecoveryRoleRecoveryProposalStateMachineInput
    @*/
    impl TransitionMut<AccessControllerCancelRecoveryRoleRecoveryProposalStateMachineInput> for AccessControllerV2Substate {
        /*@item radix-engine/src/blueprints/access_controller/v2/state_machine.rs :: impl TransitionMut<AccessControllerCancelRecoveryRoleRecoveryProposalStateMachineInput> for AccessControllerV2Substate :: type Output
        @*/
        /*@fn radix-engine/src/blueprints/access_controller/v2/state_machine.rs :: impl TransitionMut<AccessControllerCancelRecoveryRoleRecoveryProposalStateMachineInput> for AccessControllerV2Substate :: fn transition_mut
        @sig
            ensures step_contract(old(self), final(self), old(_api), final(_api), Op::CancelRecoveryRecovery, ret),
        @*/
    }

    /*@item radix-engine/src/blueprints/access_controller/v2/state_machine.rs :: struct AccessControllerCancelPrimaryRoleBadgeWithdrawAttemptStateMachineInput
    @*/
    impl TransitionMut<AccessControllerCancelPrimaryRoleBadgeWithdrawAttemptStateMachineInput> for AccessControllerV2Substate {
        /*@item radix-engine/src/blueprints/access_controller/v2/state_machine.rs :: impl TransitionMut<AccessControllerCancelPrimaryRoleBadgeWithdrawAttemptStateMachineInput> for AccessControllerV2Substate :: type Output
        @*/
        /*@fn radix-engine/src/blueprints/access_controller/v2/state_machine.rs :: impl TransitionMut<AccessControllerCancelPrimaryRoleBadgeWithdrawAttemptStateMachineInput> for AccessControllerV2Substate :: fn transition_mut
        @sig
            ensures step_contract(old(self), final(self), old(_api), final(_api), Op::CancelPrimaryBadgeWithdraw, ret),
        @*/
    }

    /*@item radix-engine/src/blueprints/access_controller/v2/state_machine.rs :: struct AccessControllerCancelRecoveryRoleBadgeWithdrawAttemptStateMachineInput
    @*/
    impl TransitionMut<AccessControllerCancelRecoveryRoleBadgeWithdrawAttemptStateMachineInput> for AccessControllerV2Substate {
        /*@item radix-engine/src/blueprints/access_controller/v2/state_machine.rs :: impl TransitionMut<AccessControllerCancelRecoveryRoleBadgeWithdrawAttemptStateMachineInput> for AccessControllerV2Substate :: type Output
        @*/
        /*@fn radix-engine/src/blueprints/access_controller/v2/state_machine.rs :: impl TransitionMut<AccessControllerCancelRecoveryRoleBadgeWithdrawAttemptStateMachineInput> for AccessControllerV2Substate :: fn transition_mut
        @sig
            ensures step_contract(old(self), final(self), old(_api), final(_api), Op::CancelRecoveryBadgeWithdraw, ret),
        @*/
    }

    /*@item radix-engine/src/blueprints/access_controller/v2/state_machine.rs :: struct AccessControllerLockPrimaryRoleStateMachineInput
    @*/
    impl TransitionMut<AccessControllerLockPrimaryRoleStateMachineInput> for AccessControllerV2Substate {
        /*@item radix-engine/src/blueprints/access_controller/v2/state_machine.rs :: impl TransitionMut<AccessControllerLockPrimaryRoleStateMachineInput> for AccessControllerV2Substate :: type Output
        @*/
        /*@fn radix-engine/src/blueprints/access_controller/v2/state_machine.rs :: impl TransitionMut<AccessControllerLockPrimaryRoleStateMachineInput> for AccessControllerV2Substate :: fn transition_mut
        @sig
            ensures step_contract(old(self), final(self), old(_api), final(_api), Op::LockPrimary, ret),
        @*/
    }

    /*@item radix-engine/src/blueprints/access_controller/v2/state_machine.rs :: struct AccessControllerUnlockPrimaryRoleStateMachineInput
    @*/
    impl TransitionMut<AccessControllerUnlockPrimaryRoleStateMachineInput> for AccessControllerV2Substate {
        /*@item radix-engine/src/blueprints/access_controller/v2/state_machine.rs :: impl TransitionMut<AccessControllerUnlockPrimaryRoleStateMachineInput> for AccessControllerV2Substate :: type Output
        @*/
        /*@fn radix-engine/src/blueprints/access_controller/v2/state_machine.rs :: impl TransitionMut<AccessControllerUnlockPrimaryRoleStateMachineInput> for AccessControllerV2Substate :: fn transition_mut
        @sig
            ensures step_contract(old(self), final(self), old(_api), final(_api), Op::UnlockPrimary, ret),
        @*/
    }

    /*@item radix-engine/src/blueprints/access_controller/v2/state_machine.rs :: struct AccessControllerStopTimedRecoveryStateMachineInput
    @*/
    impl TransitionMut<AccessControllerStopTimedRecoveryStateMachineInput> for AccessControllerV2Substate {
        /*@item radix-engine/src/blueprints/access_controller/v2/state_machine.rs :: impl TransitionMut<AccessControllerStopTimedRecoveryStateMachineInput> for AccessControllerV2Substate :: type Output
        @*/
        /*@fn radix-engine/src/blueprints/access_controller/v2/state_machine.rs :: impl TransitionMut<AccessControllerStopTimedRecoveryStateMachineInput> for AccessControllerV2Substate :: fn transition_mut
        @sig
            ensures step_contract(old(self), final(self), old(_api), final(_api), Op::StopTimedRecovery(input.proposal), ret),
        @*/
    }


    // ---------------------------------------------------------------------------------------------
    // History lemma over the contracts: every sequence of calls by anybody, with any clock readings
    // (passage of time) and any configured delay at each call. `run` replays the transition contracts:
    // an accepted call applies ac_next, a refused call changes nothing (this is what step_contract and
    // the three vault-calling contracts state about the 5-tuple).
    // ---------------------------------------------------------------------------------------------
    pub struct Call {
        pub op: Op,
        pub obs: Obs,
    }

    pub open spec fn run(h: Seq<Call>) -> St
        decreases h.len()
    {
        if h.len() == 0 {
            init_state()   // AccessControllerV2Substate::new: `state: Default::default()`
        } else {
            let s = run(h.drop_last());
            let c = h.last();
            if ac_guard(s, c.obs, c.op) { ac_next(s, c.obs, c.op) } else { s }
        }
    }

    /// call number j of the history was `op` and was accepted
    pub open spec fn accepted_at(h: Seq<Call>, j: int, op: Op) -> bool {
        0 <= j < h.len() && h[j].op == op && ac_guard(run(h.take(j)), h[j].obs, h[j].op)
    }
    /// a timed recovery initiated under observation `o` may be confirmed after `t`
    pub open spec fn timer_set(o: Obs, t: Instant) -> bool {
        o.delay matches Some(d) && add_minutes_spec(o.now, d as int) == Some(t)
    }

    /// Every pending attempt in the 5-tuple was put there by an accepted Initiate* call of this history.
    pub open spec fn pending_justified(h: Seq<Call>) -> bool {
        let s = run(h);
        slot1_ok(h, s) && slot2_ok(h, s) && slot3_ok(h, s) && slot4_ok(h, s)
    }

    pub proof fn lemma_extend(h: Seq<Call>, j: int, op: Op)
        requires h.len() > 0, accepted_at(h.drop_last(), j, op)
        ensures accepted_at(h, j, op), h[j] == h.drop_last()[j]
    {
        assert(h.take(j) =~= h.drop_last().take(j));
    }
    pub proof fn lemma_last(h: Seq<Call>)
        requires h.len() > 0, ac_guard(run(h.drop_last()), h.last().obs, h.last().op)
        ensures accepted_at(h, h.len() - 1, h.last().op)
    {
        assert(h.take(h.len() - 1) =~= h.drop_last());
    }

    pub open spec fn slot1_ok(h: Seq<Call>, s: St) -> bool {
        match s.1 {
            PrimaryRoleRecoveryAttemptState::RecoveryAttempt(p) =>
                exists|j: int| accepted_at(h, j, Op::InitiateRecoveryAsPrimary(p)),
            PrimaryRoleRecoveryAttemptState::NoRecoveryAttempt => true,
        }
    }
    pub open spec fn slot2_ok(h: Seq<Call>, s: St) -> bool {
        s.2 == PrimaryRoleBadgeWithdrawAttemptState::BadgeWithdrawAttempt ==>
            exists|j: int| accepted_at(h, j, Op::InitiateBadgeWithdrawAsPrimary)
    }
    pub open spec fn slot3_ok(h: Seq<Call>, s: St) -> bool {
        match s.3 {
            RecoveryRoleRecoveryAttemptState::NoRecoveryAttempt => true,
            RecoveryRoleRecoveryAttemptState::RecoveryAttempt(RecoveryRoleRecoveryState::UntimedRecovery(p)) =>
                exists|j: int| accepted_at(h, j, Op::InitiateRecoveryAsRecovery(p)),
            RecoveryRoleRecoveryAttemptState::RecoveryAttempt(RecoveryRoleRecoveryState::TimedRecovery { proposal, timed_recovery_allowed_after }) =>
                exists|j: int| accepted_at(h, j, Op::InitiateRecoveryAsRecovery(proposal)) && timer_set(h[j].obs, timed_recovery_allowed_after),
        }
    }
    pub open spec fn slot4_ok(h: Seq<Call>, s: St) -> bool {
        s.4 == RecoveryRoleBadgeWithdrawAttemptState::BadgeWithdrawAttempt ==>
            exists|j: int| accepted_at(h, j, Op::InitiateBadgeWithdrawAsRecovery)
    }

    /// a slot that a call leaves alone stays justified in the extended history
    pub proof fn lemma_slots_carry_over(h: Seq<Call>, s: St)
        requires h.len() > 0
        ensures
            slot1_ok(h.drop_last(), s) ==> slot1_ok(h, s),
            slot2_ok(h.drop_last(), s) ==> slot2_ok(h, s),
            slot3_ok(h.drop_last(), s) ==> slot3_ok(h, s),
            slot4_ok(h.drop_last(), s) ==> slot4_ok(h, s),
    {
        let h0 = h.drop_last();
        if slot1_ok(h0, s) {
            if let PrimaryRoleRecoveryAttemptState::RecoveryAttempt(p) = s.1 {
                let j = choose|j: int| accepted_at(h0, j, Op::InitiateRecoveryAsPrimary(p));
                lemma_extend(h, j, Op::InitiateRecoveryAsPrimary(p));
            }
        }
        if slot2_ok(h0, s) && s.2 == PrimaryRoleBadgeWithdrawAttemptState::BadgeWithdrawAttempt {
            let j = choose|j: int| accepted_at(h0, j, Op::InitiateBadgeWithdrawAsPrimary);
            lemma_extend(h, j, Op::InitiateBadgeWithdrawAsPrimary);
        }
        if slot4_ok(h0, s) && s.4 == RecoveryRoleBadgeWithdrawAttemptState::BadgeWithdrawAttempt {
            let j = choose|j: int| accepted_at(h0, j, Op::InitiateBadgeWithdrawAsRecovery);
            lemma_extend(h, j, Op::InitiateBadgeWithdrawAsRecovery);
        }
        if slot3_ok(h0, s) {
            match s.3 {
                RecoveryRoleRecoveryAttemptState::RecoveryAttempt(RecoveryRoleRecoveryState::TimedRecovery { proposal, timed_recovery_allowed_after }) => {
                    let j = choose|j: int| accepted_at(h0, j, Op::InitiateRecoveryAsRecovery(proposal)) && timer_set(h0[j].obs, timed_recovery_allowed_after);
                    lemma_extend(h, j, Op::InitiateRecoveryAsRecovery(proposal));
                    assert(accepted_at(h, j, Op::InitiateRecoveryAsRecovery(proposal)) && timer_set(h[j].obs, timed_recovery_allowed_after));
                },
                RecoveryRoleRecoveryAttemptState::RecoveryAttempt(RecoveryRoleRecoveryState::UntimedRecovery(p)) => {
                    let j = choose|j: int| accepted_at(h0, j, Op::InitiateRecoveryAsRecovery(p));
                    lemma_extend(h, j, Op::InitiateRecoveryAsRecovery(p));
                },
                _ => {},
            }
        }
    }

    /// How one accepted call can change each slot (read off ac_next): it leaves the slot alone, clears
    /// it, or is the Initiate* call of that slot (StopTimedRecovery keeps the recovery role's proposal).
    pub proof fn lemma_step_slots(s0: St, o: Obs, op: Op)
        requires ac_guard(s0, o, op)
        ensures ({
            let s = ac_next(s0, o, op);
            &&& s.1 == s0.1 || s.1 == PrimaryRoleRecoveryAttemptState::NoRecoveryAttempt
                    || (op matches Op::InitiateRecoveryAsPrimary(p) && s.1 == PrimaryRoleRecoveryAttemptState::RecoveryAttempt(p))
            &&& s.2 == s0.2 || s.2 == PrimaryRoleBadgeWithdrawAttemptState::NoBadgeWithdrawAttempt
                    || op == Op::InitiateBadgeWithdrawAsPrimary
            &&& s.4 == s0.4 || s.4 == RecoveryRoleBadgeWithdrawAttemptState::NoBadgeWithdrawAttempt
                    || op == Op::InitiateBadgeWithdrawAsRecovery
            &&& s.3 == s0.3 || s.3 == RecoveryRoleRecoveryAttemptState::NoRecoveryAttempt
                    || (op matches Op::InitiateRecoveryAsRecovery(p) && o.delay is None
                            && s.3 == RecoveryRoleRecoveryAttemptState::RecoveryAttempt(RecoveryRoleRecoveryState::UntimedRecovery(p)))
                    || (op matches Op::InitiateRecoveryAsRecovery(p) && o.delay matches Some(d) && add_minutes_spec(o.now, d as int) matches Some(t)
                            && s.3 == RecoveryRoleRecoveryAttemptState::RecoveryAttempt(RecoveryRoleRecoveryState::TimedRecovery { proposal: p, timed_recovery_allowed_after: t }))
                    || (op matches Op::StopTimedRecovery(p) && timed_recovery(s0.3) matches Some(pt) && pt.0 == p
                            && s.3 == RecoveryRoleRecoveryAttemptState::RecoveryAttempt(RecoveryRoleRecoveryState::UntimedRecovery(p)))
        }),
    {
    }

    pub proof fn lemma_pending_justified(h: Seq<Call>)
        ensures pending_justified(h)
        decreases h.len()
    {
        if h.len() > 0 {
            let h0 = h.drop_last();
            let c = h.last();
            let s0 = run(h0);
            let s = run(h);
            lemma_pending_justified(h0);
            lemma_slots_carry_over(h, s0);
            if ac_guard(s0, c.obs, c.op) {
                let k = h.len() - 1;
                lemma_last(h);
                assert(h[k].obs == c.obs);
                assert(s == ac_next(s0, c.obs, c.op));
                lemma_step_slots(s0, c.obs, c.op);
                lemma_slots_carry_over(h, s);
                // slot 1
                assert(slot1_ok(h, s)) by {
                    if s.1 == s0.1 {
                        assert(slot1_ok(h, s0));
                    } else if s.1 != PrimaryRoleRecoveryAttemptState::NoRecoveryAttempt {
                        assert(accepted_at(h, k, c.op));
                    }
                }
                assert(slot2_ok(h, s)) by {
                    if s.2 == s0.2 {
                        assert(slot2_ok(h, s0));
                    } else if s.2 != PrimaryRoleBadgeWithdrawAttemptState::NoBadgeWithdrawAttempt {
                        assert(accepted_at(h, k, Op::InitiateBadgeWithdrawAsPrimary));
                    }
                }
                assert(slot4_ok(h, s)) by {
                    if s.4 == s0.4 {
                        assert(slot4_ok(h, s0));
                    } else if s.4 != RecoveryRoleBadgeWithdrawAttemptState::NoBadgeWithdrawAttempt {
                        assert(accepted_at(h, k, Op::InitiateBadgeWithdrawAsRecovery));
                    }
                }
                assert(slot3_ok(h, s)) by {
                    if s.3 == s0.3 {
                        assert(slot3_ok(h, s0));
                    } else if s.3 != RecoveryRoleRecoveryAttemptState::NoRecoveryAttempt {
                        match c.op {
                            Op::InitiateRecoveryAsRecovery(p) => {
                                assert(accepted_at(h, k, Op::InitiateRecoveryAsRecovery(p)));
                                if c.obs.delay is Some {
                                    let t = add_minutes_spec(c.obs.now, c.obs.delay.unwrap() as int).unwrap();
                                    assert(accepted_at(h, k, Op::InitiateRecoveryAsRecovery(p)) && timer_set(h[k].obs, t));
                                }
                            },
                            Op::StopTimedRecovery(p) => {
                                // the proposal stays the recovery role's own proposal, only the timer is dropped
                                let t = timed_recovery(s0.3).unwrap().1;
                                let j = choose|j: int| accepted_at(h0, j, Op::InitiateRecoveryAsRecovery(p)) && timer_set(h0[j].obs, t);
                                lemma_extend(h, j, Op::InitiateRecoveryAsRecovery(p));
                            },
                            _ => {},
                        }
                    }
                }
            }
        }
    }

    /// The three roles and which of them may invoke which method.
    /// ASSUMED DATA (not read by the proof): transcribed from v2/package.rs, `method_auth: roles_template!`.
    /*@item radix-engine-interface/src/blueprints/access_controller/data.rs :: enum Role
    @derive Copy, Clone, PartialEq, Eq
    @*/
    pub open spec fn may_call(r: Role, op: Op) -> bool {
        match op {
            Op::TimedConfirmRecovery(_) => true,    // MethodAccessibility::Public
            Op::CreateProof => r == Role::Primary,
            Op::InitiateRecoveryAsPrimary(_) | Op::CancelPrimaryRecovery | Op::InitiateBadgeWithdrawAsPrimary | Op::CancelPrimaryBadgeWithdraw => r == Role::Primary,
            Op::InitiateRecoveryAsRecovery(_) | Op::CancelRecoveryRecovery | Op::InitiateBadgeWithdrawAsRecovery | Op::CancelRecoveryBadgeWithdraw => r == Role::Recovery,
            Op::LockPrimary | Op::UnlockPrimary => r == Role::Recovery,
            Op::QuickConfirmPrimaryRecovery(_) | Op::QuickConfirmPrimaryBadgeWithdraw => r == Role::Recovery || r == Role::Confirmation,
            Op::QuickConfirmRecoveryRecovery(_) | Op::QuickConfirmRecoveryBadgeWithdraw => r == Role::Primary || r == Role::Confirmation,
            Op::StopTimedRecovery(_) => true,       // all three roles
        }
    }

    /// C40 over histories. Whenever a call that replaces the rules (a recovery confirmation returning
    /// proposal p) or releases the controlled asset (a badge-withdraw confirmation) is accepted after
    /// history h, then
    ///  * quick confirmations: an earlier accepted call of h initiated exactly that change (same p), the
    ///    initiating method belongs to one role only and no role allowed to call the confirming method is
    ///    that role (two different roles);
    ///  * timed confirmation: an earlier accepted InitiateRecoveryAsRecovery(p) of h (recovery role only)
    ///    set the timer to `its clock + the delay configured then`, and the confirming call's clock has
    ///    reached that instant.
    pub proof fn theorem_two_roles_or_elapsed_timer(h: Seq<Call>, c: Call)
        requires ac_guard(run(h), c.obs, c.op)
        ensures
            c.op matches Op::QuickConfirmPrimaryRecovery(p) ==> {
                &&& exists|j: int| accepted_at(h, j, Op::InitiateRecoveryAsPrimary(p))
                &&& forall|a: Role, b: Role| may_call(a, Op::InitiateRecoveryAsPrimary(p)) && may_call(b, c.op) ==> a == Role::Primary && b != a
            },
            c.op matches Op::QuickConfirmRecoveryRecovery(p) ==> {
                &&& exists|j: int| accepted_at(h, j, Op::InitiateRecoveryAsRecovery(p))
                &&& forall|a: Role, b: Role| may_call(a, Op::InitiateRecoveryAsRecovery(p)) && may_call(b, c.op) ==> a == Role::Recovery && b != a
            },
            c.op matches Op::TimedConfirmRecovery(p) ==> {
                &&& exists|j: int, t: Instant| accepted_at(h, j, Op::InitiateRecoveryAsRecovery(p))
                        && timer_set(h[j].obs, t) && time_reached(c.obs.now, t) && c.obs.time_err is None
                &&& forall|a: Role| may_call(a, Op::InitiateRecoveryAsRecovery(p)) ==> a == Role::Recovery
            },
            c.op == Op::QuickConfirmPrimaryBadgeWithdraw ==> {
                &&& exists|j: int| accepted_at(h, j, Op::InitiateBadgeWithdrawAsPrimary)
                &&& forall|a: Role, b: Role| may_call(a, Op::InitiateBadgeWithdrawAsPrimary) && may_call(b, c.op) ==> a == Role::Primary && b != a
            },
            c.op == Op::QuickConfirmRecoveryBadgeWithdraw ==> {
                &&& exists|j: int| accepted_at(h, j, Op::InitiateBadgeWithdrawAsRecovery)
                &&& forall|a: Role, b: Role| may_call(a, Op::InitiateBadgeWithdrawAsRecovery) && may_call(b, c.op) ==> a == Role::Recovery && b != a
            },
            // a proof of the controlled asset is only created while the primary role is unlocked
            c.op == Op::CreateProof ==> run(h).0 == PrimaryRoleLockingState::Unlocked,
    {
        lemma_pending_justified(h);
        match c.op {
            Op::TimedConfirmRecovery(p) => {
                let t = timed_recovery(run(h).3).unwrap().1;
                let j = choose|j: int| accepted_at(h, j, Op::InitiateRecoveryAsRecovery(p)) && timer_set(h[j].obs, t);
                assert(accepted_at(h, j, Op::InitiateRecoveryAsRecovery(p)) && timer_set(h[j].obs, t) && time_reached(c.obs.now, t));
            },
            _ => {},
        }
    }
}
} // verus!
fn main() {}
