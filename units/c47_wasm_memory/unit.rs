// Unit c47_wasm_memory -- property C47 "Host memory access from WASM is always bounds-checked"
// Real code: radix-engine/src/vm/wasm/wasmi.rs :: fn read_memory, fn write_memory, fn read_slice
//            radix-engine-interface/src/types/wasm.rs :: Slice::{new, ptr, len, transmute_i64} (the fat pointer WASM returns)
// wasmi itself (Store, Memory) is the ENVIRONMENT: `Memory::data` is a `&[u8]` view of the linear memory,
// `Memory::write` is an assumed contract that REQUIRES offset + len <= size, so that a missing or wrong
// bounds check in the real code is a failed precondition.
use vstd::prelude::*;
verus! {
// the engine runs on 64-bit hosts; on a 32-bit host `ptr as usize + len as usize` could overflow (stated assumption)
global size_of usize == 8;
/*@include shims/rt.rs @*/
/*@include shims/bytes.rs @*/

pub mod env {
    use vstd::prelude::*;
    // ---- wasmi 0.39 model -----------------------------------------------------------------
    /// `wasmi::Memory`: a copyable handle to a linear memory owned by a store
    #[derive(Clone, Copy)]
    pub struct Memory { pub id: usize }
    /// the store's contents, opaque except for the bytes of each linear memory
    #[verifier::external_body]
    pub struct StoreInner { _p: () }
    impl StoreInner {
        pub uninterp spec fn mem(&self, m: Memory) -> Seq<u8>;
    }
    /// `wasmi::StoreContext<'a, T>` / `StoreContextMut<'a, T>`: a shared / exclusive borrow of the store
    pub struct StoreContext<'a> { pub store: &'a StoreInner }
    pub struct StoreContextMut<'a> { pub store: &'a mut StoreInner }
    /// `wasmi::AsContext` / `AsContextMut` -- ASSUMED: the context returned is a borrow of the same
    /// store (nothing is changed by taking it; what is done through the exclusive borrow is what
    /// happens to the store)
    pub trait AsContext {
        spec fn inner(&self) -> StoreInner;
        fn as_context(&self) -> (r: StoreContext<'_>) ensures *r.store == self.inner();
    }
    pub trait AsContextMut: AsContext {
        fn as_context_mut(&mut self) -> (r: StoreContextMut<'_>)
            ensures *r.store == old(self).inner(), *final(r.store) == final(self).inner();
    }
    /// what `Memory::data` accepts (`impl Into<StoreContext<'a, T>>` in wasmi): `&StoreContext`
    /// and `&mut StoreContextMut`; ASSUMED: reading the bytes changes nothing.
    pub trait DataCtx<'a> {
        spec fn mem_of(&self, m: Memory) -> Seq<u8>;
        #[verifier::prophetic]
        spec fn untouched(&self) -> bool;
    }
    impl<'a, 'b> DataCtx<'a> for &'a StoreContext<'b> {
        open spec fn mem_of(&self, m: Memory) -> Seq<u8> { self.store.mem(m) }
        #[verifier::prophetic]
        open spec fn untouched(&self) -> bool { true }
    }
    impl<'a, 'b> DataCtx<'a> for &'a mut StoreContextMut<'b> {
        open spec fn mem_of(&self, m: Memory) -> Seq<u8> { self.store.mem(m) }
        #[verifier::prophetic]
        open spec fn untouched(&self) -> bool { *final(*self) == **self }
    }
    /// the instance the host functions use: `caller.as_context_mut()` hands a `StoreContextMut` to
    /// read_memory / write_memory; re-borrowing it yields a context on the same store
    impl<'a> AsContext for StoreContextMut<'a> {
        open spec fn inner(&self) -> StoreInner { *self.store }
        fn as_context(&self) -> (r: StoreContext<'_>) { StoreContext { store: &*self.store } }
    }
    impl<'a> AsContextMut for StoreContextMut<'a> {
        fn as_context_mut(&mut self) -> (r: StoreContextMut<'_>)
            ensures *final(final(self).store) == *final(old(self).store)
        { StoreContextMut { store: &mut *self.store } }
    }
    pub struct MemoryError;
    impl Memory {
        /// ASSUMED (wasmi `Memory::data`): the whole linear memory as a byte slice
        #[verifier::external_body]
        pub fn data<'a, C: DataCtx<'a>>(&self, ctx: C) -> (r: &'a [u8])
            ensures r@ == ctx.mem_of(*self), ctx.untouched()
        { unimplemented!() }
        /// ASSUMED (wasmi `Memory::data_mut`): the whole linear memory as a mutable byte slice; what is written
        /// through the slice is what happens to this memory, nothing else changes.  Not used by the shipped
        /// code: present so that a rewrite of write_memory through it is DECIDED instead of being an unknown method.
        #[verifier::external_body]
        pub fn data_mut<'a, 'b>(&self, ctx: &'a mut StoreContextMut<'b>) -> (r: &'a mut [u8])
            ensures r@ == old(ctx).store.mem(*self),
                final(ctx).store.mem(*self) == final(r)@,
                final(r)@ == r@ ==> *final(ctx).store == *old(ctx).store,
                forall|m: Memory| m != *self ==> final(ctx).store.mem(m) == old(ctx).store.mem(m),
                *final(final(ctx).store) == *final(old(ctx).store),
        { unimplemented!() }
        /// ASSUMED (wasmi `Memory::write`), deliberately with the bounds as a PRECONDITION: it is the
        /// caller's (= the code under contract) duty to have checked `offset + len <= size`; then
        /// exactly `memory[offset .. offset+len]` is overwritten with `buffer` and the call succeeds.
        #[verifier::external_body]
        pub fn write(&self, ctx: &mut StoreContextMut<'_>, offset: usize, buffer: &[u8]) -> (r: Result<(), MemoryError>)
            requires offset + buffer@.len() <= old(ctx).store.mem(*self).len()
            ensures r is Ok,
                final(ctx).store.mem(*self) == old(ctx).store.mem(*self).subrange(0, offset as int) + buffer@
                    + old(ctx).store.mem(*self).subrange(offset + buffer@.len(), old(ctx).store.mem(*self).len() as int),
                forall|m: Memory| m != *self ==> final(ctx).store.mem(m) == old(ctx).store.mem(m),
                // the context still borrows the same store (same prophecy) afterwards
                *final(final(ctx).store) == *final(old(ctx).store),
        { unimplemented!() }
    }

    // ---- error environment ------------------------------------------------------------------
    pub struct RuntimeError;
    /// radix-engine/src/errors.rs :: trait SelfError
    pub trait SelfError: Sized {
        fn into_runtime_error(self) -> RuntimeError;
    }
    // payload types of WasmRuntimeError variants never constructed here (opaque)
    pub struct BufferId;
    pub struct DecodeError;
    pub struct FeeReserveError;
    pub struct ParseEd25519PublicKeyError;
    pub struct ParseEd25519SignatureError;
    pub struct ParseSecp256k1PublicKeyError;
    pub struct ParseSecp256k1SignatureError;
    pub struct ParseHashError;
}

pub mod unit {
    use vstd::prelude::*;
    use super::rt::*;
    use super::bytes::*;
    use super::env::*;

    /*@item radix-engine/src/errors.rs :: enum InvokeError
    @derive
    @*/
    /*@item radix-engine/src/vm/wasm/errors.rs :: enum WasmRuntimeError
    @derive
    @*/
    impl SelfError for WasmRuntimeError {
        #[verifier::external_body]
        fn into_runtime_error(self) -> RuntimeError { unimplemented!() }
    }
    /*@item radix-engine-interface/src/types/wasm.rs :: struct Slice
    @derive
    @*/

    // ------------------------------------------------------------------------------------------
    // Oracle, from the property: a (ptr, len) pair is served iff the range lies inside the linear
    // memory; then exactly that range is read / written; otherwise MemoryAccessError.
    // ------------------------------------------------------------------------------------------
    pub open spec fn in_range(mem: Seq<u8>, ptr: int, len: int) -> bool { ptr + len <= mem.len() }
    pub open spec fn access_error() -> InvokeError<WasmRuntimeError> { InvokeError::SelfError(WasmRuntimeError::MemoryAccessError) }
    pub open spec fn read_result(mem: Seq<u8>, ptr: int, len: int, ret: Result<Vec<u8>, InvokeError<WasmRuntimeError>>) -> bool {
        &&& (ret is Ok <==> in_range(mem, ptr, len))
        &&& (ret matches Ok(v) ==> v@ =~= mem.subrange(ptr, ptr + len))
        &&& (ret matches Err(e) ==> e == access_error())
    }
    pub open spec fn slice_ptr(s: Slice) -> u32 { (s.0 >> 32) as u32 }
    pub open spec fn slice_len(s: Slice) -> u32 { (s.0 & 0xffffffff) as u32 }

    impl Slice {
        /*@fn radix-engine-interface/src/types/wasm.rs :: impl Slice :: fn new
        @sig
            ensures slice_ptr(ret) == ptr, slice_len(ret) == len
        @entry
            proof {
                assert(((((ptr as u64) << 32) | (len as u64)) >> 32) as u32 == ptr) by (bit_vector);
                assert(((((ptr as u64) << 32) | (len as u64)) & 0xffffffff) as u32 == len) by (bit_vector);
            }
        @*/
        /*@fn radix-engine-interface/src/types/wasm.rs :: impl Slice :: fn ptr
        @sig
            ensures ret == slice_ptr(*self)
        @*/
        /*@fn radix-engine-interface/src/types/wasm.rs :: impl Slice :: fn len
        @sig
            ensures ret == slice_len(*self)
        @*/
        /*@fn radix-engine-interface/src/types/wasm.rs :: impl Slice :: fn transmute_i64
        @sig
            ensures ret.0 == n as u64
        @*/
    }

    /*@fn radix-engine/src/vm/wasm/wasmi.rs :: fn read_memory
    @sig
        ensures read_result(store.inner().mem(memory), ptr as int, len as int, ret)
    @*/

    /*@fn radix-engine/src/vm/wasm/wasmi.rs :: fn write_memory
    @sig
        requires data@.len() <= isize::MAX
        ensures
            ret is Ok <==> in_range(store.inner().mem(memory), ptr as int, data@.len() as int),
            ret matches Err(e) ==> e == access_error(),
    @closure? 1 := |_e: MemoryError| -> (r: InvokeError<WasmRuntimeError>) ensures r == access_error()
    @*/

    /// what a successful write does to the linear memory: exactly [ptr, ptr+len) is replaced by `data`
    pub open spec fn written(mem: Seq<u8>, ptr: int, data: Seq<u8>) -> Seq<u8> {
        mem.subrange(0, ptr) + data + mem.subrange(ptr + data.len(), mem.len() as int)
    }
    /// The effect of write_memory on the store.  A postcondition cannot speak about the state behind a
    /// generic by-value handle (`impl AsContextMut`), so the SAME body is verified a second time at the
    /// instance `StoreContextMut<'_>` (what `caller.as_context_mut()` passes), where the store behind
    /// the handle is visible as `final(store.store)`.
    pub mod mono {
        use vstd::prelude::*;
        use super::super::rt::*;
        use super::super::env::*;
        use super::*;
        /*@fn radix-engine/src/vm/wasm/wasmi.rs :: fn write_memory
        @subst <<store: impl AsContextMut>> => <<store: StoreContextMut<'_>>> why: monomorphic instance of the generic parameter (the type passed by the host functions via caller.as_context_mut()); only the parameter type is changed, the body is verbatim; the generic original is verified separately in unit::write_memory
        @sig
            requires data@.len() <= isize::MAX
            ensures
                ret is Ok <==> in_range(old(store.store).mem(memory), ptr as int, data@.len() as int),
                ret matches Err(e) ==> e == access_error(),
                // exactly that range is written, every other byte and every other memory is untouched
                ret is Ok ==> final(store.store).mem(memory) == written(old(store.store).mem(memory), ptr as int, data@),
                ret is Ok ==> forall|m: Memory| m != memory ==> final(store.store).mem(m) == old(store.store).mem(m),
                // a refused write changes nothing
                ret is Err ==> *final(store.store) == *old(store.store),
        @closure? 1 := |_e: MemoryError| -> (r: InvokeError<WasmRuntimeError>) ensures r == access_error()
        @*/
    }

    /*@fn radix-engine/src/vm/wasm/wasmi.rs :: fn read_slice
    @sig
        ensures read_result(store.inner().mem(memory), slice_ptr(v) as int, slice_len(v) as int, ret)
    @*/
}
} // verus!
fn main() {}
