// Unit c07_tracker -- property C07 "An intent can be committed at most once before it expires"
// Real code: TransactionTrackerSubstateV1::{partition_for_expiry_epoch, advance},
//            System::validate_epoch_range, the advance condition of update_transaction_tracker.
use vstd::prelude::*;
verus! {
/*@include shims/rt.rs @*/

pub mod env {
    use vstd::prelude::*;
    use core::cmp::Ordering;
    /*@item radix-common/src/types/consensus.rs :: struct Epoch
    @derive Clone, Copy, PartialEq, Eq
    @*/
    // ASSUMED: the derived PartialOrd on the one-field tuple struct compares the field.
    impl PartialOrd for Epoch {
        #[verifier::external_body]
        fn partial_cmp(&self, o: &Epoch) -> (r: Option<Ordering>)
            ensures r == Some(if self.0 < o.0 { Ordering::Less } else if self.0 == o.0 { Ordering::Equal } else { Ordering::Greater })
        { unimplemented!() }
    }
    impl vstd::std_specs::cmp::PartialOrdSpecImpl for Epoch {
        open spec fn obeys_partial_cmp_spec() -> bool { true }
        open spec fn partial_cmp_spec(&self, o: &Epoch) -> Option<Ordering> {
            Some(if self.0 < o.0 { Ordering::Less } else if self.0 == o.0 { Ordering::Equal } else { Ordering::Greater })
        }
    }
    impl vstd::std_specs::cmp::PartialEqSpecImpl for Epoch {
        open spec fn obeys_eq_spec() -> bool { true }
        open spec fn eq_spec(&self, o: &Epoch) -> bool { self.0 == o.0 }
    }
    // environment: the two rejection reasons constructed by validate_epoch_range
    pub enum RejectionReason {
        TransactionEpochNotYetValid { valid_from: Epoch, current_epoch: Epoch },
        TransactionEpochNoLongerValid { valid_until: Epoch, current_epoch: Epoch },
    }
}

pub mod unit {
    use vstd::prelude::*;
    use super::rt::*;
    use super::env::*;

    impl Epoch {
        /*@fn radix-common/src/types/consensus.rs :: impl Epoch :: fn zero
        @sig
            ensures ret.0 == 0
        @*/
        /*@fn radix-common/src/types/consensus.rs :: impl Epoch :: fn of
        @sig
            ensures ret.0 == number
        @*/
        /*@fn radix-common/src/types/consensus.rs :: impl Epoch :: fn number
        @sig
            ensures ret == self.0
        @*/
        /*@fn radix-common/src/types/consensus.rs :: impl Epoch :: fn previous
        @sig
            ensures ret == (if self.0 == 0 { None } else { Some(Epoch((self.0 - 1) as u64)) })
        @subst <<.map(Self)>> => <<.map(|x: u64| -> (r: Epoch) ensures r.0 == x { Epoch(x) })>> why: Verus does not accept a tuple-struct constructor used as a function value; the closure is its eta-expansion
        @*/
    }

    /*@item radix-engine/src/blueprints/transaction_tracker/package.rs :: struct TransactionTrackerSubstateV1
    @*/

    pub type T = TransactionTrackerSubstateV1;

    // ------------------------------------------------------------------------------------------
    // Oracle, from the property: a ring of N = hi-lo+1 partitions; bucket b (b-th block of
    // epochs_per_partition epochs from start_epoch) lives in ring slot (start_partition-lo+b) mod N.
    // ------------------------------------------------------------------------------------------
    pub open spec fn n(t: T) -> int { t.partition_range_end_inclusive - t.partition_range_start_inclusive + 1 }
    pub open spec fn wf(t: T) -> bool {
        &&& t.partition_range_start_inclusive <= t.start_partition <= t.partition_range_end_inclusive
        &&& t.epochs_per_partition > 0
        &&& n(t) <= 255
        &&& t.start_epoch + n(t) * t.epochs_per_partition <= u64::MAX
    }
    pub open spec fn in_window(t: T, e: int) -> bool {
        t.start_epoch <= e < t.start_epoch + n(t) * t.epochs_per_partition
    }
    pub open spec fn slot(t: T, bucket: int) -> int {
        t.partition_range_start_inclusive + (t.start_partition - t.partition_range_start_inclusive + bucket) % n(t)
    }
    pub open spec fn bucket(t: T, e: int) -> int { (e - t.start_epoch) / (t.epochs_per_partition as int) }
    pub open spec fn pf(t: T, e: int) -> Option<u8> {
        if in_window(t, e) { Some(slot(t, bucket(t, e)) as u8) } else { None }
    }
    pub open spec fn advanced(t: T) -> T {
        TransactionTrackerSubstateV1 {
            start_epoch: (t.start_epoch + t.epochs_per_partition) as u64,
            start_partition: if t.start_partition == t.partition_range_end_inclusive { t.partition_range_start_inclusive } else { (t.start_partition + 1) as u8 },
            partition_range_start_inclusive: t.partition_range_start_inclusive,
            partition_range_end_inclusive: t.partition_range_end_inclusive,
            epochs_per_partition: t.epochs_per_partition,
        }
    }

    pub proof fn lemma_mod_small(x: int, m: int)
        requires 0 <= x < 2 * m, m > 0
        ensures x % m == (if x < m { x } else { x - m })
    {
        assert(x % m == (if x < m { x } else { x - m })) by (nonlinear_arith) requires 0 <= x < 2 * m, m > 0;
    }
    pub proof fn lemma_bucket(d: int, e: int, nn: int)
        requires 0 <= d < nn * e, e > 0
        ensures 0 <= d / e < nn, (d >= e ==> (d - e) / e == d / e - 1), (d < e <==> d / e == 0)
    {
        assert(0 <= d / e < nn) by (nonlinear_arith) requires 0 <= d < nn * e, e > 0;
        assert(d >= e ==> (d - e) / e == d / e - 1) by (nonlinear_arith) requires 0 <= d, e > 0;
        assert(d < e <==> d / e == 0) by (nonlinear_arith) requires 0 <= d, e > 0;
    }
    pub proof fn lemma_slot_range(t: T, b: int)
        requires wf(t), 0 <= b < n(t)
        ensures t.partition_range_start_inclusive <= slot(t, b) <= t.partition_range_end_inclusive,
    {
        lemma_mod_small(t.start_partition - t.partition_range_start_inclusive + b, n(t));
    }
    /// distinct live buckets live in distinct slots
    pub proof fn lemma_slot_injective(t: T, a: int, b: int)
        requires wf(t), 0 <= a < n(t), 0 <= b < n(t), slot(t, a) == slot(t, b)
        ensures a == b
    {
        lemma_mod_small(t.start_partition - t.partition_range_start_inclusive + a, n(t));
        lemma_mod_small(t.start_partition - t.partition_range_start_inclusive + b, n(t));
    }

    /// C07 core: advancing the ring keeps every record that has not expired addressable at the
    /// same slot, and the slot handed back for deletion is the slot of the expired bucket only.
    pub proof fn lemma_advance(t: T, e: int)
        requires wf(t), t.start_epoch + (n(t) + 1) * t.epochs_per_partition <= u64::MAX,
        ensures
            wf(advanced(t)),
            // records stay addressable
            (t.start_epoch + t.epochs_per_partition <= e && in_window(t, e)) ==> pf(advanced(t), e) == pf(t, e),
            // only the expired bucket is discarded
            (t.start_epoch + t.epochs_per_partition <= e && in_window(t, e)) ==> pf(t, e) != Some(t.start_partition),
            (t.start_epoch <= e < t.start_epoch + t.epochs_per_partition) ==> pf(t, e) == Some(t.start_partition),
            // the freed slot is re-used for exactly the new last bucket
            (in_window(advanced(t), e) && !in_window(t, e)) ==> pf(advanced(t), e) == Some(t.start_partition),
    {
        let t2 = advanced(t);
        let nn = n(t); let epp = t.epochs_per_partition as int; let lo = t.partition_range_start_inclusive as int;
        let x = t.start_partition - lo;
        assert(n(t2) == nn);
        assert((nn + 1) * epp == nn * epp + epp) by (nonlinear_arith);
        assert(wf(t2));
        lemma_mod_small(x + 0, nn);
        if t.start_epoch <= e < t.start_epoch + epp {
            assert(nn * epp >= epp) by (nonlinear_arith) requires nn >= 1, epp > 0;
            lemma_bucket(e - t.start_epoch, epp, nn);
        }
        if t.start_epoch + epp <= e && in_window(t, e) {
            let d = e - t.start_epoch;
            lemma_bucket(d, epp, nn);
            let b = d / epp;
            assert(b >= 1);
            assert(bucket(t2, e) == b - 1);
            lemma_mod_small(x + b, nn);
            lemma_mod_small((t2.start_partition - lo) + (b - 1), nn);
            assert(in_window(t2, e));
            lemma_slot_range(t, b);
            assert(slot(t, 0) == t.start_partition);
            if slot(t, b) == slot(t, 0) { lemma_slot_injective(t, b, 0); }
        }
        if in_window(t2, e) && !in_window(t, e) {
            let d2 = e - t2.start_epoch;
            assert(nn * epp - epp == (nn - 1) * epp) by (nonlinear_arith);
            assert(d2 >= (nn - 1) * epp);
            assert(d2 / epp >= nn - 1) by (nonlinear_arith) requires d2 >= (nn - 1) * epp, epp > 0;
            lemma_bucket(d2, epp, nn);
            assert(bucket(t2, e) == nn - 1);
            lemma_mod_small((t2.start_partition - lo) + (nn - 1), nn);
        }
    }

    impl TransactionTrackerSubstateV1 {
        /*@fn radix-engine/src/blueprints/transaction_tracker/package.rs :: impl TransactionTrackerSubstateV1 :: fn partition_for_expiry_epoch
        @sig
            requires wf(*self)
            ensures ret == pf(*self, epoch.0 as int),
                    ret matches Some(p) ==> self.partition_range_start_inclusive <= p <= self.partition_range_end_inclusive,
        @before <<let mut partition_number>> #1
            proof {
                lemma_bucket((epoch - self.start_epoch) as int, self.epochs_per_partition as int, n(*self));
                lemma_mod_small(self.start_partition - self.partition_range_start_inclusive + bucket(*self, epoch as int), n(*self));
            }
        @*/

        /*@fn radix-engine/src/blueprints/transaction_tracker/package.rs :: impl TransactionTrackerSubstateV1 :: fn advance
        @sig
            requires wf(*old(self)), old(self).start_epoch + (n(*old(self)) + 1) * old(self).epochs_per_partition <= u64::MAX,
            ensures *final(self) == advanced(*old(self)), ret == old(self).start_partition, wf(*final(self)),
        @entry
            proof { lemma_advance(*old(self), 0); assert((n(*self) + 1) * self.epochs_per_partition >= self.epochs_per_partition) by (nonlinear_arith) requires n(*self) >= 0, self.epochs_per_partition >= 0; }
        @*/
    }

    /*@fn radix-engine/src/system/system_callback.rs :: fn validate_epoch_range
    @sig
        ensures ret is Ok <==> (start_epoch_inclusive.0 <= current_epoch.0 < end_epoch_exclusive.0),
    @*/

    /// the advance condition of `System::update_transaction_tracker`, sliced out of the real
    /// function on every run (the rest of that function is Track plumbing and is not verified)
    pub fn advance_condition(next_epoch: Epoch, transaction_tracker: &TransactionTrackerSubstateV1) -> (b: bool)
        requires wf(*transaction_tracker)
        ensures b == (next_epoch.0 >= transaction_tracker.start_epoch + transaction_tracker.epochs_per_partition)
    {
        proof { assert(n(*transaction_tracker) * transaction_tracker.epochs_per_partition >= transaction_tracker.epochs_per_partition) by (nonlinear_arith) requires n(*transaction_tracker) >= 1, transaction_tracker.epochs_per_partition >= 0; }
        /*@expr radix-engine/src/system/system_callback.rs :: fn update_transaction_tracker :: <<transaction_tracker.advance()>> #1 @*/
    }

    // ------------------------------------------------------------------------------------------
    // History lemma (ghost ledger).  Transitions: commit an intent with expiry E under the
    // validated window (cur < E <= cur + max_range), then the end-of-transaction tracker update
    // with next in {cur, cur+1} (C44: epochs move by single steps), advancing iff the real
    // advance condition holds and deleting exactly the returned partition.
    // ------------------------------------------------------------------------------------------
    pub struct Ledger {
        pub t: T,
        pub cur: int,
        pub recs: Map<int, int>,          // committed intent -> its expiry epoch
        pub store: Map<int, Set<int>>,    // partition number -> intents recorded there
    }
    pub open spec fn recorded(l: Ledger, i: int) -> bool {
        pf(l.t, l.recs[i]) matches Some(s) && l.store.contains_key(s as int) && l.store[s as int].contains(i)
    }
    pub open spec fn inv(l: Ledger, max_range: int) -> bool {
        &&& wf(l.t)
        &&& l.t.start_epoch + (n(l.t) + 1) * l.t.epochs_per_partition <= u64::MAX
        &&& l.t.start_epoch <= l.cur < l.t.start_epoch + l.t.epochs_per_partition
        &&& max_range + l.t.epochs_per_partition <= n(l.t) * l.t.epochs_per_partition
        &&& forall|i: int| #![trigger l.recs[i]] l.recs.contains_key(i) && l.recs[i] > l.cur ==> recorded(l, i)
    }
    pub open spec fn step(l: Ledger, i: int, e: int, next: int) -> Ledger {
        let s = pf(l.t, e).unwrap() as int;
        let store1 = l.store.insert(s, (if l.store.contains_key(s) { l.store[s] } else { Set::empty() }).insert(i));
        let recs1 = l.recs.insert(i, e);
        if next >= l.t.start_epoch + l.t.epochs_per_partition {
            Ledger { t: advanced(l.t), cur: next, recs: recs1, store: store1.remove(l.t.start_partition as int) }
        } else {
            Ledger { t: l.t, cur: next, recs: recs1, store: store1 }
        }
    }
    pub proof fn lemma_history_step(l: Ledger, max_range: int, i: int, e: int, next: int)
        requires
            inv(l, max_range),
            l.cur < e <= l.cur + max_range,           // validate_epoch_range + header validation (C34)
            next == l.cur || next == l.cur + 1,       // C44
            !(l.recs.contains_key(i) && l.recs[i] > l.cur), // not a replay (a replay is rejected, see below)
            l.t.start_epoch + (n(l.t) + 2) * l.t.epochs_per_partition <= u64::MAX,
        ensures
            pf(l.t, e) is Some,                       // the `expect` in update_transaction_tracker cannot fire
            inv(step(l, i, e, next), max_range),
    {
        let t = l.t; let nn = n(t); let epp = t.epochs_per_partition as int;
        assert(in_window(t, e));
        let l2 = step(l, i, e, next);
        let s = pf(t, e).unwrap() as int;
        lemma_bucket(e - t.start_epoch, epp, nn);
        lemma_slot_range(t, bucket(t, e));
        assert((nn + 2) * epp == (nn + 1) * epp + epp) by (nonlinear_arith);
        if next >= t.start_epoch + epp {
            lemma_advance(t, e);
            assert forall|j: int| #![trigger l2.recs[j]] l2.recs.contains_key(j) && l2.recs[j] > l2.cur implies recorded(l2, j) by {
                let ej = l2.recs[j];
                if j == i {
                    assert(ej == e);
                } else {
                    assert(l.recs.contains_key(j) && l.recs[j] == ej);
                    assert(recorded(l, j));
                }
                lemma_advance(t, ej);
            }
        } else {
            assert forall|j: int| #![trigger l2.recs[j]] l2.recs.contains_key(j) && l2.recs[j] > l2.cur implies recorded(l2, j) by {
                if j != i { assert(recorded(l, j)); }
            }
        }
    }
    // ---- the configuration the engine ships with satisfies the lemma's side condition --------
    // (constants re-read from /repo on every run)
    pub const MAIN_BASE_PARTITION_NUM: u8 = /*@expr-after radix-engine-interface/src/types/node_layout.rs :: const MAIN_BASE_PARTITION :: <<PartitionNumber(>> @*/;
    pub const PARTITION_RANGE_START: u8 = MAIN_BASE_PARTITION_NUM + 1;
    /*@item radix-engine/src/blueprints/transaction_tracker/package.rs :: const PARTITION_RANGE_END
    @*/
    /*@item radix-engine/src/blueprints/transaction_tracker/package.rs :: const EPOCHS_PER_PARTITION
    @*/
    pub const MAX_EPOCH_RANGE: u64 = /*@expr-after radix-transactions/src/validation/transaction_validation_configuration.rs :: impl TransactionValidationConfig :: fn babylon :: <<max_epoch_range:>> @*/;
    pub proof fn lemma_shipped_configuration()
        ensures MAX_EPOCH_RANGE + EPOCHS_PER_PARTITION <= (PARTITION_RANGE_END - PARTITION_RANGE_START + 1) * EPOCHS_PER_PARTITION,
                PARTITION_RANGE_END - PARTITION_RANGE_START + 1 <= 255,
    {
        assert(MAX_EPOCH_RANGE + EPOCHS_PER_PARTITION <= (PARTITION_RANGE_END - PARTITION_RANGE_START + 1) * EPOCHS_PER_PARTITION);
    }

    /// conclusion: while an intent's expiry has not passed, the lookup done by
    /// validate_intent_hash finds its record (so the second submission is rejected)
    pub proof fn lemma_replay_found(l: Ledger, max_range: int, i: int)
        requires inv(l, max_range), l.recs.contains_key(i), l.cur < l.recs[i]
        ensures recorded(l, i)
    {}
}
} // verus!
fn main() {}
