// Unit c06_fee_summary -- property C06 "Fees are fully paid and exactly distributed" (distribution side)
// Real code: radix-engine/src/system/system_modules/costing/fee_summary.rs ::
//              FeeReserveFinalizationSummary::{loan_fully_repaid, total_cost, network_fees, to_proposer_amount,
//              to_validator_set_amount, to_burn_amount}   (share constants read from
//              radix-common/src/constants/transaction_execution.rs on every run),
//            radix-transactions/src/model/execution/executable_common.rs :: TipSpecifier::{basis_points, proportion, fee_multiplier}.
// Amounts are integers counting attos (Decimal::v()).
use vstd::prelude::*;
// `dec!(0.01)` / `dec!(0.0001)` (radix-common-derive proc macro, cannot be expanded here): ASSUMED to be the
// constants 10^16 / 10^14 attos (shims/decimal_c06.rs).  Only these two literals occur in the extracted code.
macro_rules! dec { (0.01) => { dec_lit_0_01() }; (0.0001) => { dec_lit_0_0001() }; }
verus! {
/*@include shims/rt.rs @*/
/*@include shims/decimal.rs @*/
/*@include shims/bigint.rs @*/
/*@include shims/decimal_c06.rs @*/
/*@include shims/maps.rs @*/

pub mod env {
    use vstd::prelude::*;
    use super::decimal::*;
    use super::decimal::Decimal;
    // ---- identifiers / field types the summary only carries along (opaque plain data) ----
    #[derive(Clone, Copy)]
    pub struct NodeId(pub [u8; 30]);
    #[derive(Clone, Copy)]
    pub struct PackageAddress(pub NodeId);
    #[derive(Clone, Copy)]
    pub struct ComponentAddress(pub NodeId);
    pub struct LiquidFungibleResource { pub amount: Decimal }
}

pub mod unit {
    use vstd::prelude::*;
    use super::rt::*;
    use super::decimal::*;
    use super::decimal::Decimal;
    use super::bigint::I192;
    use super::bigint::group_i192;
    use super::decimal_c06::*;
    use super::maps::*;
    use super::env::*;
    broadcast use {group_decimal, group_i192, group_decimal_c06};

    /*@item radix-common/src/constants/transaction_execution.rs :: const TIPS_PROPOSER_SHARE_PERCENTAGE
    @*/
    /*@item radix-common/src/constants/transaction_execution.rs :: const TIPS_VALIDATOR_SET_SHARE_PERCENTAGE
    @*/
    /*@item radix-common/src/constants/transaction_execution.rs :: const NETWORK_FEES_PROPOSER_SHARE_PERCENTAGE
    @*/
    /*@item radix-common/src/constants/transaction_execution.rs :: const NETWORK_FEES_VALIDATOR_SET_SHARE_PERCENTAGE
    @*/
    /*@item radix-transactions/src/model/execution/executable_common.rs :: enum TipSpecifier
    @derive Clone, Copy
    @*/
    /*@item radix-engine/src/system/system_modules/costing/fee_reserve.rs :: enum RoyaltyRecipient
    @derive
    @*/
    /*@item radix-engine/src/system/system_modules/costing/fee_summary.rs :: struct FeeReserveFinalizationSummary
    @derive
    @*/
    pub type S = FeeReserveFinalizationSummary;

    // ==========================================================================================
    // ORACLE: tips.  b basis points = b / 10_000 = b * 10^14 attos; p percent = 100 p basis points.
    // ==========================================================================================
    pub open spec fn e14() -> int { 100_000_000_000_000 }
    pub open spec fn e16() -> int { 10_000_000_000_000_000 }
    pub open spec fn tip_bp(t: TipSpecifier) -> int {
        match t { TipSpecifier::None => 0, TipSpecifier::Percentage(p) => p as int * 100, TipSpecifier::BasisPoints(b) => b as int }
    }
    pub open spec fn tip_prop(t: TipSpecifier) -> int { tip_bp(t) * e14() }

    impl TipSpecifier {
        /*@fn radix-transactions/src/model/execution/executable_common.rs :: impl TipSpecifier :: fn basis_points
        @sig
            ensures ret as int == tip_bp(*self),
                *self matches TipSpecifier::Percentage(p) ==> ret == p * 100,
                *self matches TipSpecifier::BasisPoints(b) ==> ret == b,
                *self is None ==> ret == 0,
        @*/
        /*@fn radix-transactions/src/model/execution/executable_common.rs :: impl TipSpecifier :: fn proportion
        @sig
            ensures ret.v() == tip_prop(*self),
                // percentage form: p/100; basis-point form: b/10_000 (as exact 18-decimal numbers)
                *self matches TipSpecifier::Percentage(p) ==> ret.v() * 100 == p * one18(),
                *self matches TipSpecifier::BasisPoints(b) ==> ret.v() * 10_000 == b * one18(),
                *self is None ==> ret.v() == 0,
                0 <= ret.v() <= 0xffff_ffff * e14(),
        @*/
        /*@fn radix-transactions/src/model/execution/executable_common.rs :: impl TipSpecifier :: fn fee_multiplier
        @sig
            ensures ret.v() == one18() + tip_prop(*self), ret.v() >= one18()
        @*/
    }

    // ==========================================================================================
    // ORACLE: the split.  x percent of an amount, truncated to 18 decimals; the burn is the remainder.
    // ==========================================================================================
    pub open spec fn share(amount: int, pct: int) -> int { dec_mul(amount, e16() * pct) }
    pub open spec fn tips(s: S) -> int { s.total_tipping_cost_in_xrd.v() }
    pub open spec fn net_fees(s: S) -> int {
        s.total_execution_cost_in_xrd.v() + s.total_finalization_cost_in_xrd.v() + s.total_storage_cost_in_xrd.v()
    }
    pub open spec fn royalties(s: S) -> int { s.total_royalty_cost_in_xrd.v() }
    pub open spec fn proposer(s: S) -> int {
        share(tips(s), TIPS_PROPOSER_SHARE_PERCENTAGE as int) + share(net_fees(s), NETWORK_FEES_PROPOSER_SHARE_PERCENTAGE as int)
    }
    pub open spec fn validator_set(s: S) -> int {
        share(tips(s), TIPS_VALIDATOR_SET_SHARE_PERCENTAGE as int) + share(net_fees(s), NETWORK_FEES_VALIDATOR_SET_SHARE_PERCENTAGE as int)
    }
    /// magnitude bound under which no `unwrap` fires: non-negative costs whose total is representable
    pub open spec fn summary_ok(s: S) -> bool {
        &&& s.total_execution_cost_in_xrd.v() >= 0
        &&& s.total_finalization_cost_in_xrd.v() >= 0
        &&& s.total_tipping_cost_in_xrd.v() >= 0
        &&& s.total_storage_cost_in_xrd.v() >= 0
        &&& s.total_royalty_cost_in_xrd.v() >= 0
        &&& in_dec(net_fees(s) + tips(s) + royalties(s))
    }

    pub proof fn lemma_mul_nonneg(a: int, b: int)
        requires a >= 0, b >= 0 ensures a * b >= 0
    { assert(a * b >= 0) by (nonlinear_arith) requires a >= 0, b >= 0; }

    /// two shares of the same amount whose percentages add up to at most 100 never exceed the amount
    pub proof fn lemma_shares(a: int, p: int, q: int)
        requires a >= 0, p >= 0, q >= 0, p + q <= 100
        ensures 0 <= share(a, p), 0 <= share(a, q), share(a, p) + share(a, q) <= a
    {
        let d = one18();
        let x = a * (e16() * p);
        let y = a * (e16() * q);
        lemma_mul_nonneg(e16(), p); lemma_mul_nonneg(e16(), q);
        lemma_mul_nonneg(a, e16() * p); lemma_mul_nonneg(a, e16() * q);
        vstd::arithmetic::div_mod::lemma_fundamental_div_mod(x, d);
        vstd::arithmetic::div_mod::lemma_fundamental_div_mod(y, d);
        vstd::arithmetic::div_mod::lemma_mod_bound(x, d);
        vstd::arithmetic::div_mod::lemma_mod_bound(y, d);
        assert(x / d >= 0) by (nonlinear_arith) requires x >= 0, d > 0;
        assert(y / d >= 0) by (nonlinear_arith) requires y >= 0, d > 0;
        assert(x + y <= a * d) by (nonlinear_arith)
            requires x == a * (e16() * p), y == a * (e16() * q), a >= 0, p >= 0, q >= 0, p + q <= 100, e16() == 10_000_000_000_000_000, d == 1_000_000_000_000_000_000;
        assert(x / d + y / d <= a) by (nonlinear_arith)
            requires x == d * (x / d) + x % d, y == d * (y / d) + y % d, x % d >= 0, y % d >= 0, x + y <= a * d, d > 0;
    }

    impl FeeReserveFinalizationSummary {
        /*@fn radix-engine/src/system/system_modules/costing/fee_summary.rs :: impl FeeReserveFinalizationSummary :: fn loan_fully_repaid
        @sig
            ensures ret == (self.total_bad_debt_in_xrd.v() == 0)
        @*/
        /*@fn radix-engine/src/system/system_modules/costing/fee_summary.rs :: impl FeeReserveFinalizationSummary :: fn total_cost
        @sig
            requires summary_ok(*self)
            ensures
                ret.v() == self.total_execution_cost_in_xrd.v() + self.total_finalization_cost_in_xrd.v() + self.total_tipping_cost_in_xrd.v()
                         + self.total_storage_cost_in_xrd.v() + self.total_royalty_cost_in_xrd.v(),
                ret.v() == net_fees(*self) + tips(*self) + royalties(*self),
        @*/
        /*@fn radix-engine/src/system/system_modules/costing/fee_summary.rs :: impl FeeReserveFinalizationSummary :: fn network_fees
        @sig
            requires summary_ok(*self)
            ensures ret.v() == net_fees(*self), ret.v() >= 0
        @*/
        /*@fn radix-engine/src/system/system_modules/costing/fee_summary.rs :: impl FeeReserveFinalizationSummary :: fn to_proposer_amount
        @sig
            requires summary_ok(*self)
            ensures ret.v() == proposer(*self), 0 <= ret.v() <= tips(*self) + net_fees(*self)
        @entry
            proof {
                lemma_shares(tips(*self), TIPS_PROPOSER_SHARE_PERCENTAGE as int, 0);
                lemma_shares(net_fees(*self), NETWORK_FEES_PROPOSER_SHARE_PERCENTAGE as int, 0);
            }
        @*/
        /*@fn radix-engine/src/system/system_modules/costing/fee_summary.rs :: impl FeeReserveFinalizationSummary :: fn to_validator_set_amount
        @sig
            requires summary_ok(*self)
            ensures ret.v() == validator_set(*self), 0 <= ret.v() <= tips(*self) + net_fees(*self)
        @entry
            proof {
                lemma_shares(tips(*self), TIPS_VALIDATOR_SET_SHARE_PERCENTAGE as int, 0);
                lemma_shares(net_fees(*self), NETWORK_FEES_VALIDATOR_SET_SHARE_PERCENTAGE as int, 0);
            }
        @*/
        /*@fn radix-engine/src/system/system_modules/costing/fee_summary.rs :: impl FeeReserveFinalizationSummary :: fn to_burn_amount
        @sig
            requires summary_ok(*self)
            ensures
                // EXACT split: nothing is lost or created by the truncating share computations
                proposer(*self) + validator_set(*self) + ret.v() == tips(*self) + net_fees(*self),
                ret.v() >= 0,
        @entry
            proof {
                lemma_shares(tips(*self), TIPS_PROPOSER_SHARE_PERCENTAGE as int, TIPS_VALIDATOR_SET_SHARE_PERCENTAGE as int);
                lemma_shares(net_fees(*self), NETWORK_FEES_PROPOSER_SHARE_PERCENTAGE as int, NETWORK_FEES_VALIDATOR_SET_SHARE_PERCENTAGE as int);
            }
        @*/
    }

    /// total_cost == network fees + tips + royalties, and network fees + tips are exactly what is distributed:
    /// total_cost == proposer + validator set + burn + royalties   (statement of the property, over the oracle)
    pub proof fn lemma_total_is_distributed(s: S, burn: int)
        requires summary_ok(s), proposer(s) + validator_set(s) + burn == tips(s) + net_fees(s)
        ensures net_fees(s) + tips(s) + royalties(s) == proposer(s) + validator_set(s) + burn + royalties(s)
    {}

    /// with the share constants currently in /repo: proposer = all tips + a quarter of the network fees,
    /// validator set = a quarter of the network fees (each truncated), burn = the remaining half (or more)
    pub proof fn lemma_current_constants(s: S)
        requires summary_ok(s),
            TIPS_PROPOSER_SHARE_PERCENTAGE == 100, TIPS_VALIDATOR_SET_SHARE_PERCENTAGE == 0,
            NETWORK_FEES_PROPOSER_SHARE_PERCENTAGE == 25, NETWORK_FEES_VALIDATOR_SET_SHARE_PERCENTAGE == 25,
        ensures proposer(s) == tips(s) + net_fees(s) / 4, validator_set(s) == net_fees(s) / 4
    {
        let d = one18();
        let t = tips(s); let n = net_fees(s);
        assert(t * (e16() * 100) == t * d) by (nonlinear_arith) requires e16() == 10_000_000_000_000_000, d == 1_000_000_000_000_000_000;
        lemma_mul_nonneg(t, d);
        vstd::arithmetic::div_mod::lemma_div_by_multiple(t, d);
        assert(t * (e16() * 0) == 0) by (nonlinear_arith);
        let k = 250_000_000_000_000_000int;
        assert(n * (e16() * 25) == n * k) by (nonlinear_arith) requires e16() == 10_000_000_000_000_000, k == 250_000_000_000_000_000;
        lemma_mul_nonneg(n, k);
        // (n*k) / (4*k) == n / 4
        vstd::arithmetic::div_mod::lemma_div_denominator(n * k, k, 4);
        vstd::arithmetic::div_mod::lemma_div_by_multiple(n, k);
        assert(k * 4 == d);
    }
}
} // verus!
fn main() {}
