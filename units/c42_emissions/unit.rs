// Unit c42_emissions -- property C42 "Validator staking and emissions never create value" (emission / reward clauses)
// Real code under contract (bodies extracted verbatim on every run):
//   radix-engine/src/blueprints/consensus_manager/consensus_manager.rs
//     ProposalStatistic::success_ratio, ValidatorInfo::{to_reliability_factor, create_if_applicable},
//     ConsensusManagerBlueprint::apply_validator_emissions_and_rewards (whole function, 5 loops, ghost ledger + call log),
//     ActiveValidatorSet::{get_by_index, validator_count, total_active_stake_xrd},
//     slices (@expr / @expr-after) of ConsensusManagerBlueprint::{create, epoch_change}
//   radix-engine/src/blueprints/consensus_manager/validator.rs
//     ValidatorBlueprint::{apply_emission, apply_reward, get_redemption_value, calculate_redemption_value,
//     calculate_stake_unit_amount, total_stake_xrd_amount, total_stake_unit_supply, lock_owner_stake_units, to_sorted_key}
// Environment (trusted): shims/decimal.rs, shims/indexmap_c42.rs, shims/ledger_sdk_c42.rs, `env` below.
// Companion unit: c42_validator_math (stake-unit arithmetic, sort prefix, fee-factor check).
use vstd::prelude::*;
verus! {
/*@include shims/rt.rs @*/
/*@include shims/decimal.rs @*/
/*@include shims/indexmap_c42.rs @*/
/*@include shims/ledger_sdk_c42.rs @*/

pub mod env {
    use vstd::prelude::*;
    use super::decimal::*;
    use super::decimal::Decimal;
    use super::omap42::*;
    use super::ledger::*;
    // ---- payload types of error variants that this unit never constructs (opaque) ----
    pub struct KernelError;
    pub struct SystemError;
    pub struct SystemModuleError;
    pub struct SystemUpstreamError;
    pub struct VmError;
    pub struct CostingError;
    pub struct AccessControllerError; pub struct AccountError; pub struct AuthZoneError; pub struct BucketError;
    pub struct ComponentRoyaltyError; pub struct DecodeError;
    pub struct FungibleResourceManagerError; pub struct MetadataError; pub struct MultiResourcePoolError;
    pub struct NonFungibleResourceManagerError; pub struct NonFungibleVaultError; pub struct OneResourcePoolError;
    pub struct PackageError; pub struct ProofError; pub struct RoleAssignmentError; pub struct TransactionProcessorError;
    pub struct TwoResourcePoolError; pub struct VaultError; pub struct WorktopError;
    /*@item radix-common/src/types/consensus.rs :: type ValidatorIndex
    @*/
    /*@item radix-common/src/types/consensus.rs :: struct Epoch
    @derive Clone, Copy
    @*/
    /*@item radix-common/src/types/consensus.rs :: struct Round
    @derive Clone, Copy
    @*/
    /*@item radix-engine/src/blueprints/consensus_manager/validator.rs :: enum ValidatorError
    @derive
    @*/
    /*@item radix-engine/src/blueprints/consensus_manager/consensus_manager.rs :: enum ConsensusManagerError
    @derive
    @*/
    /*@item radix-engine/src/errors.rs :: enum ApplicationError
    @derive
    @*/
    /*@item radix-engine/src/errors.rs :: enum RuntimeError
    @derive
    @*/

    pub struct Secp256k1PublicKey(pub [u8; 33]);
    /// opaque stand-in for alloc BTreeMap (only a field type of ValidatorSubstate here)
    #[verifier::external_body]
    #[verifier::reject_recursive_types(K)]
    #[verifier::reject_recursive_types(V)]
    pub struct BTreeMap<K, V> { _k: core::marker::PhantomData<(K, V)> }
    /*@item radix-common/src/types/node_and_substate.rs :: type SortedKey
    @*/
    /*@item radix-engine/src/blueprints/consensus_manager/validator.rs :: struct ValidatorFeeChangeRequest
    @derive
    @*/
    /*@item radix-engine/src/blueprints/consensus_manager/validator.rs :: struct ValidatorSubstate
    @derive
    @*/
    /*@item radix-engine-interface/src/blueprints/consensus_manager/invocations.rs :: struct EpochChangeCondition
    @derive
    @*/
    /*@item radix-engine-interface/src/blueprints/consensus_manager/invocations.rs :: struct ConsensusManagerConfig
    @derive
    @*/
    /*@item radix-engine/src/blueprints/consensus_manager/consensus_manager.rs :: struct Validator
    @derive
    @*/
    /*@item radix-engine/src/blueprints/consensus_manager/consensus_manager.rs :: struct ValidatorRewardsSubstate
    @derive
    @*/

    /// core: `Ordering::reverse` swaps Less and Greater (vstd has no specification for it)
    pub assume_specification [core::cmp::Ordering::reverse] (o: core::cmp::Ordering) -> (r: core::cmp::Ordering)
        ensures r == (match o { core::cmp::Ordering::Less => core::cmp::Ordering::Greater, core::cmp::Ordering::Equal => core::cmp::Ordering::Equal, core::cmp::Ordering::Greater => core::cmp::Ordering::Less });
    // ASSUMED: the derived PartialOrd on the one-field tuple struct Epoch compares the number.
    impl PartialOrd for Epoch {
        #[verifier::external_body]
        fn partial_cmp(&self, o: &Epoch) -> (r: Option<core::cmp::Ordering>)
            ensures r == Some(cmp_int(self.0 as int, o.0 as int))
        { unimplemented!() }
    }
    impl vstd::std_specs::cmp::PartialOrdSpecImpl for Epoch {
        open spec fn obeys_partial_cmp_spec() -> bool { true }
        open spec fn partial_cmp_spec(&self, o: &Epoch) -> Option<core::cmp::Ordering> { Some(cmp_int(self.0 as int, o.0 as int)) }
    }
    impl PartialEq for Epoch {
        #[verifier::external_body]
        fn eq(&self, o: &Epoch) -> (r: bool) ensures r == (self.0 == o.0) { unimplemented!() }
    }
    impl vstd::std_specs::cmp::PartialEqSpecImpl for Epoch {
        open spec fn obeys_eq_spec() -> bool { true }
        open spec fn eq_spec(&self, o: &Epoch) -> bool { self.0 == o.0 }
    }
    /// generated by `declare_native_blueprint_state!` (cannot be extracted): the versioned wrapper of the validator's
    /// State field with a single version; content round-trips
    pub struct ValidatorStateFieldPayload { pub inner: ValidatorSubstate }
    impl StatePayload for ValidatorStateFieldPayload { open spec fn content(&self) -> ValidatorSubstate { self.inner } }
    impl ValidatorStateFieldPayload {
        pub fn fully_update_and_into_latest_version(self) -> (r: ValidatorSubstate) ensures r == self.inner { self.inner }
        pub fn from_content_source(c: ValidatorSubstate) -> (r: Self) ensures r.inner == c { Self { inner: c } }
    }
    /*@item radix-engine/src/blueprints/consensus_manager/events/validator.rs :: struct ValidatorEmissionAppliedEvent
    @derive
    @*/
    /*@item radix-engine/src/blueprints/consensus_manager/events/validator.rs :: struct ValidatorRewardAppliedEvent
    @derive
    @*/
    use super::unit::ValidatorBlueprint;
    impl ValidatorBlueprint {
        /// NOT under contract (secondary index of registered validators kept in the consensus manager's sorted-index
        /// collection; goes through actor_get_node_id / to_sorted_key / update_validator).  ASSUMED: does not touch the
        /// ledger of resources nor the validator's State field.  The `requires` is an OBLIGATION for the callers: the
        /// stake written to the index is the balance of the stake vault.
        /// the key under which the consensus manager's by-stake index holds THIS validator after an index_update
        /// with the given registration flag and stake (None: not in the index); the address part is the actor's own
        pub uninterp spec fn index_key_for(registered: bool, stake: Decimal) -> Option<SortedKey>;
        #[verifier::external_body]
        pub fn index_update<Y: SystemApi<RuntimeError>>(validator: &ValidatorSubstate, new_registered: bool, new_stake_amount: Decimal, api: &mut Y) -> (r: Result<Option<SortedKey>, RuntimeError>)
            requires
                old(api).st().world.vaults.contains_key(validator.stake_xrd_vault_id),
                new_stake_amount == old(api).st().world.vaults[validator.stake_xrd_vault_id].amount,
                new_registered == validator.is_registered,
            ensures r is Ok ==> final(api).st() == old(api).st(),
                r matches Ok(k) ==> k == Self::index_key_for(new_registered, new_stake_amount),
        { unimplemented!() }
    }

    /// SBOR encoding of an address (used as the tail of a SortedKey); carries no bucket
    impl ScryptoEncode for ComponentAddress { open spec fn as_args(&self) -> CallArgs { CallArgs::Other } }
    /// NOT under contract here: validator.rs :: create_sort_prefix_from_stake is under contract in unit c42_validator_math
    /// (for stake >= 0 it always returns Ok); only that fact is used.
    #[verifier::external_body]
    pub fn create_sort_prefix_from_stake(stake: Decimal) -> (r: Result<[u8; 2], RuntimeError>)
        requires stake.v() >= 0
        ensures r is Ok
    { unimplemented!() }

    /// generated by `declare_native_blueprint_state!`: `pub const fn field_index(&self) -> u8 { *self as u8 }`
    impl ValidatorField {
        #[verifier::external_body]
        pub fn field_index(&self) -> (r: FieldIndex) ensures r == vfidx(*self) { unimplemented!() }
    }
    /*@item radix-engine/src/blueprints/consensus_manager/events/validator.rs :: struct StakeEvent
    @derive
    @*/
    pub const VALIDATOR_APPLY_EMISSION_IDENT: &'static str = /*@expr-after radix-engine-interface/src/blueprints/consensus_manager/invocations.rs :: const VALIDATOR_APPLY_EMISSION_IDENT :: <<&str =>> @*/;
    pub const VALIDATOR_APPLY_REWARD_IDENT: &'static str = /*@expr-after radix-engine-interface/src/blueprints/consensus_manager/invocations.rs :: const VALIDATOR_APPLY_REWARD_IDENT :: <<&str =>> @*/;
    /*@item radix-engine-interface/src/blueprints/consensus_manager/invocations.rs :: struct ValidatorApplyEmissionInput
    @derive
    @*/
    /*@item radix-engine-interface/src/blueprints/consensus_manager/invocations.rs :: struct ValidatorApplyRewardInput
    @derive
    @*/
    /// `#[derive(ScryptoSbor)]`: the encoded value carries exactly the fields
    impl ScryptoEncode for ValidatorApplyEmissionInput {
        open spec fn as_args(&self) -> CallArgs {
            CallArgs::ApplyEmission { bucket: self.xrd_bucket.0, epoch: self.epoch, made: self.proposals_made, missed: self.proposals_missed }
        }
    }
    impl ScryptoEncode for ValidatorApplyRewardInput {
        open spec fn as_args(&self) -> CallArgs { CallArgs::ApplyReward { bucket: self.xrd_bucket.0, epoch: self.epoch } }
    }

}

pub mod unit {
    use vstd::prelude::*;
    use super::rt::*;
    use super::env::*;
    use super::decimal::*;
    use super::decimal::Decimal;
    use super::omap42::*;
    use super::ledger::*;
    broadcast use group_decimal;

    // ------------------------------------------------------------------------------------------
    // Oracle, from the property statement.  All amounts are integers = numbers of 10^-18 sub-units.
    // ------------------------------------------------------------------------------------------
    pub open spec fn e18() -> int { 1_000_000_000_000_000_000 }
    /// truncation toward zero of the rational a / b
    pub open spec fn trunc_q(a: int, b: int) -> int
        recommends b != 0
    {
        if (a >= 0) == (b > 0) { (if a >= 0 { a } else { -a }) / (if b > 0 { b } else { -b }) }
        else { -((if a >= 0 { a } else { -a }) / (if b > 0 { b } else { -b })) }
    }
    pub open spec fn fmul(a: int, b: int) -> int { trunc_q(a * b, e18()) }
    pub open spec fn fdiv(a: int, b: int) -> int { trunc_q(a * e18(), b) }
    /// what Decimal::checked_mul / checked_div can return: the 192-bit range WITHOUT its most negative value
    /// (known boundary finding C24: the wide->narrow conversion of the real code rejects -2^191)
    pub open spec fn fits_dec(i: int) -> bool { dec_min() < i <= dec_max() }
    pub open spec fn cm_error() -> RuntimeError {
        RuntimeError::ApplicationError(ApplicationError::ConsensusManagerError(ConsensusManagerError::UnexpectedDecimalComputationError))
    }

    /// "A ratio of successful to total proposals"; a validator that never had to propose counts as fully reliable
    pub open spec fn success_ratio(made: int, missed: int) -> int {
        if made + missed == 0 { e18() } else { (made * e18()) / (made + missed) }
    }
    /// reliability factor (d): the reliability rescaled from [min, 1] to [0, 1]; 0 below the minimum; the
    /// degenerate range min == 1 is a step function
    pub open spec fn reliability_factor(rel: int, min: int) -> int {
        if rel - min < 0 { 0 }
        else if e18() - min == 0 { if rel == e18() { e18() } else { 0 } }
        else { fdiv(rel - min, e18() - min) }
    }
    pub open spec fn reliability_factor_ok(rel: int, min: int) -> bool {
        &&& in_dec(rel - min)
        &&& (rel - min >= 0 ==> in_dec(e18() - min))
        &&& (rel - min >= 0 && e18() - min != 0 ==> fits_dec(fdiv(rel - min, e18() - min)))
    }

    /// effective stake: the stake scaled by the reliability factor of the validator's proposal statistic
    pub open spec fn effective_stake(stake: int, made: int, missed: int, min: int) -> int {
        fmul(stake, reliability_factor(success_ratio(made, missed), min))
    }
    /// scaling by a factor in [0, 1] (truncating) never increases a non-negative amount
    pub proof fn lemma_fmul_unit_factor(a: int, f: int)
        requires a >= 0, 0 <= f <= e18()
        ensures 0 <= fmul(a, f) <= a, fmul(a, f) == (a * f) / e18(), fmul(a, f) * e18() <= a * f
    {
        let n = a * f;
        assert(0 <= n <= a * e18()) by (nonlinear_arith) requires a >= 0, 0 <= f <= e18(), n == a * f;
        assert(0 <= n / e18() <= a && (n / e18()) * e18() <= n) by (nonlinear_arith) requires 0 <= n <= a * e18();
    }
    pub proof fn lemma_success_ratio_range(made: int, missed: int)
        requires made >= 0, missed >= 0
        ensures 0 <= success_ratio(made, missed) <= e18()
    {
        let t = made + missed;
        if t != 0 {
            let n = made * e18();
            assert(0 <= n <= t * e18()) by (nonlinear_arith) requires 0 <= made <= t, n == made * e18();
            assert(0 <= n / t <= e18()) by (nonlinear_arith) requires 0 <= n <= t * e18(), t > 0;
        }
    }

    pub proof fn lemma_trunc_q_is_tdiv(a: int, b: int)
        requires b != 0
        ensures trunc_q(a, b) == tdiv(a, b)
    {}

    /// (d) for every reliability in [0, 1] the factor is in [0, 1], whatever the configured minimum
    pub proof fn lemma_reliability_factor_range(rel: int, min: int)
        requires 0 <= rel <= e18()
        ensures 0 <= reliability_factor(rel, min) <= e18(),
                0 <= min <= e18() ==> reliability_factor_ok(rel, min),
    {
        let a = rel - min; let b = e18() - min;
        if a >= 0 && b != 0 {
            // rel <= 1 gives a <= b, and a >= 0 with b != 0 gives b > 0
            assert(a <= b);
            assert(b > 0);
            let n = a * e18();
            assert(n >= 0) by (nonlinear_arith) requires a >= 0, n == a * e18();
            assert(n <= b * e18()) by (nonlinear_arith) requires a <= b, n == a * e18();
            assert(0 <= n / b <= e18()) by (nonlinear_arith) requires 0 <= n <= b * e18(), b > 0;
        }
    }


    // ------------------------------------------------------------------------------------------
    // Epoch-end accounting: oracle.  A ghost record per APPLICABLE validator (stake > 0), in set order.
    // ------------------------------------------------------------------------------------------
    pub ghost struct GInfo { pub idx: int, pub addr: ComponentAddress, pub stake: int, pub eff: int, pub made: u64, pub missed: u64 }
    pub type VSet = Seq<(ComponentAddress, Validator)>;
    /// the applicable validators among the first n of the concluded epoch's set, with their effective stake
    pub open spec fn ginfos(vs: VSet, stats: Seq<ProposalStatistic>, min: int, n: int) -> Seq<GInfo>
        decreases n
    {
        if n <= 0 { Seq::empty() } else {
            let prev = ginfos(vs, stats, min, n - 1);
            let i = n - 1;
            if vs[i].1.stake.v() > 0 {
                prev.push(GInfo { idx: i, addr: vs[i].0, stake: vs[i].1.stake.v(),
                    eff: effective_stake(vs[i].1.stake.v(), stats[i].made as int, stats[i].missed as int, min),
                    made: stats[i].made, missed: stats[i].missed })
            } else { prev }
        }
    }
    pub open spec fn g_wf(g: Seq<GInfo>) -> bool {
        &&& forall|j: int| 0 <= j < g.len() ==> (#[trigger] g[j]).stake > 0 && 0 <= g[j].eff <= g[j].stake && 0 <= g[j].idx < 256
        &&& forall|j: int, k: int| 0 <= j < k < g.len() ==> (#[trigger] g[j]).idx < (#[trigger] g[k]).idx
    }
    pub open spec fn sum_stake(g: Seq<GInfo>, n: int) -> int decreases n { if n <= 0 { 0 } else { sum_stake(g, n - 1) + g[n - 1].stake } }
    pub open spec fn sum_eff(g: Seq<GInfo>, n: int) -> int decreases n { if n <= 0 { 0 } else { sum_eff(g, n - 1) + g[n - 1].eff } }
    /// sum over the first n validators of  trunc(effective stake * rate)
    pub open spec fn sum_em(g: Seq<GInfo>, rate: int, n: int) -> int decreases n { if n <= 0 { 0 } else { sum_em(g, rate, n - 1) + fmul(g[n - 1].eff, rate) } }
    pub type PRew = Map<ValidatorIndex, Decimal>;
    /// the proposer reward recorded for validator index idx (0 when there is no entry)
    pub open spec fn prv(pr: PRew, idx: int) -> int { if pr.contains_key(idx as u8) { pr[idx as u8].v() } else { 0 } }
    pub open spec fn sum_pr(g: Seq<GInfo>, pr: PRew, n: int) -> int decreases n { if n <= 0 { 0 } else { sum_pr(g, pr, n - 1) + prv(pr, g[n - 1].idx) } }
    /// all recorded proposer rewards of the indices below n
    pub open spec fn pr_total(pr: PRew, n: int) -> int decreases n { if n <= 0 { 0 } else { pr_total(pr, n - 1) + prv(pr, n - 1) } }
    /// (a) "how much XRD is emitted by 1 XRD staked": the configured amount over the applicable stake, rounded down
    pub open spec fn emission_rate(total_emission: int, g: Seq<GInfo>) -> int { fdiv(total_emission, sum_stake(g, g.len() as int)) }
    /// (a) emission of one validator: its effective (reliability-scaled) stake times the rate, rounded down
    pub open spec fn emission_of(x: GInfo, rate: int) -> int { fmul(x.eff, rate) }
    /// (b) reward per unit of effective stake: what the vault holds beyond the proposers' shares, over the effective stake
    pub open spec fn reward_rate(vault: int, g: Seq<GInfo>, pr: PRew) -> int {
        let te = sum_eff(g, g.len() as int);
        if te == 0 { 0 } else { fdiv(vault - sum_pr(g, pr, g.len() as int), te) }
    }
    pub open spec fn reward_of(x: GInfo, pr: PRew, rate: int) -> int { prv(pr, x.idx) + fmul(x.eff, rate) }

    /// the two proposer-reward maps agree on every index from lo on
    pub open spec fn pr_agree(cur: PRew, pr0: PRew, lo: int) -> bool {
        forall|k: ValidatorIndex| #![trigger cur.contains_key(k)] #![trigger cur[k]] k as int >= lo ==> cur.contains_key(k) == pr0.contains_key(k) && cur[k] == pr0[k]
    }
    pub open spec fn rep1(kv: (ValidatorIndex, ValidatorInfo), x: GInfo) -> bool {
        &&& kv.0 as int == x.idx && kv.1.address == x.addr && kv.1.stake_xrd.v() == x.stake && kv.1.effective_stake_xrd.v() == x.eff
        &&& kv.1.proposal_statistic.made == x.made && kv.1.proposal_statistic.missed == x.missed
    }
    pub open spec fn rep(e: Seq<(ValidatorIndex, ValidatorInfo)>, g: Seq<GInfo>) -> bool {
        &&& e.len() == g.len()
        &&& forall|j: int| 0 <= j < g.len() ==> rep1(#[trigger] e[j], g[j])
    }
    /// the call the consensus manager makes to hand validator x its emission
    pub open spec fn em_call_ok(c: CallRec, x: GInfo, rate: int, epoch: Epoch) -> bool {
        &&& c.receiver == x.addr.0 && c.method == VALIDATOR_APPLY_EMISSION_IDENT@
        &&& c.args matches CallArgs::ApplyEmission { epoch: e, made, missed, .. } && e == epoch && made == x.made && missed == x.missed
        &&& c.resource == XRD && c.amount == emission_of(x, rate)
    }
    pub open spec fn rw_call_ok(c: CallRec, x: GInfo, amount: int, epoch: Epoch, res: ResourceAddress) -> bool {
        &&& c.receiver == x.addr.0 && c.method == VALIDATOR_APPLY_REWARD_IDENT@
        &&& c.args matches CallArgs::ApplyReward { epoch: e, .. } && e == epoch
        &&& c.resource == res && c.amount == amount
    }
    /// the reward calls for the first n applicable validators: one per validator with a non-zero reward, in order
    pub open spec fn rw_calls_ok(log: Seq<CallRec>, g: Seq<GInfo>, pr: PRew, rate: int, epoch: Epoch, res: ResourceAddress, n: int) -> bool
        decreases n
    {
        if n <= 0 { log.len() == 0 } else {
            let t = reward_of(g[n - 1], pr, rate);
            if t == 0 { rw_calls_ok(log, g, pr, rate, epoch, res, n - 1) }
            else { log.len() > 0 && rw_call_ok(log.last(), g[n - 1], t, epoch, res) && rw_calls_ok(log.drop_last(), g, pr, rate, epoch, res, n - 1) }
        }
    }
    /// invariant of the rewards substate, kept by the fee finalisation of every transaction (system_callback.rs adds
    /// to_proposer + to_validator_set to the vault and to_proposer to the leader's entry) and by this function
    pub open spec fn rewards_wf(pr: PRew, vault: int) -> bool {
        &&& forall|k: ValidatorIndex| pr.contains_key(k) ==> (#[trigger] pr[k]).v() >= 0
        &&& pr_total(pr, 256) <= vault
    }

    /// C42 (a)+(b): what a successful epoch-end accounting did
    pub open spec fn accounting_post(s0: ApiState, s2: ApiState, g: Seq<GInfo>, total_emission: int, pr0: PRew, rv: Own, epoch: Epoch) -> bool {
        let n = g.len() as int;
        let rate = emission_rate(total_emission, g);
        let minted = sum_em(g, rate, n);
        let vault = s0.world.vaults[rv].amount.v();
        let rrate = reward_rate(vault, g, pr0);
        let paid = sum_pr(g, pr0, n) + sum_em(g, rrate, n);
        let c0 = s0.calls.len() as int;
        &&& sum_stake(g, n) > 0
        // (a) XRD is minted once, exactly the sum of the per-validator emissions, never more than configured
        &&& s2.world.supply[XRD] == Some(Decimal::of(s0.world.supply[XRD]->Some_0.v() + minted))
        &&& 0 <= minted && (total_emission >= 0 ==> minted <= total_emission) && (total_emission < 0 ==> minted == 0)
        // every minted XRD went to a validator: no bucket is left behind
        &&& s2.world.buckets =~= s0.world.buckets
        // (b) rewards come out of the vault only: it shrinks by exactly what was paid, and is never overdrawn
        &&& s2.world.vaults.contains_key(rv) && s0.world.vaults.contains_key(rv)
        &&& s2.world.vaults[rv] == Holding { resource: s0.world.vaults[rv].resource, amount: Decimal::of(vault - paid) }
        &&& 0 <= paid <= vault
        // who got what
        &&& s2.calls.len() >= c0 + n && s2.calls.subrange(0, c0) =~= s0.calls
        &&& forall|j: int| 0 <= j < n ==> em_call_ok(#[trigger] s2.calls[c0 + j], g[j], rate, epoch)
        &&& rw_calls_ok(s2.calls.subrange(c0 + n, s2.calls.len() as int), g, pr0, rrate, epoch, s0.world.vaults[rv].resource, n)
        &&& s2.vstate == s0.vstate && s2.handles == s0.handles && s2.actor_vaults == s0.actor_vaults
    }

    // ---------------------------------------------------------------- lemmas: sums
    pub proof fn lemma_fmul_floor(a: int, b: int)
        requires a >= 0, b >= 0
        ensures fmul(a, b) >= 0, fmul(a, b) * e18() <= a * b, fmul(a, b) == (a * b) / e18()
    {
        assert(a * b >= 0) by (nonlinear_arith) requires a >= 0, b >= 0;
        let n = a * b;
        assert(0 <= (n / e18()) * e18() <= n) by (nonlinear_arith) requires n >= 0;
        assert(n / e18() >= 0) by (nonlinear_arith) requires n >= 0;
    }
    pub proof fn lemma_fdiv_floor(a: int, b: int)
        requires a >= 0, b > 0
        ensures fdiv(a, b) >= 0, fdiv(a, b) * b <= a * e18(), fdiv(a, b) == (a * e18()) / b
    {
        assert(a * e18() >= 0) by (nonlinear_arith) requires a >= 0;
        let n = a * e18();
        assert(0 <= (n / b) * b <= n) by (nonlinear_arith) requires n >= 0, b > 0;
        assert(n / b >= 0) by (nonlinear_arith) requires n >= 0, b > 0;
    }
    pub proof fn lemma_ginfos_wf(vs: VSet, stats: Seq<ProposalStatistic>, min: int, n: int)
        requires 0 <= n <= vs.len(), n <= stats.len(), n <= 256
        ensures g_wf(ginfos(vs, stats, min, n)), ginfos(vs, stats, min, n).len() <= n,
                forall|j: int| 0 <= j < ginfos(vs, stats, min, n).len() ==> (#[trigger] ginfos(vs, stats, min, n)[j]).idx < n,
        decreases n
    {
        if n > 0 {
            lemma_ginfos_wf(vs, stats, min, n - 1);
            let i = n - 1;
            if vs[i].1.stake.v() > 0 {
                lemma_success_ratio_range(stats[i].made as int, stats[i].missed as int);
                lemma_reliability_factor_range(success_ratio(stats[i].made as int, stats[i].missed as int), min);
                lemma_fmul_unit_factor(vs[i].1.stake.v(), reliability_factor(success_ratio(stats[i].made as int, stats[i].missed as int), min));
            }
        }
    }
    pub proof fn lemma_sum_stake_prefix(a: Seq<GInfo>, b: Seq<GInfo>, n: int)
        requires 0 <= n <= a.len(), n <= b.len(), forall|k: int| 0 <= k < n ==> a[k] == b[k]
        ensures sum_stake(a, n) == sum_stake(b, n)
        decreases n
    {
        if n > 0 { lemma_sum_stake_prefix(a, b, n - 1); }
    }
    pub proof fn lemma_sums_bounds(g: Seq<GInfo>, n: int)
        requires g_wf(g), 0 <= n <= g.len()
        ensures 0 <= sum_eff(g, n) <= sum_stake(g, n), n > 0 ==> sum_stake(g, n) > 0
        decreases n
    {
        if n > 0 { lemma_sums_bounds(g, n - 1); }
    }
    /// the truncated shares never add up to more than rate * (sum of effective stakes)
    pub proof fn lemma_sum_em(g: Seq<GInfo>, rate: int, n: int)
        requires g_wf(g), 0 <= n <= g.len(), rate >= 0
        ensures 0 <= sum_em(g, rate, n), sum_em(g, rate, n) * e18() <= rate * sum_eff(g, n),
                n > 0 ==> sum_em(g, rate, n - 1) <= sum_em(g, rate, n),
        decreases n
    {
        if n > 0 {
            lemma_sum_em(g, rate, n - 1);
            let x = g[n - 1];
            lemma_fmul_floor(x.eff, rate);
            let a = sum_em(g, rate, n - 1); let b = fmul(x.eff, rate); let se = sum_eff(g, n - 1);
            assert((a + b) * e18() <= rate * (se + x.eff)) by (nonlinear_arith)
                requires a * e18() <= rate * se, b * e18() <= x.eff * rate;
        }
    }
    pub proof fn lemma_mono(g: Seq<GInfo>, pr: PRew, rate: int, a: int, b: int)
        requires g_wf(g), 0 <= a <= b <= g.len(), rate >= 0, forall|k: ValidatorIndex| pr.contains_key(k) ==> (#[trigger] pr[k]).v() >= 0
        ensures sum_em(g, rate, a) <= sum_em(g, rate, b), sum_pr(g, pr, a) <= sum_pr(g, pr, b), 0 <= sum_pr(g, pr, a)
        decreases b
    {
        if a < b {
            lemma_mono(g, pr, rate, a, b - 1);
            lemma_sum_em(g, rate, b);
        } else {
            lemma_sum_pr_nonneg(g, pr, a);
        }
    }
    pub proof fn lemma_sum_pr_nonneg(g: Seq<GInfo>, pr: PRew, n: int)
        requires 0 <= n <= g.len(), forall|k: ValidatorIndex| pr.contains_key(k) ==> (#[trigger] pr[k]).v() >= 0
        ensures 0 <= sum_pr(g, pr, n)
        decreases n
    {
        if n > 0 { lemma_sum_pr_nonneg(g, pr, n - 1); }
    }
    pub proof fn lemma_pr_total_mono(pr: PRew, a: int, b: int)
        requires 0 <= a <= b, forall|k: ValidatorIndex| pr.contains_key(k) ==> (#[trigger] pr[k]).v() >= 0
        ensures 0 <= pr_total(pr, a) <= pr_total(pr, b)
        decreases b
    {
        if a < b { lemma_pr_total_mono(pr, a, b - 1); }
        else if a > 0 { lemma_pr_total_mono(pr, a - 1, a - 1); }
    }
    /// the proposer rewards of the applicable validators are part of all recorded proposer rewards
    pub proof fn lemma_sum_pr_le_total(g: Seq<GInfo>, pr: PRew, n: int)
        requires g_wf(g), 0 <= n <= g.len(), forall|k: ValidatorIndex| pr.contains_key(k) ==> (#[trigger] pr[k]).v() >= 0
        ensures sum_pr(g, pr, n) <= pr_total(pr, if n == 0 { 0 } else { g[n - 1].idx + 1 })
        decreases n
    {
        if n > 0 {
            lemma_sum_pr_le_total(g, pr, n - 1);
            let lo = if n - 1 == 0 { 0 } else { g[n - 2].idx + 1 };
            assert(lo <= g[n - 1].idx);
            lemma_pr_total_mono(pr, lo, g[n - 1].idx);
        }
    }
    /// (a) the emissions add up to no more than the configured amount (rounding is downwards, twice)
    pub proof fn lemma_emissions_bounded(g: Seq<GInfo>, total: int)
        requires g_wf(g), g.len() > 0, total >= 0
        ensures ({
            let n = g.len() as int; let rate = emission_rate(total, g);
            &&& rate >= 0 && 0 <= sum_em(g, rate, n) <= total
        })
    {
        let n = g.len() as int; let t = sum_stake(g, n); let rate = fdiv(total, t);
        lemma_sums_bounds(g, n);
        lemma_fdiv_floor(total, t);
        lemma_sum_em(g, rate, n);
        let m = sum_em(g, rate, n); let se = sum_eff(g, n);
        assert(rate * se <= rate * t) by (nonlinear_arith) requires rate >= 0, se <= t;
        assert(m <= total) by (nonlinear_arith) requires m * e18() <= rate * se, rate * se <= rate * t, rate * t <= total * e18();
    }
    /// a negative configured emission can never mint anything (the shares are all <= 0, and minting refuses negatives)
    pub proof fn lemma_sum_em_nonpos(g: Seq<GInfo>, rate: int, n: int)
        requires g_wf(g), 0 <= n <= g.len(), rate <= 0
        ensures sum_em(g, rate, n) <= 0
        decreases n
    {
        if n > 0 {
            lemma_sum_em_nonpos(g, rate, n - 1);
            let x = g[n - 1];
            assert(x.eff * rate <= 0) by (nonlinear_arith) requires x.eff >= 0, rate <= 0;
            let p = x.eff * rate;
            if p < 0 { assert((-p) / e18() >= 0) by (nonlinear_arith) requires -p > 0; }
        }
    }
    pub proof fn lemma_negative_rate(total: int, t: int)
        requires total < 0, t > 0
        ensures fdiv(total, t) <= 0
    {
        let p = total * e18();
        assert(p < 0) by (nonlinear_arith) requires total < 0, p == total * e18();
        assert((-p) / t >= 0) by (nonlinear_arith) requires -p > 0, t > 0;
    }
    /// (a) one validator never gets more than its pro-rata share  total * stake / total_stake
    pub proof fn lemma_emission_pro_rata(g: Seq<GInfo>, total: int, j: int)
        requires g_wf(g), 0 <= j < g.len(), total >= 0
        ensures 0 <= emission_of(g[j], emission_rate(total, g)),
                emission_of(g[j], emission_rate(total, g)) * sum_stake(g, g.len() as int) <= total * g[j].stake,
    {
        let n = g.len() as int; let t = sum_stake(g, n); let rate = fdiv(total, t); let x = g[j];
        lemma_sums_bounds(g, n);
        lemma_fdiv_floor(total, t);
        lemma_fmul_floor(x.eff, rate);
        let e = fmul(x.eff, rate);
        assert(e * e18() <= x.stake * rate) by (nonlinear_arith) requires e * e18() <= x.eff * rate, x.eff <= x.stake, rate >= 0;
        assert((e * t) * e18() <= (total * x.stake) * e18()) by (nonlinear_arith)
            requires e * e18() <= x.stake * rate, rate * t <= total * e18(), t > 0, x.stake > 0, e >= 0;
        assert(e * t <= total * x.stake) by (nonlinear_arith) requires (e * t) * e18() <= (total * x.stake) * e18();
    }
    /// (b) proposer shares plus stake-proportional shares never exceed the vault
    pub proof fn lemma_rewards_bounded(g: Seq<GInfo>, pr: PRew, vault: int)
        requires g_wf(g), rewards_wf(pr, vault)
        ensures ({
            let n = g.len() as int; let rate = reward_rate(vault, g, pr);
            &&& rate >= 0 && 0 <= sum_pr(g, pr, n) <= vault
            &&& 0 <= sum_em(g, rate, n) && sum_pr(g, pr, n) + sum_em(g, rate, n) <= vault
        })
    {
        let n = g.len() as int; let p = sum_pr(g, pr, n); let te = sum_eff(g, n);
        lemma_sum_pr_nonneg(g, pr, n);
        lemma_sum_pr_le_total(g, pr, n);
        let hi = if n == 0 { 0 } else { g[n - 1].idx + 1 };
        lemma_pr_total_mono(pr, hi, 256);
        lemma_sums_bounds(g, n);
        let rate = reward_rate(vault, g, pr);
        if te != 0 {
            lemma_fdiv_floor(vault - p, te);
            lemma_sum_em(g, rate, n);
            let m = sum_em(g, rate, n);
            assert(m <= vault - p) by (nonlinear_arith) requires m * e18() <= rate * te, rate * te <= (vault - p) * e18();
        } else {
            lemma_sum_em(g, 0, n);
            assert(0 * te == 0);
        }
    }

    /*@item radix-engine/src/blueprints/consensus_manager/consensus_manager.rs :: struct ProposalStatistic
    @derive
    @*/
    /// `#[derive(Clone)]` on two u64 fields: the field-wise copy
    impl Clone for ProposalStatistic {
        fn clone(&self) -> (r: Self) ensures r == *self { ProposalStatistic { made: self.made, missed: self.missed } }
    }
    impl ProposalStatistic {
        // NOTE `self.made + self.missed` is a plain u64 addition (panics in debug builds, wraps in release builds);
        // the counters are bumped once per consensus round, so the sum is assumed to stay below 2^64.
        /*@fn radix-engine/src/blueprints/consensus_manager/consensus_manager.rs :: impl ProposalStatistic :: fn success_ratio
        @sig
            requires self.made as int + self.missed as int <= u64::MAX as int,
            ensures ret matches Ok(r) && r.v() == success_ratio(self.made as int, self.missed as int) && 0 <= r.v() <= e18(),
        @entry
            proof {
                let m = self.made as int; let t = self.made as int + self.missed as int;
                if t != 0 {
                    let n = m * e18();
                    assert(0 <= n <= t * e18()) by (nonlinear_arith) requires 0 <= m <= t, n == m * e18();
                    assert(0 <= n / t <= e18()) by (nonlinear_arith) requires 0 <= n <= t * e18(), t > 0;
                    assert(n <= 0xffff_ffff_ffff_ffff * e18()) by (nonlinear_arith) requires m <= 0xffff_ffff_ffff_ffff, n == m * e18();
                }
            }
        @*/
    }

    pub /*@item radix-engine/src/blueprints/consensus_manager/consensus_manager.rs :: struct ValidatorInfo
    @derive
    @*/
    impl ValidatorInfo {
        /*@fn radix-engine/src/blueprints/consensus_manager/consensus_manager.rs :: impl ValidatorInfo :: fn to_reliability_factor
        @sig
            ensures
                ret is Ok <==> reliability_factor_ok(reliability.v(), min_required_reliability.v()),
                ret matches Ok(f) ==> f.v() == reliability_factor(reliability.v(), min_required_reliability.v()),
                ret matches Err(e) ==> e == cm_error(),
        @*/

        /*@fn radix-engine/src/blueprints/consensus_manager/consensus_manager.rs :: impl ValidatorInfo :: fn create_if_applicable
        @sig
            requires proposal_statistic.made as int + proposal_statistic.missed as int <= u64::MAX as int,
            ensures
                // only validators with a positive stake take part
                stake_xrd.v() <= 0 ==> ret matches Ok(None),
                stake_xrd.v() > 0 ==> (ret is Ok <==> reliability_factor_ok(success_ratio(proposal_statistic.made as int, proposal_statistic.missed as int), min_required_reliability.v())),
                stake_xrd.v() > 0 ==> (ret matches Ok(o) ==> o matches Some(info) && ({
                    let eff = effective_stake(stake_xrd.v(), proposal_statistic.made as int, proposal_statistic.missed as int, min_required_reliability.v());
                    &&& info.address == address && info.stake_xrd == stake_xrd && info.proposal_statistic == proposal_statistic
                    &&& info.effective_stake_xrd.v() == eff
                    &&& 0 <= eff <= stake_xrd.v()
                })),
                ret matches Err(e) ==> e == cm_error(),
        @entry
            proof {
                let ratio = success_ratio(proposal_statistic.made as int, proposal_statistic.missed as int);
                lemma_success_ratio_range(proposal_statistic.made as int, proposal_statistic.missed as int);
                lemma_reliability_factor_range(ratio, min_required_reliability.v());
                if stake_xrd.v() > 0 {
                    lemma_fmul_unit_factor(stake_xrd.v(), reliability_factor(ratio, min_required_reliability.v()));
                }
            }
        @*/
    }

    pub struct ConsensusManagerBlueprint;
    impl ConsensusManagerBlueprint {
        /*@fn radix-engine/src/blueprints/consensus_manager/consensus_manager.rs :: impl ConsensusManagerBlueprint :: fn apply_validator_emissions_and_rewards
        @sig
            requires
                // "We made sure no more than u8::MAX validators are stored" (ValidatorIndex = u8)
                validator_set.validators_by_stake_desc.entries().len() <= 256,
                // CurrentProposalStatisticSubstate: one statistic per validator of the set, in the same order
                validator_statistics@.len() >= validator_set.validators_by_stake_desc.entries().len(),
                forall|i: int| 0 <= i < validator_statistics@.len() ==> (#[trigger] validator_statistics@[i]).made as int + validator_statistics@[i].missed as int <= u64::MAX as int,
                // XRD tracks its total supply; the rewards vault belongs to the consensus manager component
                old(api).st().world.supply[XRD] is Some,
                old(api).st().actor_vaults.contains(old(validator_rewards).rewards_vault.0),
                old(api).st().world.vaults.contains_key(old(validator_rewards).rewards_vault.0) ==>
                    rewards_wf(old(validator_rewards).proposer_rewards.map(), old(api).st().world.vaults[old(validator_rewards).rewards_vault.0].amount.v()),
            ensures
                ret is Ok ==> ({
                    let g = ginfos(validator_set.validators_by_stake_desc.entries(), validator_statistics@, config.min_validator_reliability.v(),
                                   validator_set.validators_by_stake_desc.entries().len() as int);
                    &&& g_wf(g)
                    &&& g.len() == 0 ==> final(api).st() == old(api).st() && *final(validator_rewards) == *old(validator_rewards)
                    &&& g.len() > 0 ==> {
                        &&& accounting_post(old(api).st(), final(api).st(), g, config.total_emission_xrd_per_epoch.v(),
                                old(validator_rewards).proposer_rewards.map(), old(validator_rewards).rewards_vault.0, epoch)
                        &&& final(validator_rewards).proposer_rewards.map() == Map::<ValidatorIndex, Decimal>::empty()
                        &&& final(validator_rewards).rewards_vault == old(validator_rewards).rewards_vault
                    }
                }),
        @entry
            let ghost vs = validator_set.validators_by_stake_desc.entries();
            let ghost stats = validator_statistics@;
            let ghost min = config.min_validator_reliability.v();
            let ghost total = config.total_emission_xrd_per_epoch.v();
            let ghost s0 = api.st();
            let ghost pr0 = validator_rewards.proposer_rewards.map();
            let ghost rv = validator_rewards.rewards_vault.0;
            let ghost c0 = s0.calls.len() as int;
        @loop 1 iter it1
            invariant
                vs.len() <= 256, stats.len() >= vs.len(), stats == validator_statistics@, min == config.min_validator_reliability.v(),
                forall|i: int| 0 <= i < stats.len() ==> (#[trigger] stats[i]).made as int + stats[i].missed as int <= u64::MAX as int,
                it1.seq().len() == vs.len(),
                forall|i: int| 0 <= i < vs.len() ==> (#[trigger] it1.seq()[i]).0 == i && it1.seq()[i].1 == vs[i],
                rep(validator_infos.entries(), ginfos(vs, stats, min, it1.index@ as int)),
                stake_sum_xrd.v() == sum_stake(ginfos(vs, stats, min, it1.index@ as int), ginfos(vs, stats, min, it1.index@ as int).len() as int),
                api.st() == s0, *validator_rewards == *old(validator_rewards),
        @before <<if let Some(info) = ValidatorInfo::create_if_applicable(>> #1
            let ghost i1 = it1.index@ as int;
            let ghost g1 = ginfos(vs, stats, min, i1);
            proof {
                assert(it1.seq()[i1].0 == i1 && it1.seq()[i1].1 == vs[i1]);
                assert(index == i1 && address == vs[i1].0 && validator == vs[i1].1);
                lemma_ginfos_wf(vs, stats, min, i1);
                assert(ginfos(vs, stats, min, i1 + 1) == if vs[i1].1.stake.v() > 0 {
                        g1.push(GInfo { idx: i1, addr: vs[i1].0, stake: vs[i1].1.stake.v(),
                            eff: effective_stake(vs[i1].1.stake.v(), stats[i1].made as int, stats[i1].missed as int, min),
                            made: stats[i1].made, missed: stats[i1].missed }) } else { g1 });
            }
        @before <<validator_infos.insert(>> #1
            proof {
                let e1 = validator_infos.entries();
                assert(!has_key(e1, index as u8)) by {
                    if has_key(e1, index as u8) {
                        let k = key_index(e1, index as u8);
                        assert(rep1(e1[k], g1[k]));
                        assert(g1[k].idx < i1);
                    }
                }
                let g2 = ginfos(vs, stats, min, i1 + 1);
                lemma_sum_stake_prefix(g1, g2, g1.len() as int);
            }
        @before <<if validator_infos.is_empty()>> #1
            let ghost n = vs.len() as int;
            let ghost g = ginfos(vs, stats, min, n);
            proof { lemma_ginfos_wf(vs, stats, min, n); }
        @before <<let emission_per_staked_xrd>> #1
            proof { lemma_sums_bounds(g, g.len() as int); }
        @before <<let effective_total_emission_xrd>> #1
            let ghost rate = emission_per_staked_xrd.v();
            let ghost gl = g.len() as int;
            proof { assert(rate == emission_rate(total, g)); }
        @loop 2 iter it2
            invariant
                g_wf(g), gl == g.len(), rep(validator_infos.entries(), g), rate == emission_per_staked_xrd.v(),
                it2.seq().len() == gl,
                forall|i: int| 0 <= i < gl ==> *(#[trigger] it2.seq()[i]) == validator_infos.entries()[i].1,
                sum.v() == sum_em(g, rate, it2.index@ as int),
                api.st() == s0, *validator_rewards == *old(validator_rewards),
        @before <<let emission = v>> #1
            proof { let j = it2.index@ as int; assert(*it2.seq()[j] == validator_infos.entries()[j].1); assert(rep1(validator_infos.entries()[j], g[j])); }
        @before <<let total_emission_xrd_bucket>> #1
            let ghost minted = effective_total_emission_xrd.v();
        @before <<for validator_info in validator_infos.values()>> #1
            let ghost tb = total_emission_xrd_bucket.0.0;
            let ghost s1 = api.st();
            let ghost sup0 = s0.world.supply[XRD]->Some_0.v();
            proof {
                assert(Decimal::of(minted).v() == minted);
                assert(Decimal::of(minted) == effective_total_emission_xrd);
                assert(sum_em(g, rate, 0) == 0);
            }
        @loop 3 iter it3
            invariant
                g_wf(g), gl == g.len(), rep(validator_infos.entries(), g), rate == emission_per_staked_xrd.v(), minted == sum_em(g, rate, gl),
                it3.seq().len() == gl,
                forall|i: int| 0 <= i < gl ==> *(#[trigger] it3.seq()[i]) == validator_infos.entries()[i].1,
                tb == total_emission_xrd_bucket.0.0, !s0.world.buckets.contains_key(tb), c0 == s0.calls.len(),
                api.st().world.buckets =~= s0.world.buckets.insert(tb, Holding { resource: XRD, amount: Decimal::of(minted - sum_em(g, rate, it3.index@ as int)) }),
                in_dec(minted - sum_em(g, rate, it3.index@ as int)),
                api.st().world.supply[XRD] == Some(Decimal::of(sup0 + minted)),
                s0.actor_vaults.contains(rv),
                api.st().world.vaults.contains_key(rv) == s0.world.vaults.contains_key(rv), api.st().world.vaults[rv] == s0.world.vaults[rv],
                api.st().vstate == s0.vstate, api.st().handles == s0.handles, api.st().actor_vaults == s0.actor_vaults,
                api.st().calls.len() == c0 + it3.index@, api.st().calls.subrange(0, c0) =~= s0.calls,
                forall|j: int| 0 <= j < it3.index@ ==> em_call_ok(#[trigger] api.st().calls[c0 + j], g[j], rate, epoch),
                *validator_rewards == *old(validator_rewards),
        @before <<let emission_xrd_bucket>> #1
            let ghost j3 = it3.index@ as int;
            let ghost sa = api.st();
            proof { assert(*it3.seq()[j3] == validator_infos.entries()[j3].1); assert(rep1(validator_infos.entries()[j3], g[j3])); }
        @after <<let emission_xrd_bucket>> #1
            let ghost sc = api.st();
            let ghost eb = emission_xrd_bucket.0.0;
            proof {
                assert(sc.world.vaults == sa.world.vaults);
                assert(sc.actor_vaults.contains(rv));
                assert(sc.world.buckets.contains_key(eb));
            }
        @after <<api.call_method(>> #1
            proof {
                assert(api.st().world.vaults[rv] == sc.world.vaults[rv]);
                let e = emission_of(g[j3], rate);
                let rest = minted - sum_em(g, rate, j3);
                assert(sa.world.buckets[tb].amount.v() == rest);
                assert(eb != tb);
                assert(0 <= e <= rest);
                assert(api.st().world.buckets =~= s0.world.buckets.insert(tb, Holding { resource: XRD, amount: Decimal::of(rest - e) }));
                assert(api.st().calls.subrange(0, c0) =~= sa.calls.subrange(0, c0));
            }
        @before <<let mut total_effective_stake>> #1
            let ghost s3 = api.st();
            proof {
                assert(s3.world.buckets =~= s0.world.buckets);
                assert(minted == sum_em(g, rate, gl));
            }
        @loop 4 iter it4
            invariant
                g_wf(g), gl == g.len(), rep(validator_infos.entries(), g),
                it4.seq().len() == gl,
                forall|i: int| 0 <= i < gl ==> *(#[trigger] it4.seq()[i]).0 == validator_infos.entries()[i].0 && *it4.seq()[i].1 == validator_infos.entries()[i].1,
                total_effective_stake.v() == sum_eff(g, it4.index@ as int),
                total_claimable_proposer_rewards.v() == sum_pr(g, pr0, it4.index@ as int),
                api.st() == s3, *validator_rewards == *old(validator_rewards), pr0 == old(validator_rewards).proposer_rewards.map(),
        @before <<total_effective_stake = total_effective_stake>> #1
            proof { let j = it4.index@ as int; assert(*it4.seq()[j].0 == validator_infos.entries()[j].0 && *it4.seq()[j].1 == validator_infos.entries()[j].1); assert(rep1(validator_infos.entries()[j], g[j])); }
        @before <<let reward_per_effective_stake>> #1
            let ghost vault = s0.world.vaults[rv].amount.v();
            proof {
                assert(s0.world.vaults.contains_key(rv));
                lemma_rewards_bounded(g, pr0, vault);
            }
        @before <<for (index, validator_info) in validator_infos>> #1
            let ghost rrate = reward_per_effective_stake.v();
            let ghost e5 = validator_infos.entries();
            let ghost res = s0.world.vaults[rv].resource;
            proof {
                assert(s3.world.vaults[rv] == s0.world.vaults[rv]);
                assert(Decimal::of(vault).v() == vault);
                assert(Decimal::of(vault) == s0.world.vaults[rv].amount);
                assert(sum_pr(g, pr0, 0) + sum_em(g, rrate, 0) == 0);
                assert(rrate == reward_rate(vault, g, pr0));
                assert(s3.calls.subrange(c0 + gl, s3.calls.len() as int) =~= Seq::<CallRec>::empty());
            }
        @subst <<continue; }>> => <<} else { proof { assert(0 <= total_rewards.v() <= api.st().world.vaults[rv].amount.v()); }>> why: (the woven assert is the obligation (b): the reward vault is never overdrawn -- what is due never exceeds what the vault still holds) Verus rejects `continue` inside a for-loop ("for-loops do not yet support continue"); `if c { continue; } REST` at the top level of the loop body is rewritten to `if c { } else { REST }` (this subst opens the else-block, the next one closes it at the end of the loop body); control flow is unchanged
        @subst <<ValidatorApplyRewardInput { xrd_bucket, epoch }).unwrap(), )?; }>> => <<ValidatorApplyRewardInput { xrd_bucket, epoch }).unwrap(), )?; proof { let t = total_rewards.v(); let paid = sum_pr(g, pr0, j5) + sum_em(g, rrate, j5); assert(api.st().world.buckets =~= s0.world.buckets); assert(api.st().world.vaults[rv] == Holding { resource: res, amount: Decimal::of(vault - paid - t) }); assert(api.st().calls.subrange(0, c0) =~= sb.calls.subrange(0, c0)); let l0 = sb.calls.subrange(c0 + gl, sb.calls.len() as int); let l1 = api.st().calls.subrange(c0 + gl, api.st().calls.len() as int); assert(l1.drop_last() =~= l0); assert(rw_call_ok(l1.last(), g[j5], t, epoch, res)); } } }>> why: closing brace of the else-block opened by the previous subst (end of the body of the reward loop); the woven proof block (ghost code only) sits between the call and the two closing braces
        @loop 5 iter it5
            invariant
                g_wf(g), gl == g.len(), rep(e5, g), it5.seq() == e5, rrate == reward_per_effective_stake.v(), rrate >= 0,
                rewards_wf(pr0, vault), sum_pr(g, pr0, gl) + sum_em(g, rrate, gl) <= vault,
                vault == s0.world.vaults[rv].amount.v(), res == s0.world.vaults[rv].resource, in_dec(vault),
                rv == validator_rewards.rewards_vault.0, validator_rewards.rewards_vault == old(validator_rewards).rewards_vault,
                pr_agree(validator_rewards.proposer_rewards.map(), pr0, if it5.index@ == 0 { 0 } else { g[it5.index@ - 1].idx + 1 }),
                s0.world.supply[XRD] is Some, sup0 == s0.world.supply[XRD]->Some_0.v(), c0 == s0.calls.len(),
                api.st().world.buckets =~= s0.world.buckets,
                api.st().world.supply[XRD] == Some(Decimal::of(sup0 + minted)),
                s0.actor_vaults.contains(rv), s0.world.vaults.contains_key(rv), api.st().world.vaults.contains_key(rv),
                api.st().world.vaults[rv] == (Holding { resource: res, amount: Decimal::of(vault - (sum_pr(g, pr0, it5.index@ as int) + sum_em(g, rrate, it5.index@ as int))) }),
                0 <= sum_pr(g, pr0, it5.index@ as int) + sum_em(g, rrate, it5.index@ as int) <= vault,
                api.st().vstate == s0.vstate, api.st().handles == s0.handles, api.st().actor_vaults == s0.actor_vaults,
                api.st().calls.len() >= c0 + gl, api.st().calls.subrange(0, c0) =~= s0.calls,
                forall|j: int| 0 <= j < gl ==> em_call_ok(#[trigger] api.st().calls[c0 + j], g[j], rate, epoch),
                rw_calls_ok(api.st().calls.subrange(c0 + gl, api.st().calls.len() as int), g, pr0, rrate, epoch, res, it5.index@ as int),
        @before <<let as_proposer>> #1
            let ghost j5 = it5.index@ as int;
            let ghost sb = api.st();
            proof {
                assert(rep1(e5[j5], g[j5]));
                assert(index as int == g[j5].idx);
                if j5 > 0 { assert(g[j5 - 1].idx < g[j5].idx); }
                assert(0 <= g[j5].idx < 256);
                assert(g[j5].idx as u8 == index);
                assert(validator_rewards.proposer_rewards.map().contains_key(index) == pr0.contains_key(index));
                assert(validator_rewards.proposer_rewards.map()[index] == pr0[index]);
            }
        @before <<if total_rewards>> #1
            proof {
                assert(as_proposer.v() == prv(pr0, g[j5].idx));
                assert(total_rewards.v() == reward_of(g[j5], pr0, rrate));
                lemma_mono(g, pr0, rrate, j5 + 1, gl);
                lemma_mono(g, pr0, rrate, 0, j5 + 1);
                lemma_fmul_floor(g[j5].eff, rrate);
            }
        @before <<Ok(())>> #2
            proof {
                let s2 = api.st();
                let paid = sum_pr(g, pr0, gl) + sum_em(g, rrate, gl);
                if total >= 0 { lemma_emissions_bounded(g, total); }
                else { lemma_sums_bounds(g, gl); lemma_negative_rate(total, sum_stake(g, gl)); lemma_sum_em_nonpos(g, rate, gl); }
                assert(sum_stake(g, gl) > 0);
                assert(rate == emission_rate(total, g));
                assert(minted == sum_em(g, rate, gl));
                assert(s2.world.supply[XRD] == Some(Decimal::of(sup0 + minted)));
                assert(0 <= minted);
                assert(s2.world.buckets =~= s0.world.buckets);
                assert(s2.world.vaults[rv] == Holding { resource: res, amount: Decimal::of(vault - paid) });
                assert(0 <= paid <= vault);
                assert(s2.calls.len() >= c0 + gl && s2.calls.subrange(0, c0) =~= s0.calls);
                assert(rw_calls_ok(s2.calls.subrange(c0 + gl, s2.calls.len() as int), g, pr0, rrate, epoch, res, gl));
                assert(accounting_post(s0, s2, g, total, pr0, rv, epoch));
            }
        @*/
    }

    // ------------------------------------------------------------------------------------------
    // Validator side: what apply_emission / apply_reward do with the XRD they are handed
    // ------------------------------------------------------------------------------------------
    /// stake units minted for x XRD when the validator holds T XRD against S units
    pub open spec fn stake_units(x: int, t: int, s: int) -> int { if t == 0 { x } else { fmul(x, fdiv(s, t)) } }
    pub open spec fn stake_units_ok(x: int, t: int, s: int) -> bool {
        t == 0 || (fits_dec(fdiv(s, t)) && fits_dec(fmul(x, fdiv(s, t))))
    }
    /// XRD owed for u stake units when the validator holds T XRD against S units
    pub open spec fn redemption(u: int, t: int, s: int) -> int { if s == 0 { 0 } else { fmul(u, fdiv(t, s)) } }
    pub open spec fn redemption_ok(u: int, t: int, s: int) -> bool {
        s == 0 || (fits_dec(fdiv(t, s)) && fits_dec(fmul(u, fdiv(t, s))))
    }
    pub open spec fn computation_error() -> RuntimeError {
        RuntimeError::ApplicationError(ApplicationError::ValidatorError(ValidatorError::UnexpectedDecimalComputationError))
    }
    /// "we will use this new_validator_fee_factor only if epoch_effective <= N-1 [the concluded epoch]"
    pub open spec fn effective_fee_factor(s: ValidatorSubstate, concluded: Epoch) -> int {
        match s.validator_fee_change_request {
            Some(r) => if r.epoch_effective.0 <= concluded.0 { r.new_fee_factor.v() } else { s.validator_fee_factor.v() },
            None => s.validator_fee_factor.v(),
        }
    }
    /// invariants of a validator component that the accounting relies on
    pub open spec fn validator_env_ok(s: ApiState) -> bool {
        let v = s.vstate;
        // fee factors are validated by check_validator_fee_factor (create / update_fee): 0 <= f <= 1
        &&& 0 <= v.validator_fee_factor.v() <= e18()
        &&& (v.validator_fee_change_request matches Some(r) ==> 0 <= r.new_fee_factor.v() <= e18())
        // the stake-unit resource is created with track_total_supply = true, and it is not XRD
        &&& s.world.supply[v.stake_unit_resource] is Some
        &&& v.stake_unit_resource != XRD
        // two different vaults
        &&& v.stake_xrd_vault_id != v.locked_owner_stake_unit_vault_id
        &&& world_wf(s.world)
    }
    /// what putting `amount` XRD from `bucket` into the stake pool and minting `m` stake units into the owner's locked vault does
    pub open spec fn staked_post(s: ApiState, s2: ApiState, bucket: Own, amount: int, m: int) -> bool {
        let v = s.vstate; let w = s.world; let w2 = s2.world;
        let sv = v.stake_xrd_vault_id; let lv = v.locked_owner_stake_unit_vault_id; let su = v.stake_unit_resource;
        &&& w.buckets.contains_key(bucket) && w.vaults.contains_key(sv) && w.vaults.contains_key(lv)
        &&& w.buckets[bucket].resource == w.vaults[sv].resource && w.vaults[lv].resource == su
        // the stake pool grows by exactly the XRD handed in; XRD is neither minted nor burnt (su != XRD)
        &&& w2.vaults =~= w.vaults.insert(sv, Holding { resource: w.vaults[sv].resource, amount: Decimal::of(w.vaults[sv].amount.v() + amount) })
                                  .insert(lv, Holding { resource: su, amount: Decimal::of(w.vaults[lv].amount.v() + m) })
        &&& w2.supply =~= w.supply.insert(su, Some(Decimal::of(w.supply[su]->Some_0.v() + m)))
        &&& w2.buckets =~= w.buckets.remove(bucket)
        // the validator's state is as before except for the cached index key, which is the key the by-stake index now
        // holds for this validator (a stale cached key makes the next Remove / UpdateStake miss the entry)
        &&& s2.vstate == (ValidatorSubstate { sorted_key: ValidatorBlueprint::index_key_for(v.is_registered, Decimal::of(w.vaults[sv].amount.v() + amount)), ..v })
        &&& s2.handles =~= s.handles && s2.calls == s.calls && s2.actor_vaults == s.actor_vaults
    }
    /// C42 (c) what a successful apply_emission did
    pub open spec fn emission_applied(s: ApiState, s2: ApiState, bucket: Own, concluded: Epoch) -> bool {
        let v = s.vstate; let w = s.world;
        let e = w.buckets[bucket].amount.v();
        let t = w.vaults[v.stake_xrd_vault_id].amount.v();
        let su_supply = w.supply[v.stake_unit_resource]->Some_0.v();
        let fee = fmul(effective_fee_factor(v, concluded), e);
        // the fee is staked after the net emission went into the pool: units at the POST-emission price
        let m = stake_units(fee, t + (e - fee), su_supply);
        &&& staked_post(s, s2, bucket, e, m)
        &&& 0 <= fee <= e && m >= 0
        // no value created for the owner at the stakers' expense: a stake unit redeems for no less than before
        &&& m * t <= e * su_supply
    }
    /// what a successful apply_reward did: the whole reward is staked on behalf of the owner at the current price
    pub open spec fn reward_applied(s: ApiState, s2: ApiState, bucket: Own) -> bool {
        let v = s.vstate; let w = s.world;
        let r = w.buckets[bucket].amount.v();
        let t = w.vaults[v.stake_xrd_vault_id].amount.v();
        let su_supply = w.supply[v.stake_unit_resource]->Some_0.v();
        let m = stake_units(r, t, su_supply);
        &&& staked_post(s, s2, bucket, r, m)
        &&& m >= 0
        &&& m * t <= r * su_supply
    }

    /// r*D <= u*q  and  q*s <= t*D  (two floor steps)  ==>  r*s <= u*t   (the result never exceeds the exact share)
    pub proof fn lemma_chain(r: int, u: int, q: int, s: int, t: int, d: int)
        requires r >= 0, u >= 0, q >= 0, s >= 0, t >= 0, d > 0, r * d <= u * q, q * s <= t * d
        ensures r * s <= u * t
    {
        assert((r * d) * s <= (u * q) * s) by (nonlinear_arith) requires r * d <= u * q, s >= 0;
        assert(u * (q * s) <= u * (t * d)) by (nonlinear_arith) requires q * s <= t * d, u >= 0;
        assert((r * d) * s == (r * s) * d) by (nonlinear_arith);
        assert((u * q) * s == u * (q * s)) by (nonlinear_arith);
        assert(u * (t * d) == (u * t) * d) by (nonlinear_arith);
        assert(r * s <= u * t) by (nonlinear_arith) requires (r * s) * d <= (u * t) * d, d > 0;
    }
    /// stake units never exceed the exact proportion x*S/T
    pub proof fn lemma_stake_units_pro_rata(x: int, t: int, s: int)
        requires x >= 0, t >= 0, s >= 0
        ensures stake_units(x, t, s) >= 0, t > 0 ==> stake_units(x, t, s) * t <= x * s
    {
        if t > 0 {
            lemma_fdiv_floor(s, t);
            lemma_fmul_floor(x, fdiv(s, t));
            lemma_chain(stake_units(x, t, s), x, fdiv(s, t), t, s, e18());
        }
    }
    /// redemption never exceeds the exact share u*T/S, and never the vault when u <= S
    pub proof fn lemma_redemption_pro_rata(u: int, t: int, s: int)
        requires u >= 0, t >= 0, s >= 0
        ensures redemption(u, t, s) >= 0, redemption(u, t, s) * s <= u * t, u <= s ==> redemption(u, t, s) <= t,
    {
        if s > 0 {
            lemma_fdiv_floor(t, s);
            lemma_fmul_floor(u, fdiv(t, s));
            let r = redemption(u, t, s);
            lemma_chain(r, u, fdiv(t, s), s, t, e18());
            if u <= s {
                assert(u * t <= s * t) by (nonlinear_arith) requires u <= s, t >= 0;
                assert(r <= t) by (nonlinear_arith) requires r * s <= s * t, s > 0;
            }
        } else {
            assert(redemption(u, t, s) * s == 0) by (nonlinear_arith) requires s == 0;
            assert(u * t >= 0) by (nonlinear_arith) requires u >= 0, t >= 0;
        }
    }
    /// (c) emission E into a pool of T XRD against S units with fee factor f in [0,1]: the owner's new units m (minted for the
    /// fee at the post-emission price) satisfy  m*T <= E*S,  i.e.  (T+E)/(S+m) >= T/S : no existing unit loses value
    pub proof fn lemma_emission_no_dilution(e: int, t: int, s: int, f: int)
        requires e >= 0, t >= 0, s >= 0, 0 <= f <= e18()
        ensures ({
            let fee = fmul(f, e);
            let m = stake_units(fee, t + (e - fee), s);
            &&& 0 <= fee <= e && m >= 0 && m * t <= e * s
            &&& (t + e) * s >= t * (s + m)
        })
    {
        lemma_fmul_unit_factor(e, f);
        assert(f * e == e * f) by (nonlinear_arith);
        let fee = fmul(f, e);
        assert(fee == fmul(e, f));
        let p = t + (e - fee);
        lemma_stake_units_pro_rata(fee, p, s);
        let m = stake_units(fee, p, s);
        if p > 0 {
            assert(m * t <= m * p) by (nonlinear_arith) requires m >= 0, t <= p;
            assert(fee * s <= e * s) by (nonlinear_arith) requires fee <= e, s >= 0;
        } else {
            assert(m * t == 0) by (nonlinear_arith) requires t == 0;
            assert(e * s >= 0) by (nonlinear_arith) requires e >= 0, s >= 0;
        }
        assert((t + e) * s >= t * (s + m)) by (nonlinear_arith) requires m * t <= e * s;
    }

    /// what a successful stake(bucket) did: "Staking mints stake units in proportion to the validator's stake"
    pub open spec fn staked(s: ApiState, s2: ApiState, bucket: Own, out: Own) -> bool {
        let v = s.vstate; let w = s.world; let w2 = s2.world;
        let sv = v.stake_xrd_vault_id; let su = v.stake_unit_resource;
        let x = w.buckets[bucket].amount.v(); let t = w.vaults[sv].amount.v(); let sus = w.supply[su]->Some_0.v();
        let m = stake_units(x, t, sus);
        &&& w.buckets.contains_key(bucket) && w.vaults.contains_key(sv) && w.buckets[bucket].resource == w.vaults[sv].resource
        &&& out != bucket && !w.buckets.contains_key(out)
        // the pool takes exactly the XRD handed in; exactly m stake units are minted into the returned bucket
        &&& w2.vaults =~= w.vaults.insert(sv, Holding { resource: w.vaults[sv].resource, amount: Decimal::of(t + x) })
        &&& w2.supply =~= w.supply.insert(su, Some(Decimal::of(sus + m)))
        &&& w2.buckets =~= w.buckets.remove(bucket).insert(out, Holding { resource: su, amount: Decimal::of(m) })
        &&& in_dec(t + x) && in_dec(sus + m) && in_dec(m)
        // never more units than the exact proportion x * S / T
        &&& m >= 0 && m * t <= x * sus
        &&& s2.vstate == (ValidatorSubstate { sorted_key: ValidatorBlueprint::index_key_for(v.is_registered, Decimal::of(t + x)), ..v })
        &&& s2.calls == s.calls && s2.actor_vaults == s.actor_vaults
    }
    /// C42 on the ledger: right after a successful stake of x XRD, the minted units are worth (by the validator's own
    /// redemption formula over the new pool / supply) no more than x: staking and immediately unstaking never gains XRD
    pub proof fn lemma_stake_then_redeem_on_ledger(s: ApiState, s2: ApiState, bucket: Own, out: Own)
        requires validator_env_ok(s), staked(s, s2, bucket, out)
        ensures ({
            let v = s.vstate;
            let x = s.world.buckets[bucket].amount.v();
            let u = s2.world.buckets[out].amount.v();
            let t2 = s2.world.vaults[v.stake_xrd_vault_id].amount.v();
            let sus2 = s2.world.supply[v.stake_unit_resource]->Some_0.v();
            0 <= redemption(u, t2, sus2) <= x
        })
    {
        let v = s.vstate; let w = s.world;
        let x = w.buckets[bucket].amount.v(); let t = w.vaults[v.stake_xrd_vault_id].amount.v(); let sus = w.supply[v.stake_unit_resource]->Some_0.v();
        let m = stake_units(x, t, sus);
        assert(x >= 0 && t >= 0 && sus >= 0);
        lemma_stake_then_unstake(x, t, sus);
    }
    /// staking x XRD into a validator holding T XRD against S units and immediately redeeming the minted units (the vault
    /// then holds T + x against S + units) never returns more than x
    pub proof fn lemma_stake_then_unstake(x: int, t: int, s: int)
        requires x >= 0, t >= 0, s >= 0
        ensures ({
            let u = stake_units(x, t, s);
            0 <= redemption(u, t + x, s + u) <= x
        })
    {
        let u = stake_units(x, t, s);
        lemma_stake_units_pro_rata(x, t, s);
        let t2 = t + x; let s2 = s + u;
        lemma_redemption_pro_rata(u, t2, s2);
        let r = redemption(u, t2, s2);
        if s2 > 0 {
            assert(u * t <= x * s) by {
                if t == 0 { assert(u * t == 0) by (nonlinear_arith) requires t == 0; assert(x * s >= 0) by (nonlinear_arith) requires x >= 0, s >= 0; }
            }
            assert(u * t2 <= x * s2) by (nonlinear_arith) requires u * t <= x * s, t2 == t + x, s2 == s + u;
            assert(r <= x) by (nonlinear_arith) requires r * s2 <= u * t2, u * t2 <= x * s2, s2 > 0;
        }
    }
    /// caller side meets callee side: what shims/ledger_sdk_c42.rs ASSUMES of `call_method(.., apply_emission | apply_reward, ..)`
    /// (bucket consumed, XRD supply untouched, only the callee's own two vaults change) follows from what is PROVED below
    /// for ValidatorBlueprint::{apply_emission, apply_reward}
    pub proof fn lemma_call_contract_discharged(s: ApiState, s2: ApiState, b: Own, epoch: Epoch)
        requires validator_env_ok(s), emission_applied(s, s2, b, epoch) || reward_applied(s, s2, b)
        ensures
            s.world.buckets.contains_key(b),
            s2.world.buckets =~= s.world.buckets.remove(b),
            s2.world.supply[XRD] == s.world.supply[XRD],
            forall|v: Own| v != s.vstate.stake_xrd_vault_id && v != s.vstate.locked_owner_stake_unit_vault_id ==>
                s2.world.vaults.contains_key(v) == s.world.vaults.contains_key(v) && #[trigger] s2.world.vaults[v] == s.world.vaults[v],
    {}

    pub struct ValidatorBlueprint;
    impl ValidatorBlueprint {
        /*@fn radix-engine/src/blueprints/consensus_manager/validator.rs :: impl ValidatorBlueprint :: fn calculate_stake_unit_amount
        @sig
            ensures ret is Ok <==> stake_units_ok(xrd_amount.v(), total_stake_xrd_amount.v(), total_stake_unit_supply.v()),
                    ret matches Ok(u) ==> u.v() == stake_units(xrd_amount.v(), total_stake_xrd_amount.v(), total_stake_unit_supply.v()),
                    ret matches Err(e) ==> e == computation_error(),
        @closure 1 := |amount: Decimal| -> (r: Option<Decimal>) ensures r == (if fits_dec(dec_mul(xrd_amount.v(), amount.v())) { Some(Decimal::of(dec_mul(xrd_amount.v(), amount.v()))) } else { None })
        @*/

        /*@fn radix-engine/src/blueprints/consensus_manager/validator.rs :: impl ValidatorBlueprint :: fn stake_internal
        @sig
            requires validator_env_ok(old(api).st()),
            ensures
                ret matches Ok(out) ==> staked(old(api).st(), final(api).st(), xrd_bucket.0, out.0.0)
                    && (is_owner || old(api).st().vstate.accepts_delegated_stake),
        @entry
            let ghost s0 = api.st();
            let ghost v0 = s0.vstate; let ghost w0 = s0.world;
            let ghost sv = v0.stake_xrd_vault_id; let ghost su = v0.stake_unit_resource;
            let ghost xb = xrd_bucket.0;
        @before <<let new_index_key>> #1
            proof {
                let x = xrd_bucket_amount.v(); let t = w0.vaults[sv].amount.v(); let sus = w0.supply[su]->Some_0.v();
                assert(w0.buckets.contains_key(xb) && x == w0.buckets[xb].amount.v() && x >= 0 && t >= 0 && sus >= 0);
                lemma_stake_units_pro_rata(x, t, sus);
                if t == 0 { assert(stake_units(x, t, sus) * t == 0) by (nonlinear_arith) requires t == 0; assert(x * sus >= 0) by (nonlinear_arith) requires x >= 0, sus >= 0; }
                let m = stake_units(x, t, sus); let out = stake_unit_bucket.0.0;
                assert(Decimal::of(m).v() == m);
                assert(api.st().world.vaults =~= w0.vaults.insert(sv, Holding { resource: w0.vaults[sv].resource, amount: Decimal::of(t + x) }));
                assert(api.st().world.supply =~= w0.supply.insert(su, Some(Decimal::of(sus + m))));
                assert(api.st().world.buckets =~= w0.buckets.remove(xb).insert(out, Holding { resource: su, amount: Decimal::of(m) }));
                assert(new_stake_amount == api.st().world.vaults[sv].amount);
            }
        @*/

        /*@fn radix-engine/src/blueprints/consensus_manager/validator.rs :: impl ValidatorBlueprint :: fn stake
        @sig
            requires validator_env_ok(old(api).st()),
            ensures ret matches Ok(out) ==> staked(old(api).st(), final(api).st(), xrd_bucket.0, out.0) && old(api).st().vstate.accepts_delegated_stake,
        @*/

        /*@fn radix-engine/src/blueprints/consensus_manager/validator.rs :: impl ValidatorBlueprint :: fn stake_as_owner
        @sig
            requires validator_env_ok(old(api).st()),
            ensures ret matches Ok(out) ==> staked(old(api).st(), final(api).st(), xrd_bucket.0, out.0),
        @*/

        /*@fn radix-engine/src/blueprints/consensus_manager/validator.rs :: impl ValidatorBlueprint :: fn apply_emission
        @sig
            requires validator_env_ok(old(api).st()),
            ensures ret is Ok ==> emission_applied(old(api).st(), final(api).st(), xrd_bucket.0, concluded_epoch),
        @entry
            let ghost s0 = api.st();
            let ghost v0 = s0.vstate; let ghost w0 = s0.world;
            let ghost sv = v0.stake_xrd_vault_id; let ghost lv = v0.locked_owner_stake_unit_vault_id; let ghost su = v0.stake_unit_resource;
            let ghost xb = xrd_bucket.0;
        @before <<let fee_xrd_bucket>> #1
            let ghost e = total_emission_xrd.v();
            let ghost fee = validator_fee_xrd.v();
            proof {
                assert(effective_validator_fee_factor.v() == effective_fee_factor(v0, concluded_epoch));
                assert(w0.buckets.contains_key(xb) && e == w0.buckets[xb].amount.v() && e >= 0);
                assert(fee == fmul(effective_fee_factor(v0, concluded_epoch), e));
            }
        @before <<let mut stake_unit_resman>> #1
            let ghost t = starting_stake_pool_xrd.v();
            let ghost fb = fee_xrd_bucket.0;
            proof {
                lemma_emission_no_dilution(e, t, w0.supply[su]->Some_0.v(), effective_fee_factor(v0, concluded_epoch));
                assert(fb != xb);
                assert(api.st().world.vaults =~= w0.vaults.insert(sv, Holding { resource: w0.vaults[sv].resource, amount: Decimal::of(t + (e - fee)) }));
                assert(api.st().world.buckets =~= w0.buckets.remove(xb).insert(fb, Holding { resource: w0.buckets[xb].resource, amount: validator_fee_xrd }));
            }
        @before <<let new_stake_xrd>> #1
            let ghost m = stake_unit_mint_amount.v();
            let ghost sus = total_stake_unit_supply.v();
            proof {
                assert(sus == w0.supply[su]->Some_0.v());
                assert(m == stake_units(fee, t + (e - fee), sus));
                assert(api.st().world.vaults =~= w0.vaults.insert(sv, Holding { resource: w0.vaults[sv].resource, amount: Decimal::of(t + e) })
                                  .insert(lv, Holding { resource: su, amount: Decimal::of(w0.vaults[lv].amount.v() + m) }));
                assert(api.st().world.buckets =~= w0.buckets.remove(xb));
                assert(api.st().world.supply =~= w0.supply.insert(su, Some(Decimal::of(sus + m))));
            }
        @before <<Ok(())>> #1
            proof {
                assert(api.st().handles =~= s0.handles);
                assert(staked_post(s0, api.st(), xb, e, m));
            }
        @*/

        /*@fn radix-engine/src/blueprints/consensus_manager/validator.rs :: impl ValidatorBlueprint :: fn apply_reward
        @sig
            requires validator_env_ok(old(api).st()),
            ensures ret is Ok ==> reward_applied(old(api).st(), final(api).st(), xrd_bucket.0),
        @entry
            let ghost s0 = api.st();
            let ghost v0 = s0.vstate; let ghost w0 = s0.world;
            let ghost sv = v0.stake_xrd_vault_id; let ghost lv = v0.locked_owner_stake_unit_vault_id; let ghost su = v0.stake_unit_resource;
            let ghost xb = xrd_bucket.0;
        @before <<let new_stake_xrd>> #1
            let ghost r = total_reward_xrd.v();
            let ghost t = starting_stake_pool_xrd.v();
            let ghost m = stake_unit_mint_amount.v();
            let ghost sus = total_stake_unit_supply.v();
            proof {
                assert(w0.buckets.contains_key(xb) && r == w0.buckets[xb].amount.v() && r >= 0);
                assert(sus == w0.supply[su]->Some_0.v() && sus >= 0 && t >= 0);
                lemma_stake_units_pro_rata(r, t, sus);
                if t == 0 { assert(m * t == 0) by (nonlinear_arith) requires t == 0; assert(r * sus >= 0) by (nonlinear_arith) requires r >= 0, sus >= 0; }
                assert(api.st().world.vaults =~= w0.vaults.insert(sv, Holding { resource: w0.vaults[sv].resource, amount: Decimal::of(t + r) })
                                  .insert(lv, Holding { resource: su, amount: Decimal::of(w0.vaults[lv].amount.v() + m) }));
                assert(api.st().world.buckets =~= w0.buckets.remove(xb));
                assert(api.st().world.supply =~= w0.supply.insert(su, Some(Decimal::of(sus + m))));
            }
        @before <<Ok(())>> #1
            proof {
                assert(api.st().handles =~= s0.handles);
                assert(staked_post(s0, api.st(), xb, r, m));
            }
        @*/

        /*@fn radix-engine/src/blueprints/consensus_manager/validator.rs :: impl ValidatorBlueprint :: fn calculate_redemption_value
        @sig
            requires
                old(api).st().world.supply[validator_substate.stake_unit_resource] is Some,
            ensures
                ret is Ok ==> final(api).st() == old(api).st(),
                ({
                    let w = old(api).st().world;
                    let t = w.vaults[validator_substate.stake_xrd_vault_id].amount.v();
                    let s = w.supply[validator_substate.stake_unit_resource]->Some_0.v();
                    &&& (ret matches Ok(x) ==> w.vaults.contains_key(validator_substate.stake_xrd_vault_id)
                            && x.v() == redemption(amount_of_stake_units.v(), t, s) && redemption_ok(amount_of_stake_units.v(), t, s))
                    // the only error of its own is the overflow error, raised only when the computation does overflow
                    &&& (ret matches Err(e) ==> (e.is_validator_error() ==> e == computation_error() && !redemption_ok(amount_of_stake_units.v(), t, s)))
                }),
        @closure 1 := |amount: Decimal| -> (r: Option<Decimal>) ensures r == (if fits_dec(dec_mul(amount_of_stake_units.v(), amount.v())) { Some(Decimal::of(dec_mul(amount_of_stake_units.v(), amount.v()))) } else { None })
        @*/

        /*@fn radix-engine/src/blueprints/consensus_manager/validator.rs :: impl ValidatorBlueprint :: fn get_redemption_value
        @sig
            requires validator_env_ok(old(api).st()),
            ensures
                ret matches Ok(x) ==> ({
                    let s = old(api).st(); let v = s.vstate;
                    let t = s.world.vaults[v.stake_xrd_vault_id].amount.v();
                    let sus = s.world.supply[v.stake_unit_resource]->Some_0.v();
                    let u = amount_of_stake_units.v();
                    // only for 0 < u <= supply; the quoted value is the pro-rata share rounded down, never more than the pool
                    &&& 0 < u <= sus
                    &&& x.v() == redemption(u, t, sus)
                    &&& 0 <= x.v() <= t && x.v() * sus <= u * t
                    // a pure query
                    &&& final(api).st().world == s.world && final(api).st().vstate == s.vstate && final(api).st().handles =~= s.handles
                    &&& final(api).st().calls == s.calls && final(api).st().actor_vaults == s.actor_vaults
                }),
                // refusals of its own are justified: a bad amount, or an overflow in the quotient / product
                ret matches Err(e) ==> (e.is_validator_error() ==> ({
                    let s = old(api).st(); let v = s.vstate;
                    let t = s.world.vaults[v.stake_xrd_vault_id].amount.v();
                    let sus = s.world.supply[v.stake_unit_resource]->Some_0.v();
                    let u = amount_of_stake_units.v();
                    ||| e == RuntimeError::ApplicationError(ApplicationError::ValidatorError(ValidatorError::InvalidGetRedemptionAmount)) && !(0 < u <= sus)
                    ||| e == computation_error() && 0 < u <= sus && !redemption_ok(u, t, sus)
                })),
        @entry
            let ghost s0 = api.st();
        @before <<api.field_close(handle)?>> #1
            proof {
                let v = s0.vstate;
                assert(s0.world.vaults.contains_key(v.stake_xrd_vault_id));
                lemma_redemption_pro_rata(amount_of_stake_units.v(), s0.world.vaults[v.stake_xrd_vault_id].amount.v(), s0.world.supply[v.stake_unit_resource]->Some_0.v());
            }
        @*/

        /*@fn radix-engine/src/blueprints/consensus_manager/validator.rs :: impl ValidatorBlueprint :: fn total_stake_xrd_amount
        @sig
            ensures ret matches Ok(x) ==> ({
                let s = old(api).st();
                &&& s.world.vaults.contains_key(s.vstate.stake_xrd_vault_id) && x == s.world.vaults[s.vstate.stake_xrd_vault_id].amount
                &&& final(api).st().world == s.world && final(api).st().vstate == s.vstate && final(api).st().handles =~= s.handles
            }),
        @*/

        /*@fn radix-engine/src/blueprints/consensus_manager/validator.rs :: impl ValidatorBlueprint :: fn total_stake_unit_supply
        @sig
            requires old(api).st().world.supply[old(api).st().vstate.stake_unit_resource] is Some,
            ensures ret matches Ok(x) ==> ({
                let s = old(api).st();
                &&& Some(x) == s.world.supply[s.vstate.stake_unit_resource]
                &&& final(api).st().world == s.world && final(api).st().vstate == s.vstate && final(api).st().handles =~= s.handles
            }),
        @*/

        /*@fn radix-engine/src/blueprints/consensus_manager/validator.rs :: impl ValidatorBlueprint :: fn lock_owner_stake_units
        @sig
            ensures ret is Ok ==> ({
                let s = old(api).st(); let w = s.world; let lv = s.vstate.locked_owner_stake_unit_vault_id; let b = stake_unit_bucket.0;
                &&& w.vaults.contains_key(lv) && w.buckets.contains_key(b) && w.buckets[b].resource == w.vaults[lv].resource
                // the owner's locked vault grows by exactly the bucket; nothing else moves, nothing is minted
                &&& final(api).st().world.vaults =~= w.vaults.insert(lv, Holding { resource: w.vaults[lv].resource, amount: Decimal::of(w.vaults[lv].amount.v() + w.buckets[b].amount.v()) })
                &&& final(api).st().world.buckets =~= w.buckets.remove(b)
                &&& final(api).st().world.supply == w.supply
                &&& final(api).st().vstate == s.vstate && final(api).st().handles =~= s.handles
            }),
        @*/

        /*@fn radix-engine/src/blueprints/consensus_manager/validator.rs :: impl ValidatorBlueprint :: fn to_sorted_key
        @sig
            requires stake.v() >= 0,
            ensures
                // only registered validators with a non-zero stake are in the by-stake index the active set is drawn from
                ret matches Ok(o) && (o is Some <==> registered && stake.v() != 0),
        @*/
    }

    // ------------------------------------------------------------------------------------------
    // ActiveValidatorSet helpers
    // ------------------------------------------------------------------------------------------
    pub open spec fn stake_total(vs: VSet, n: int) -> int decreases n { if n <= 0 { 0 } else { stake_total(vs, n - 1) + vs[n - 1].1.stake.v() } }
    /*@item radix-engine/src/blueprints/consensus_manager/consensus_manager.rs :: struct ActiveValidatorSet
    @derive
    @*/
    impl ActiveValidatorSet {
        /*@fn radix-engine/src/blueprints/consensus_manager/consensus_manager.rs :: impl ActiveValidatorSet :: fn get_by_index
        @sig
            ensures match ret {
                Some(kv) => (index as int) < self.validators_by_stake_desc.entries().len()
                    && *kv.0 == self.validators_by_stake_desc.entries()[index as int].0 && *kv.1 == self.validators_by_stake_desc.entries()[index as int].1,
                None => index as int >= self.validators_by_stake_desc.entries().len(),
            },
        @*/

        /*@fn radix-engine/src/blueprints/consensus_manager/consensus_manager.rs :: impl ActiveValidatorSet :: fn validator_count
        @sig
            ensures ret == self.validators_by_stake_desc.entries().len(),
        @*/

        /*@fn radix-engine/src/blueprints/consensus_manager/consensus_manager.rs :: impl ActiveValidatorSet :: fn total_active_stake_xrd
        @sig
            ensures
                ret matches Ok(x) ==> x.v() == stake_total(self.validators_by_stake_desc.entries(), self.validators_by_stake_desc.entries().len() as int),
                ret is Ok <==> (forall|n: int| 0 <= n <= self.validators_by_stake_desc.entries().len() ==> in_dec(#[trigger] stake_total(self.validators_by_stake_desc.entries(), n))),
                ret matches Err(e) ==> e == cm_error(),
        @subst <<|(_, validator)| validator.stake>> => <<|kv: (&ComponentAddress, &Validator)| -> (r: Decimal) ensures r == kv.1.stake { let (_, validator) = kv; validator.stake }>> why: Verus rejects closure PATTERN parameters ("only variables are supported"); the tuple parameter is named and destructured by a `let` with the original pattern, the body is unchanged
        @entry
            let ghost vs = self.validators_by_stake_desc.entries();
        @loop 1 iter it
            invariant
                vs == self.validators_by_stake_desc.entries(),
                it.seq().len() == vs.len(),
                forall|i: int| 0 <= i < vs.len() ==> #[trigger] it.seq()[i] == vs[i].1.stake,
                sum.v() == stake_total(vs, it.index@ as int),
                forall|n: int| 0 <= n <= it.index@ ==> in_dec(#[trigger] stake_total(vs, n)),
        @before <<sum = sum>> #1
            proof { assert(v == vs[it.index@ as int].1.stake); assert(stake_total(vs, it.index@ + 1) == stake_total(vs, it.index@ as int) + v.v()); }
        @*/
    }

    // ------------------------------------------------------------------------------------------
    // Slices of ConsensusManagerBlueprint::{create, epoch_change} (both otherwise system-API / iterator plumbing that
    // is outside the verifiable subset): the expressions are re-extracted from /repo on every run.
    // ------------------------------------------------------------------------------------------
    /// create(): a configuration with more validators than a ValidatorIndex (u8) can number is refused -- this is what
    /// justifies the `<= 256 validators` precondition of apply_validator_emissions_and_rewards
    pub fn create_rejects_validator_count(initial_config: &ConsensusManagerConfig) -> (rejected: bool)
        ensures rejected == (initial_config.max_validators > 255)
    {
        /*@expr radix-engine/src/blueprints/consensus_manager/consensus_manager.rs :: impl ConsensusManagerBlueprint :: fn create :: <<initial_config.max_validators > ValidatorIndex::MAX>> #1 @*/
    }
    /// epoch_change(): how many entries of the by-stake index are read; cannot overflow and is never fewer than the set size
    pub fn epoch_change_read_count(config: &ConsensusManagerConfig) -> (n: u32)
        requires config.max_validators <= 255
        ensures n >= config.max_validators, n == config.max_validators + config.max_validators / 10 + 10
    {
        /*@expr-after radix-engine/src/blueprints/consensus_manager/consensus_manager.rs :: impl ConsensusManagerBlueprint :: fn epoch_change :: <<let num_validators_to_read_from_store =>> @*/
    }
    /// epoch_change(): the next active set is cut to "at most the configured size" (argument of `.take(..)`)
    pub fn epoch_change_set_size_cap(config: &ConsensusManagerConfig) -> (n: usize)
        ensures n == config.max_validators
    {
        /*@expr-after radix-engine/src/blueprints/consensus_manager/consensus_manager.rs :: impl ConsensusManagerBlueprint :: fn epoch_change :: <<.take(>> @*/
    }
    /// epoch_change(): the comparator handed to the (stable) `sort_by` orders by stake DESCENDING
    pub fn epoch_change_order(validator1: &Validator, validator2: &Validator) -> (o: core::cmp::Ordering)
        ensures o == cmp_int(validator2.stake.v(), validator1.stake.v())
    {
        /*@expr-after radix-engine/src/blueprints/consensus_manager/consensus_manager.rs :: impl ConsensusManagerBlueprint :: fn epoch_change :: <<let validator2 = validator_2.as_unique_version();>> @*/
    }
}
} // verus!
fn main() {}
