// Unit c42_emissions -- property C42 "Validator staking and emissions never create value" (emission / reward clauses)
// Real code: radix-engine/src/blueprints/consensus_manager/consensus_manager.rs
//              ProposalStatistic::success_ratio, ValidatorInfo::{to_reliability_factor, create_if_applicable}
use vstd::prelude::*;
verus! {
/*@include shims/rt.rs @*/
/*@include shims/decimal.rs @*/

pub mod env {
    use vstd::prelude::*;
    use super::decimal::*;
    use super::decimal::Decimal;
    // ---- payload types of error variants that this unit never constructs (opaque) ----
    pub struct KernelError;
    pub struct SystemError;
    pub struct SystemModuleError;
    pub struct SystemUpstreamError;
    pub struct VmError;
    pub struct CostingError;
    pub struct AccessControllerError; pub struct AccountError; pub struct AuthZoneError; pub struct BucketError;
    pub struct ComponentRoyaltyError; pub struct DecodeError;
    pub struct FungibleResourceManagerError; pub struct MetadataError; pub struct MultiResourcePoolError;
    pub struct NonFungibleResourceManagerError; pub struct NonFungibleVaultError; pub struct OneResourcePoolError;
    pub struct PackageError; pub struct ProofError; pub struct RoleAssignmentError; pub struct TransactionProcessorError;
    pub struct TwoResourcePoolError; pub struct VaultError; pub struct WorktopError;
    /*@item radix-common/src/types/consensus.rs :: type ValidatorIndex
    @*/
    /*@item radix-common/src/types/consensus.rs :: struct Epoch
    @derive Clone, Copy
    @*/
    /*@item radix-common/src/types/consensus.rs :: struct Round
    @derive Clone, Copy
    @*/
    /*@item radix-engine/src/blueprints/consensus_manager/validator.rs :: enum ValidatorError
    @derive
    @*/
    /*@item radix-engine/src/blueprints/consensus_manager/consensus_manager.rs :: enum ConsensusManagerError
    @derive
    @*/
    /*@item radix-engine/src/errors.rs :: enum ApplicationError
    @derive
    @*/
    /*@item radix-engine/src/errors.rs :: enum RuntimeError
    @derive
    @*/

    #[derive(Clone, Copy)]
    pub struct NodeId(pub [u8; 30]);
    /// radix-common: `pub struct ComponentAddress(NodeId)`
    #[derive(Clone, Copy)]
    pub struct ComponentAddress(pub NodeId);

    /*@item radix-engine/src/blueprints/consensus_manager/consensus_manager.rs :: struct ProposalStatistic
    @derive
    @*/
    /// `#[derive(Clone)]` on two u64 fields: the field-wise copy
    impl Clone for ProposalStatistic {
        fn clone(&self) -> (r: Self) ensures r == *self { ProposalStatistic { made: self.made, missed: self.missed } }
    }
}

pub mod unit {
    use vstd::prelude::*;
    use super::rt::*;
    use super::env::*;
    use super::decimal::*;
    use super::decimal::Decimal;
    broadcast use group_decimal;

    // ------------------------------------------------------------------------------------------
    // Oracle, from the property statement.  All amounts are integers = numbers of 10^-18 sub-units.
    // ------------------------------------------------------------------------------------------
    pub open spec fn e18() -> int { 1_000_000_000_000_000_000 }
    /// truncation toward zero of the rational a / b
    pub open spec fn trunc_q(a: int, b: int) -> int
        recommends b != 0
    {
        if (a >= 0) == (b > 0) { (if a >= 0 { a } else { -a }) / (if b > 0 { b } else { -b }) }
        else { -((if a >= 0 { a } else { -a }) / (if b > 0 { b } else { -b })) }
    }
    pub open spec fn fmul(a: int, b: int) -> int { trunc_q(a * b, e18()) }
    pub open spec fn fdiv(a: int, b: int) -> int { trunc_q(a * e18(), b) }
    /// what Decimal::checked_mul / checked_div can return: the 192-bit range WITHOUT its most negative value
    /// (known boundary finding C24: the wide->narrow conversion of the real code rejects -2^191)
    pub open spec fn fits_dec(i: int) -> bool { dec_min() < i <= dec_max() }
    pub open spec fn cm_error() -> RuntimeError {
        RuntimeError::ApplicationError(ApplicationError::ConsensusManagerError(ConsensusManagerError::UnexpectedDecimalComputationError))
    }

    /// "A ratio of successful to total proposals"; a validator that never had to propose counts as fully reliable
    pub open spec fn success_ratio(made: int, missed: int) -> int {
        if made + missed == 0 { e18() } else { (made * e18()) / (made + missed) }
    }
    /// reliability factor (d): the reliability rescaled from [min, 1] to [0, 1]; 0 below the minimum; the
    /// degenerate range min == 1 is a step function
    pub open spec fn reliability_factor(rel: int, min: int) -> int {
        if rel - min < 0 { 0 }
        else if e18() - min == 0 { if rel == e18() { e18() } else { 0 } }
        else { fdiv(rel - min, e18() - min) }
    }
    pub open spec fn reliability_factor_ok(rel: int, min: int) -> bool {
        &&& in_dec(rel - min)
        &&& (rel - min >= 0 ==> in_dec(e18() - min))
        &&& (rel - min >= 0 && e18() - min != 0 ==> fits_dec(fdiv(rel - min, e18() - min)))
    }

    /// effective stake: the stake scaled by the reliability factor of the validator's proposal statistic
    pub open spec fn effective_stake(stake: int, made: int, missed: int, min: int) -> int {
        fmul(stake, reliability_factor(success_ratio(made, missed), min))
    }
    /// scaling by a factor in [0, 1] (truncating) never increases a non-negative amount
    pub proof fn lemma_fmul_unit_factor(a: int, f: int)
        requires a >= 0, 0 <= f <= e18()
        ensures 0 <= fmul(a, f) <= a, fmul(a, f) == (a * f) / e18(), fmul(a, f) * e18() <= a * f
    {
        let n = a * f;
        assert(0 <= n <= a * e18()) by (nonlinear_arith) requires a >= 0, 0 <= f <= e18(), n == a * f;
        assert(0 <= n / e18() <= a && (n / e18()) * e18() <= n) by (nonlinear_arith) requires 0 <= n <= a * e18();
    }
    pub proof fn lemma_success_ratio_range(made: int, missed: int)
        requires made >= 0, missed >= 0
        ensures 0 <= success_ratio(made, missed) <= e18()
    {
        let t = made + missed;
        if t != 0 {
            let n = made * e18();
            assert(0 <= n <= t * e18()) by (nonlinear_arith) requires 0 <= made <= t, n == made * e18();
            assert(0 <= n / t <= e18()) by (nonlinear_arith) requires 0 <= n <= t * e18(), t > 0;
        }
    }

    pub proof fn lemma_trunc_q_is_tdiv(a: int, b: int)
        requires b != 0
        ensures trunc_q(a, b) == tdiv(a, b)
    {}

    /// (d) for every reliability in [0, 1] the factor is in [0, 1], whatever the configured minimum
    pub proof fn lemma_reliability_factor_range(rel: int, min: int)
        requires 0 <= rel <= e18()
        ensures 0 <= reliability_factor(rel, min) <= e18(),
                0 <= min <= e18() ==> reliability_factor_ok(rel, min),
    {
        let a = rel - min; let b = e18() - min;
        if a >= 0 && b != 0 {
            // rel <= 1 gives a <= b, and a >= 0 with b != 0 gives b > 0
            assert(a <= b);
            assert(b > 0);
            let n = a * e18();
            assert(n >= 0) by (nonlinear_arith) requires a >= 0, n == a * e18();
            assert(n <= b * e18()) by (nonlinear_arith) requires a <= b, n == a * e18();
            assert(0 <= n / b <= e18()) by (nonlinear_arith) requires 0 <= n <= b * e18(), b > 0;
        }
    }

    impl ProposalStatistic {
        // NOTE `self.made + self.missed` is a plain u64 addition (panics in debug builds, wraps in release builds);
        // the counters are bumped once per consensus round, so the sum is assumed to stay below 2^64.
        /*@fn radix-engine/src/blueprints/consensus_manager/consensus_manager.rs :: impl ProposalStatistic :: fn success_ratio
        @sig
            requires self.made as int + self.missed as int <= u64::MAX as int,
            ensures ret matches Ok(r) && r.v() == success_ratio(self.made as int, self.missed as int) && 0 <= r.v() <= e18(),
        @entry
            proof {
                let m = self.made as int; let t = self.made as int + self.missed as int;
                if t != 0 {
                    let n = m * e18();
                    assert(0 <= n <= t * e18()) by (nonlinear_arith) requires 0 <= m <= t, n == m * e18();
                    assert(0 <= n / t <= e18()) by (nonlinear_arith) requires 0 <= n <= t * e18(), t > 0;
                    assert(n <= 0xffff_ffff_ffff_ffff * e18()) by (nonlinear_arith) requires m <= 0xffff_ffff_ffff_ffff, n == m * e18();
                }
            }
        @*/
    }

    pub /*@item radix-engine/src/blueprints/consensus_manager/consensus_manager.rs :: struct ValidatorInfo
    @derive
    @*/
    impl ValidatorInfo {
        /*@fn radix-engine/src/blueprints/consensus_manager/consensus_manager.rs :: impl ValidatorInfo :: fn to_reliability_factor
        @sig
            ensures
                ret is Ok <==> reliability_factor_ok(reliability.v(), min_required_reliability.v()),
                ret matches Ok(f) ==> f.v() == reliability_factor(reliability.v(), min_required_reliability.v()),
                ret matches Err(e) ==> e == cm_error(),
        @*/

        /*@fn radix-engine/src/blueprints/consensus_manager/consensus_manager.rs :: impl ValidatorInfo :: fn create_if_applicable
        @sig
            requires proposal_statistic.made as int + proposal_statistic.missed as int <= u64::MAX as int,
            ensures
                // only validators with a positive stake take part
                stake_xrd.v() <= 0 ==> ret matches Ok(None),
                stake_xrd.v() > 0 ==> (ret is Ok <==> reliability_factor_ok(success_ratio(proposal_statistic.made as int, proposal_statistic.missed as int), min_required_reliability.v())),
                stake_xrd.v() > 0 ==> (ret matches Ok(o) ==> o matches Some(info) && ({
                    let eff = effective_stake(stake_xrd.v(), proposal_statistic.made as int, proposal_statistic.missed as int, min_required_reliability.v());
                    &&& info.address == address && info.stake_xrd == stake_xrd && info.proposal_statistic == proposal_statistic
                    &&& info.effective_stake_xrd.v() == eff
                    &&& 0 <= eff <= stake_xrd.v()
                })),
                ret matches Err(e) ==> e == cm_error(),
        @entry
            proof {
                let ratio = success_ratio(proposal_statistic.made as int, proposal_statistic.missed as int);
                lemma_success_ratio_range(proposal_statistic.made as int, proposal_statistic.missed as int);
                lemma_reliability_factor_range(ratio, min_required_reliability.v());
                if stake_xrd.v() > 0 {
                    lemma_fmul_unit_factor(stake_xrd.v(), reliability_factor(ratio, min_required_reliability.v()));
                }
            }
        @*/
    }
}
} // verus!
fn main() {}
