// Unit c42_emissions -- property C42 "Validator staking and emissions never create value" (emission / reward clauses)
// Real code: radix-engine/src/blueprints/consensus_manager/consensus_manager.rs
//              ProposalStatistic::success_ratio, ValidatorInfo::{to_reliability_factor, create_if_applicable}
use vstd::prelude::*;
verus! {
/*@include shims/rt.rs @*/
/*@include shims/decimal.rs @*/
/*@include shims/indexmap_c42.rs @*/
/*@include shims/ledger_sdk_c42.rs @*/

pub mod env {
    use vstd::prelude::*;
    use super::decimal::*;
    use super::decimal::Decimal;
    use super::omap42::*;
    use super::ledger::*;
    // ---- payload types of error variants that this unit never constructs (opaque) ----
    pub struct KernelError;
    pub struct SystemError;
    pub struct SystemModuleError;
    pub struct SystemUpstreamError;
    pub struct VmError;
    pub struct CostingError;
    pub struct AccessControllerError; pub struct AccountError; pub struct AuthZoneError; pub struct BucketError;
    pub struct ComponentRoyaltyError; pub struct DecodeError;
    pub struct FungibleResourceManagerError; pub struct MetadataError; pub struct MultiResourcePoolError;
    pub struct NonFungibleResourceManagerError; pub struct NonFungibleVaultError; pub struct OneResourcePoolError;
    pub struct PackageError; pub struct ProofError; pub struct RoleAssignmentError; pub struct TransactionProcessorError;
    pub struct TwoResourcePoolError; pub struct VaultError; pub struct WorktopError;
    /*@item radix-common/src/types/consensus.rs :: type ValidatorIndex
    @*/
    /*@item radix-common/src/types/consensus.rs :: struct Epoch
    @derive Clone, Copy
    @*/
    /*@item radix-common/src/types/consensus.rs :: struct Round
    @derive Clone, Copy
    @*/
    /*@item radix-engine/src/blueprints/consensus_manager/validator.rs :: enum ValidatorError
    @derive
    @*/
    /*@item radix-engine/src/blueprints/consensus_manager/consensus_manager.rs :: enum ConsensusManagerError
    @derive
    @*/
    /*@item radix-engine/src/errors.rs :: enum ApplicationError
    @derive
    @*/
    /*@item radix-engine/src/errors.rs :: enum RuntimeError
    @derive
    @*/

    pub struct Secp256k1PublicKey(pub [u8; 33]);
    /// opaque stand-in for alloc BTreeMap (only a field type of ValidatorSubstate here)
    #[verifier::external_body]
    #[verifier::reject_recursive_types(K)]
    #[verifier::reject_recursive_types(V)]
    pub struct BTreeMap<K, V> { _k: core::marker::PhantomData<(K, V)> }
    /*@item radix-common/src/types/node_and_substate.rs :: type SortedKey
    @*/
    /*@item radix-engine/src/blueprints/consensus_manager/validator.rs :: struct ValidatorFeeChangeRequest
    @derive
    @*/
    /*@item radix-engine/src/blueprints/consensus_manager/validator.rs :: struct ValidatorSubstate
    @derive
    @*/
    /*@item radix-engine-interface/src/blueprints/consensus_manager/invocations.rs :: struct EpochChangeCondition
    @derive
    @*/
    /*@item radix-engine-interface/src/blueprints/consensus_manager/invocations.rs :: struct ConsensusManagerConfig
    @derive
    @*/
    /*@item radix-engine/src/blueprints/consensus_manager/consensus_manager.rs :: struct Validator
    @derive
    @*/
    /*@item radix-engine/src/blueprints/consensus_manager/consensus_manager.rs :: struct ValidatorRewardsSubstate
    @derive
    @*/
    /*@item radix-engine/src/blueprints/consensus_manager/consensus_manager.rs :: struct ActiveValidatorSet
    @derive
    @*/
    pub const VALIDATOR_APPLY_EMISSION_IDENT: &'static str = /*@expr-after radix-engine-interface/src/blueprints/consensus_manager/invocations.rs :: const VALIDATOR_APPLY_EMISSION_IDENT :: <<&str =>> @*/;
    pub const VALIDATOR_APPLY_REWARD_IDENT: &'static str = /*@expr-after radix-engine-interface/src/blueprints/consensus_manager/invocations.rs :: const VALIDATOR_APPLY_REWARD_IDENT :: <<&str =>> @*/;
    /*@item radix-engine-interface/src/blueprints/consensus_manager/invocations.rs :: struct ValidatorApplyEmissionInput
    @derive
    @*/
    /*@item radix-engine-interface/src/blueprints/consensus_manager/invocations.rs :: struct ValidatorApplyRewardInput
    @derive
    @*/
    /// `#[derive(ScryptoSbor)]`: the encoded value carries exactly the fields
    impl ScryptoEncode for ValidatorApplyEmissionInput {
        open spec fn as_args(&self) -> CallArgs {
            CallArgs::ApplyEmission { bucket: self.xrd_bucket.0, epoch: self.epoch, made: self.proposals_made, missed: self.proposals_missed }
        }
    }
    impl ScryptoEncode for ValidatorApplyRewardInput {
        open spec fn as_args(&self) -> CallArgs { CallArgs::ApplyReward { bucket: self.xrd_bucket.0, epoch: self.epoch } }
    }

    /*@item radix-engine/src/blueprints/consensus_manager/consensus_manager.rs :: struct ProposalStatistic
    @derive
    @*/
    /// `#[derive(Clone)]` on two u64 fields: the field-wise copy
    impl Clone for ProposalStatistic {
        fn clone(&self) -> (r: Self) ensures r == *self { ProposalStatistic { made: self.made, missed: self.missed } }
    }
}

pub mod unit {
    use vstd::prelude::*;
    use super::rt::*;
    use super::env::*;
    use super::decimal::*;
    use super::decimal::Decimal;
    use super::omap42::*;
    use super::ledger::*;
    broadcast use group_decimal;

    // ------------------------------------------------------------------------------------------
    // Oracle, from the property statement.  All amounts are integers = numbers of 10^-18 sub-units.
    // ------------------------------------------------------------------------------------------
    pub open spec fn e18() -> int { 1_000_000_000_000_000_000 }
    /// truncation toward zero of the rational a / b
    pub open spec fn trunc_q(a: int, b: int) -> int
        recommends b != 0
    {
        if (a >= 0) == (b > 0) { (if a >= 0 { a } else { -a }) / (if b > 0 { b } else { -b }) }
        else { -((if a >= 0 { a } else { -a }) / (if b > 0 { b } else { -b })) }
    }
    pub open spec fn fmul(a: int, b: int) -> int { trunc_q(a * b, e18()) }
    pub open spec fn fdiv(a: int, b: int) -> int { trunc_q(a * e18(), b) }
    /// what Decimal::checked_mul / checked_div can return: the 192-bit range WITHOUT its most negative value
    /// (known boundary finding C24: the wide->narrow conversion of the real code rejects -2^191)
    pub open spec fn fits_dec(i: int) -> bool { dec_min() < i <= dec_max() }
    pub open spec fn cm_error() -> RuntimeError {
        RuntimeError::ApplicationError(ApplicationError::ConsensusManagerError(ConsensusManagerError::UnexpectedDecimalComputationError))
    }

    /// "A ratio of successful to total proposals"; a validator that never had to propose counts as fully reliable
    pub open spec fn success_ratio(made: int, missed: int) -> int {
        if made + missed == 0 { e18() } else { (made * e18()) / (made + missed) }
    }
    /// reliability factor (d): the reliability rescaled from [min, 1] to [0, 1]; 0 below the minimum; the
    /// degenerate range min == 1 is a step function
    pub open spec fn reliability_factor(rel: int, min: int) -> int {
        if rel - min < 0 { 0 }
        else if e18() - min == 0 { if rel == e18() { e18() } else { 0 } }
        else { fdiv(rel - min, e18() - min) }
    }
    pub open spec fn reliability_factor_ok(rel: int, min: int) -> bool {
        &&& in_dec(rel - min)
        &&& (rel - min >= 0 ==> in_dec(e18() - min))
        &&& (rel - min >= 0 && e18() - min != 0 ==> fits_dec(fdiv(rel - min, e18() - min)))
    }

    /// effective stake: the stake scaled by the reliability factor of the validator's proposal statistic
    pub open spec fn effective_stake(stake: int, made: int, missed: int, min: int) -> int {
        fmul(stake, reliability_factor(success_ratio(made, missed), min))
    }
    /// scaling by a factor in [0, 1] (truncating) never increases a non-negative amount
    pub proof fn lemma_fmul_unit_factor(a: int, f: int)
        requires a >= 0, 0 <= f <= e18()
        ensures 0 <= fmul(a, f) <= a, fmul(a, f) == (a * f) / e18(), fmul(a, f) * e18() <= a * f
    {
        let n = a * f;
        assert(0 <= n <= a * e18()) by (nonlinear_arith) requires a >= 0, 0 <= f <= e18(), n == a * f;
        assert(0 <= n / e18() <= a && (n / e18()) * e18() <= n) by (nonlinear_arith) requires 0 <= n <= a * e18();
    }
    pub proof fn lemma_success_ratio_range(made: int, missed: int)
        requires made >= 0, missed >= 0
        ensures 0 <= success_ratio(made, missed) <= e18()
    {
        let t = made + missed;
        if t != 0 {
            let n = made * e18();
            assert(0 <= n <= t * e18()) by (nonlinear_arith) requires 0 <= made <= t, n == made * e18();
            assert(0 <= n / t <= e18()) by (nonlinear_arith) requires 0 <= n <= t * e18(), t > 0;
        }
    }

    pub proof fn lemma_trunc_q_is_tdiv(a: int, b: int)
        requires b != 0
        ensures trunc_q(a, b) == tdiv(a, b)
    {}

    /// (d) for every reliability in [0, 1] the factor is in [0, 1], whatever the configured minimum
    pub proof fn lemma_reliability_factor_range(rel: int, min: int)
        requires 0 <= rel <= e18()
        ensures 0 <= reliability_factor(rel, min) <= e18(),
                0 <= min <= e18() ==> reliability_factor_ok(rel, min),
    {
        let a = rel - min; let b = e18() - min;
        if a >= 0 && b != 0 {
            // rel <= 1 gives a <= b, and a >= 0 with b != 0 gives b > 0
            assert(a <= b);
            assert(b > 0);
            let n = a * e18();
            assert(n >= 0) by (nonlinear_arith) requires a >= 0, n == a * e18();
            assert(n <= b * e18()) by (nonlinear_arith) requires a <= b, n == a * e18();
            assert(0 <= n / b <= e18()) by (nonlinear_arith) requires 0 <= n <= b * e18(), b > 0;
        }
    }


    // ------------------------------------------------------------------------------------------
    // Epoch-end accounting: oracle.  A ghost record per APPLICABLE validator (stake > 0), in set order.
    // ------------------------------------------------------------------------------------------
    pub ghost struct GInfo { pub idx: int, pub addr: ComponentAddress, pub stake: int, pub eff: int, pub made: u64, pub missed: u64 }
    pub type VSet = Seq<(ComponentAddress, Validator)>;
    /// the applicable validators among the first n of the concluded epoch's set, with their effective stake
    pub open spec fn ginfos(vs: VSet, stats: Seq<ProposalStatistic>, min: int, n: int) -> Seq<GInfo>
        decreases n
    {
        if n <= 0 { Seq::empty() } else {
            let prev = ginfos(vs, stats, min, n - 1);
            let i = n - 1;
            if vs[i].1.stake.v() > 0 {
                prev.push(GInfo { idx: i, addr: vs[i].0, stake: vs[i].1.stake.v(),
                    eff: effective_stake(vs[i].1.stake.v(), stats[i].made as int, stats[i].missed as int, min),
                    made: stats[i].made, missed: stats[i].missed })
            } else { prev }
        }
    }
    pub open spec fn g_wf(g: Seq<GInfo>) -> bool {
        &&& forall|j: int| 0 <= j < g.len() ==> (#[trigger] g[j]).stake > 0 && 0 <= g[j].eff <= g[j].stake && 0 <= g[j].idx < 256
        &&& forall|j: int, k: int| 0 <= j < k < g.len() ==> (#[trigger] g[j]).idx < (#[trigger] g[k]).idx
    }
    pub open spec fn sum_stake(g: Seq<GInfo>, n: int) -> int decreases n { if n <= 0 { 0 } else { sum_stake(g, n - 1) + g[n - 1].stake } }
    pub open spec fn sum_eff(g: Seq<GInfo>, n: int) -> int decreases n { if n <= 0 { 0 } else { sum_eff(g, n - 1) + g[n - 1].eff } }
    /// sum over the first n validators of  trunc(effective stake * rate)
    pub open spec fn sum_em(g: Seq<GInfo>, rate: int, n: int) -> int decreases n { if n <= 0 { 0 } else { sum_em(g, rate, n - 1) + fmul(g[n - 1].eff, rate) } }
    pub type PRew = Map<ValidatorIndex, Decimal>;
    /// the proposer reward recorded for validator index idx (0 when there is no entry)
    pub open spec fn prv(pr: PRew, idx: int) -> int { if pr.contains_key(idx as u8) { pr[idx as u8].v() } else { 0 } }
    pub open spec fn sum_pr(g: Seq<GInfo>, pr: PRew, n: int) -> int decreases n { if n <= 0 { 0 } else { sum_pr(g, pr, n - 1) + prv(pr, g[n - 1].idx) } }
    /// all recorded proposer rewards of the indices below n
    pub open spec fn pr_total(pr: PRew, n: int) -> int decreases n { if n <= 0 { 0 } else { pr_total(pr, n - 1) + prv(pr, n - 1) } }
    /// (a) "how much XRD is emitted by 1 XRD staked": the configured amount over the applicable stake, rounded down
    pub open spec fn emission_rate(total_emission: int, g: Seq<GInfo>) -> int { fdiv(total_emission, sum_stake(g, g.len() as int)) }
    /// (a) emission of one validator: its effective (reliability-scaled) stake times the rate, rounded down
    pub open spec fn emission_of(x: GInfo, rate: int) -> int { fmul(x.eff, rate) }
    /// (b) reward per unit of effective stake: what the vault holds beyond the proposers' shares, over the effective stake
    pub open spec fn reward_rate(vault: int, g: Seq<GInfo>, pr: PRew) -> int {
        let te = sum_eff(g, g.len() as int);
        if te == 0 { 0 } else { fdiv(vault - sum_pr(g, pr, g.len() as int), te) }
    }
    pub open spec fn reward_of(x: GInfo, pr: PRew, rate: int) -> int { prv(pr, x.idx) + fmul(x.eff, rate) }

    /// the two proposer-reward maps agree on every index from lo on
    pub open spec fn pr_agree(cur: PRew, pr0: PRew, lo: int) -> bool {
        forall|k: ValidatorIndex| #![trigger cur.contains_key(k)] #![trigger cur[k]] k as int >= lo ==> cur.contains_key(k) == pr0.contains_key(k) && cur[k] == pr0[k]
    }
    pub open spec fn rep1(kv: (ValidatorIndex, ValidatorInfo), x: GInfo) -> bool {
        &&& kv.0 as int == x.idx && kv.1.address == x.addr && kv.1.stake_xrd.v() == x.stake && kv.1.effective_stake_xrd.v() == x.eff
        &&& kv.1.proposal_statistic.made == x.made && kv.1.proposal_statistic.missed == x.missed
    }
    pub open spec fn rep(e: Seq<(ValidatorIndex, ValidatorInfo)>, g: Seq<GInfo>) -> bool {
        &&& e.len() == g.len()
        &&& forall|j: int| 0 <= j < g.len() ==> rep1(#[trigger] e[j], g[j])
    }
    /// the call the consensus manager makes to hand validator x its emission
    pub open spec fn em_call_ok(c: CallRec, x: GInfo, rate: int, epoch: Epoch) -> bool {
        &&& c.receiver == x.addr.0 && c.method == VALIDATOR_APPLY_EMISSION_IDENT@
        &&& c.args matches CallArgs::ApplyEmission { epoch: e, made, missed, .. } && e == epoch && made == x.made && missed == x.missed
        &&& c.resource == XRD && c.amount == emission_of(x, rate)
    }
    pub open spec fn rw_call_ok(c: CallRec, x: GInfo, amount: int, epoch: Epoch, res: ResourceAddress) -> bool {
        &&& c.receiver == x.addr.0 && c.method == VALIDATOR_APPLY_REWARD_IDENT@
        &&& c.args matches CallArgs::ApplyReward { epoch: e, .. } && e == epoch
        &&& c.resource == res && c.amount == amount
    }
    /// the reward calls for the first n applicable validators: one per validator with a non-zero reward, in order
    pub open spec fn rw_calls_ok(log: Seq<CallRec>, g: Seq<GInfo>, pr: PRew, rate: int, epoch: Epoch, res: ResourceAddress, n: int) -> bool
        decreases n
    {
        if n <= 0 { log.len() == 0 } else {
            let t = reward_of(g[n - 1], pr, rate);
            if t == 0 { rw_calls_ok(log, g, pr, rate, epoch, res, n - 1) }
            else { log.len() > 0 && rw_call_ok(log.last(), g[n - 1], t, epoch, res) && rw_calls_ok(log.drop_last(), g, pr, rate, epoch, res, n - 1) }
        }
    }
    /// invariant of the rewards substate, kept by the fee finalisation of every transaction (system_callback.rs adds
    /// to_proposer + to_validator_set to the vault and to_proposer to the leader's entry) and by this function
    pub open spec fn rewards_wf(pr: PRew, vault: int) -> bool {
        &&& forall|k: ValidatorIndex| pr.contains_key(k) ==> (#[trigger] pr[k]).v() >= 0
        &&& pr_total(pr, 256) <= vault
    }

    /// C42 (a)+(b): what a successful epoch-end accounting did
    pub open spec fn accounting_post(s0: ApiState, s2: ApiState, g: Seq<GInfo>, total_emission: int, pr0: PRew, rv: Own, epoch: Epoch) -> bool {
        let n = g.len() as int;
        let rate = emission_rate(total_emission, g);
        let minted = sum_em(g, rate, n);
        let vault = s0.world.vaults[rv].amount.v();
        let rrate = reward_rate(vault, g, pr0);
        let paid = sum_pr(g, pr0, n) + sum_em(g, rrate, n);
        let c0 = s0.calls.len() as int;
        &&& sum_stake(g, n) > 0
        // (a) XRD is minted once, exactly the sum of the per-validator emissions, never more than configured
        &&& s2.world.supply[XRD] == Some(Decimal::of(s0.world.supply[XRD]->Some_0.v() + minted))
        &&& 0 <= minted && (total_emission >= 0 ==> minted <= total_emission)
        // every minted XRD went to a validator: no bucket is left behind
        &&& s2.world.buckets =~= s0.world.buckets
        // (b) rewards come out of the vault only: it shrinks by exactly what was paid, and is never overdrawn
        &&& s2.world.vaults.contains_key(rv) && s0.world.vaults.contains_key(rv)
        &&& s2.world.vaults[rv] == Holding { resource: s0.world.vaults[rv].resource, amount: Decimal::of(vault - paid) }
        &&& 0 <= paid <= vault
        // who got what
        &&& s2.calls.len() >= c0 + n && s2.calls.subrange(0, c0) =~= s0.calls
        &&& forall|j: int| 0 <= j < n ==> em_call_ok(#[trigger] s2.calls[c0 + j], g[j], rate, epoch)
        &&& rw_calls_ok(s2.calls.subrange(c0 + n, s2.calls.len() as int), g, pr0, rrate, epoch, s0.world.vaults[rv].resource, n)
        &&& s2.vstate == s0.vstate && s2.handles == s0.handles && s2.actor_vaults == s0.actor_vaults
    }

    // ---------------------------------------------------------------- lemmas: sums
    pub proof fn lemma_fmul_floor(a: int, b: int)
        requires a >= 0, b >= 0
        ensures fmul(a, b) >= 0, fmul(a, b) * e18() <= a * b, fmul(a, b) == (a * b) / e18()
    {
        assert(a * b >= 0) by (nonlinear_arith) requires a >= 0, b >= 0;
        let n = a * b;
        assert(0 <= (n / e18()) * e18() <= n) by (nonlinear_arith) requires n >= 0;
        assert(n / e18() >= 0) by (nonlinear_arith) requires n >= 0;
    }
    pub proof fn lemma_fdiv_floor(a: int, b: int)
        requires a >= 0, b > 0
        ensures fdiv(a, b) >= 0, fdiv(a, b) * b <= a * e18(), fdiv(a, b) == (a * e18()) / b
    {
        assert(a * e18() >= 0) by (nonlinear_arith) requires a >= 0;
        let n = a * e18();
        assert(0 <= (n / b) * b <= n) by (nonlinear_arith) requires n >= 0, b > 0;
        assert(n / b >= 0) by (nonlinear_arith) requires n >= 0, b > 0;
    }
    pub proof fn lemma_ginfos_wf(vs: VSet, stats: Seq<ProposalStatistic>, min: int, n: int)
        requires 0 <= n <= vs.len(), n <= stats.len(), n <= 256
        ensures g_wf(ginfos(vs, stats, min, n)), ginfos(vs, stats, min, n).len() <= n,
                forall|j: int| 0 <= j < ginfos(vs, stats, min, n).len() ==> (#[trigger] ginfos(vs, stats, min, n)[j]).idx < n,
        decreases n
    {
        if n > 0 {
            lemma_ginfos_wf(vs, stats, min, n - 1);
            let i = n - 1;
            if vs[i].1.stake.v() > 0 {
                lemma_success_ratio_range(stats[i].made as int, stats[i].missed as int);
                lemma_reliability_factor_range(success_ratio(stats[i].made as int, stats[i].missed as int), min);
                lemma_fmul_unit_factor(vs[i].1.stake.v(), reliability_factor(success_ratio(stats[i].made as int, stats[i].missed as int), min));
            }
        }
    }
    pub proof fn lemma_sum_stake_prefix(a: Seq<GInfo>, b: Seq<GInfo>, n: int)
        requires 0 <= n <= a.len(), n <= b.len(), forall|k: int| 0 <= k < n ==> a[k] == b[k]
        ensures sum_stake(a, n) == sum_stake(b, n)
        decreases n
    {
        if n > 0 { lemma_sum_stake_prefix(a, b, n - 1); }
    }
    pub proof fn lemma_sums_bounds(g: Seq<GInfo>, n: int)
        requires g_wf(g), 0 <= n <= g.len()
        ensures 0 <= sum_eff(g, n) <= sum_stake(g, n), n > 0 ==> sum_stake(g, n) > 0
        decreases n
    {
        if n > 0 { lemma_sums_bounds(g, n - 1); }
    }
    /// the truncated shares never add up to more than rate * (sum of effective stakes)
    pub proof fn lemma_sum_em(g: Seq<GInfo>, rate: int, n: int)
        requires g_wf(g), 0 <= n <= g.len(), rate >= 0
        ensures 0 <= sum_em(g, rate, n), sum_em(g, rate, n) * e18() <= rate * sum_eff(g, n),
                n > 0 ==> sum_em(g, rate, n - 1) <= sum_em(g, rate, n),
        decreases n
    {
        if n > 0 {
            lemma_sum_em(g, rate, n - 1);
            let x = g[n - 1];
            lemma_fmul_floor(x.eff, rate);
            let a = sum_em(g, rate, n - 1); let b = fmul(x.eff, rate); let se = sum_eff(g, n - 1);
            assert((a + b) * e18() <= rate * (se + x.eff)) by (nonlinear_arith)
                requires a * e18() <= rate * se, b * e18() <= x.eff * rate;
        }
    }
    pub proof fn lemma_mono(g: Seq<GInfo>, pr: PRew, rate: int, a: int, b: int)
        requires g_wf(g), 0 <= a <= b <= g.len(), rate >= 0, forall|k: ValidatorIndex| pr.contains_key(k) ==> (#[trigger] pr[k]).v() >= 0
        ensures sum_em(g, rate, a) <= sum_em(g, rate, b), sum_pr(g, pr, a) <= sum_pr(g, pr, b), 0 <= sum_pr(g, pr, a)
        decreases b
    {
        if a < b {
            lemma_mono(g, pr, rate, a, b - 1);
            lemma_sum_em(g, rate, b);
        } else {
            lemma_sum_pr_nonneg(g, pr, a);
        }
    }
    pub proof fn lemma_sum_pr_nonneg(g: Seq<GInfo>, pr: PRew, n: int)
        requires 0 <= n <= g.len(), forall|k: ValidatorIndex| pr.contains_key(k) ==> (#[trigger] pr[k]).v() >= 0
        ensures 0 <= sum_pr(g, pr, n)
        decreases n
    {
        if n > 0 { lemma_sum_pr_nonneg(g, pr, n - 1); }
    }
    pub proof fn lemma_pr_total_mono(pr: PRew, a: int, b: int)
        requires 0 <= a <= b, forall|k: ValidatorIndex| pr.contains_key(k) ==> (#[trigger] pr[k]).v() >= 0
        ensures 0 <= pr_total(pr, a) <= pr_total(pr, b)
        decreases b
    {
        if a < b { lemma_pr_total_mono(pr, a, b - 1); }
        else if a > 0 { lemma_pr_total_mono(pr, a - 1, a - 1); }
    }
    /// the proposer rewards of the applicable validators are part of all recorded proposer rewards
    pub proof fn lemma_sum_pr_le_total(g: Seq<GInfo>, pr: PRew, n: int)
        requires g_wf(g), 0 <= n <= g.len(), forall|k: ValidatorIndex| pr.contains_key(k) ==> (#[trigger] pr[k]).v() >= 0
        ensures sum_pr(g, pr, n) <= pr_total(pr, if n == 0 { 0 } else { g[n - 1].idx + 1 })
        decreases n
    {
        if n > 0 {
            lemma_sum_pr_le_total(g, pr, n - 1);
            let lo = if n - 1 == 0 { 0 } else { g[n - 2].idx + 1 };
            assert(lo <= g[n - 1].idx);
            lemma_pr_total_mono(pr, lo, g[n - 1].idx);
        }
    }
    /// (a) the emissions add up to no more than the configured amount (rounding is downwards, twice)
    pub proof fn lemma_emissions_bounded(g: Seq<GInfo>, total: int)
        requires g_wf(g), g.len() > 0, total >= 0
        ensures ({
            let n = g.len() as int; let rate = emission_rate(total, g);
            &&& rate >= 0 && 0 <= sum_em(g, rate, n) <= total
        })
    {
        let n = g.len() as int; let t = sum_stake(g, n); let rate = fdiv(total, t);
        lemma_sums_bounds(g, n);
        lemma_fdiv_floor(total, t);
        lemma_sum_em(g, rate, n);
        let m = sum_em(g, rate, n); let se = sum_eff(g, n);
        assert(rate * se <= rate * t) by (nonlinear_arith) requires rate >= 0, se <= t;
        assert(m <= total) by (nonlinear_arith) requires m * e18() <= rate * se, rate * se <= rate * t, rate * t <= total * e18();
    }
    /// (a) one validator never gets more than its pro-rata share  total * stake / total_stake
    pub proof fn lemma_emission_pro_rata(g: Seq<GInfo>, total: int, j: int)
        requires g_wf(g), 0 <= j < g.len(), total >= 0
        ensures 0 <= emission_of(g[j], emission_rate(total, g)),
                emission_of(g[j], emission_rate(total, g)) * sum_stake(g, g.len() as int) <= total * g[j].stake,
    {
        let n = g.len() as int; let t = sum_stake(g, n); let rate = fdiv(total, t); let x = g[j];
        lemma_sums_bounds(g, n);
        lemma_fdiv_floor(total, t);
        lemma_fmul_floor(x.eff, rate);
        let e = fmul(x.eff, rate);
        assert(e * e18() <= x.stake * rate) by (nonlinear_arith) requires e * e18() <= x.eff * rate, x.eff <= x.stake, rate >= 0;
        assert((e * t) * e18() <= (total * x.stake) * e18()) by (nonlinear_arith)
            requires e * e18() <= x.stake * rate, rate * t <= total * e18(), t > 0, x.stake > 0, e >= 0;
        assert(e * t <= total * x.stake) by (nonlinear_arith) requires (e * t) * e18() <= (total * x.stake) * e18();
    }
    /// (b) proposer shares plus stake-proportional shares never exceed the vault
    pub proof fn lemma_rewards_bounded(g: Seq<GInfo>, pr: PRew, vault: int)
        requires g_wf(g), rewards_wf(pr, vault)
        ensures ({
            let n = g.len() as int; let rate = reward_rate(vault, g, pr);
            &&& rate >= 0 && 0 <= sum_pr(g, pr, n) <= vault
            &&& 0 <= sum_em(g, rate, n) && sum_pr(g, pr, n) + sum_em(g, rate, n) <= vault
        })
    {
        let n = g.len() as int; let p = sum_pr(g, pr, n); let te = sum_eff(g, n);
        lemma_sum_pr_nonneg(g, pr, n);
        lemma_sum_pr_le_total(g, pr, n);
        let hi = if n == 0 { 0 } else { g[n - 1].idx + 1 };
        lemma_pr_total_mono(pr, hi, 256);
        lemma_sums_bounds(g, n);
        let rate = reward_rate(vault, g, pr);
        if te != 0 {
            lemma_fdiv_floor(vault - p, te);
            lemma_sum_em(g, rate, n);
            let m = sum_em(g, rate, n);
            assert(m <= vault - p) by (nonlinear_arith) requires m * e18() <= rate * te, rate * te <= (vault - p) * e18();
        } else {
            lemma_sum_em(g, 0, n);
            assert(0 * te == 0);
        }
    }

    impl ProposalStatistic {
        // NOTE `self.made + self.missed` is a plain u64 addition (panics in debug builds, wraps in release builds);
        // the counters are bumped once per consensus round, so the sum is assumed to stay below 2^64.
        /*@fn radix-engine/src/blueprints/consensus_manager/consensus_manager.rs :: impl ProposalStatistic :: fn success_ratio
        @sig
            requires self.made as int + self.missed as int <= u64::MAX as int,
            ensures ret matches Ok(r) && r.v() == success_ratio(self.made as int, self.missed as int) && 0 <= r.v() <= e18(),
        @entry
            proof {
                let m = self.made as int; let t = self.made as int + self.missed as int;
                if t != 0 {
                    let n = m * e18();
                    assert(0 <= n <= t * e18()) by (nonlinear_arith) requires 0 <= m <= t, n == m * e18();
                    assert(0 <= n / t <= e18()) by (nonlinear_arith) requires 0 <= n <= t * e18(), t > 0;
                    assert(n <= 0xffff_ffff_ffff_ffff * e18()) by (nonlinear_arith) requires m <= 0xffff_ffff_ffff_ffff, n == m * e18();
                }
            }
        @*/
    }

    pub /*@item radix-engine/src/blueprints/consensus_manager/consensus_manager.rs :: struct ValidatorInfo
    @derive
    @*/
    impl ValidatorInfo {
        /*@fn radix-engine/src/blueprints/consensus_manager/consensus_manager.rs :: impl ValidatorInfo :: fn to_reliability_factor
        @sig
            ensures
                ret is Ok <==> reliability_factor_ok(reliability.v(), min_required_reliability.v()),
                ret matches Ok(f) ==> f.v() == reliability_factor(reliability.v(), min_required_reliability.v()),
                ret matches Err(e) ==> e == cm_error(),
        @*/

        /*@fn radix-engine/src/blueprints/consensus_manager/consensus_manager.rs :: impl ValidatorInfo :: fn create_if_applicable
        @sig
            requires proposal_statistic.made as int + proposal_statistic.missed as int <= u64::MAX as int,
            ensures
                // only validators with a positive stake take part
                stake_xrd.v() <= 0 ==> ret matches Ok(None),
                stake_xrd.v() > 0 ==> (ret is Ok <==> reliability_factor_ok(success_ratio(proposal_statistic.made as int, proposal_statistic.missed as int), min_required_reliability.v())),
                stake_xrd.v() > 0 ==> (ret matches Ok(o) ==> o matches Some(info) && ({
                    let eff = effective_stake(stake_xrd.v(), proposal_statistic.made as int, proposal_statistic.missed as int, min_required_reliability.v());
                    &&& info.address == address && info.stake_xrd == stake_xrd && info.proposal_statistic == proposal_statistic
                    &&& info.effective_stake_xrd.v() == eff
                    &&& 0 <= eff <= stake_xrd.v()
                })),
                ret matches Err(e) ==> e == cm_error(),
        @entry
            proof {
                let ratio = success_ratio(proposal_statistic.made as int, proposal_statistic.missed as int);
                lemma_success_ratio_range(proposal_statistic.made as int, proposal_statistic.missed as int);
                lemma_reliability_factor_range(ratio, min_required_reliability.v());
                if stake_xrd.v() > 0 {
                    lemma_fmul_unit_factor(stake_xrd.v(), reliability_factor(ratio, min_required_reliability.v()));
                }
            }
        @*/
    }

    pub struct ConsensusManagerBlueprint;
    impl ConsensusManagerBlueprint {
        /*@fn radix-engine/src/blueprints/consensus_manager/consensus_manager.rs :: impl ConsensusManagerBlueprint :: fn apply_validator_emissions_and_rewards
        @sig
            requires
                // "We made sure no more than u8::MAX validators are stored" (ValidatorIndex = u8)
                validator_set.validators_by_stake_desc.entries().len() <= 256,
                // CurrentProposalStatisticSubstate: one statistic per validator of the set, in the same order
                validator_statistics@.len() >= validator_set.validators_by_stake_desc.entries().len(),
                forall|i: int| 0 <= i < validator_statistics@.len() ==> (#[trigger] validator_statistics@[i]).made as int + validator_statistics@[i].missed as int <= u64::MAX as int,
                // XRD tracks its total supply; the rewards vault belongs to the consensus manager component
                old(api).st().world.supply[XRD] is Some,
                old(api).st().actor_vaults.contains(old(validator_rewards).rewards_vault.0),
                old(api).st().world.vaults.contains_key(old(validator_rewards).rewards_vault.0) ==>
                    rewards_wf(old(validator_rewards).proposer_rewards.map(), old(api).st().world.vaults[old(validator_rewards).rewards_vault.0].amount.v()),
            ensures
                ret is Ok ==> ({
                    let g = ginfos(validator_set.validators_by_stake_desc.entries(), validator_statistics@, config.min_validator_reliability.v(),
                                   validator_set.validators_by_stake_desc.entries().len() as int);
                    &&& g_wf(g)
                    &&& g.len() == 0 ==> final(api).st() == old(api).st() && *final(validator_rewards) == *old(validator_rewards)
                    &&& g.len() > 0 ==> {
                        &&& accounting_post(old(api).st(), final(api).st(), g, config.total_emission_xrd_per_epoch.v(),
                                old(validator_rewards).proposer_rewards.map(), old(validator_rewards).rewards_vault.0, epoch)
                        &&& final(validator_rewards).proposer_rewards.map() == Map::<ValidatorIndex, Decimal>::empty()
                        &&& final(validator_rewards).rewards_vault == old(validator_rewards).rewards_vault
                    }
                }),
        @entry
            let ghost vs = validator_set.validators_by_stake_desc.entries();
            let ghost stats = validator_statistics@;
            let ghost min = config.min_validator_reliability.v();
            let ghost total = config.total_emission_xrd_per_epoch.v();
            let ghost s0 = api.st();
            let ghost pr0 = validator_rewards.proposer_rewards.map();
            let ghost rv = validator_rewards.rewards_vault.0;
            let ghost c0 = s0.calls.len() as int;
        @loop 1 iter it1
            invariant
                vs.len() <= 256, stats.len() >= vs.len(), stats == validator_statistics@, min == config.min_validator_reliability.v(),
                forall|i: int| 0 <= i < stats.len() ==> (#[trigger] stats[i]).made as int + stats[i].missed as int <= u64::MAX as int,
                it1.seq().len() == vs.len(),
                forall|i: int| 0 <= i < vs.len() ==> (#[trigger] it1.seq()[i]).0 == i && it1.seq()[i].1 == vs[i],
                rep(validator_infos.entries(), ginfos(vs, stats, min, it1.index@ as int)),
                stake_sum_xrd.v() == sum_stake(ginfos(vs, stats, min, it1.index@ as int), ginfos(vs, stats, min, it1.index@ as int).len() as int),
                api.st() == s0, *validator_rewards == *old(validator_rewards),
        @before <<if let Some(info) = ValidatorInfo::create_if_applicable(>> #1
            let ghost i1 = it1.index@ as int;
            let ghost g1 = ginfos(vs, stats, min, i1);
            proof {
                assert(it1.seq()[i1].0 == i1 && it1.seq()[i1].1 == vs[i1]);
                assert(index == i1 && address == vs[i1].0 && validator == vs[i1].1);
                lemma_ginfos_wf(vs, stats, min, i1);
                assert(ginfos(vs, stats, min, i1 + 1) == if vs[i1].1.stake.v() > 0 {
                        g1.push(GInfo { idx: i1, addr: vs[i1].0, stake: vs[i1].1.stake.v(),
                            eff: effective_stake(vs[i1].1.stake.v(), stats[i1].made as int, stats[i1].missed as int, min),
                            made: stats[i1].made, missed: stats[i1].missed }) } else { g1 });
            }
        @before <<validator_infos.insert(>> #1
            proof {
                let e1 = validator_infos.entries();
                assert(!has_key(e1, index as u8)) by {
                    if has_key(e1, index as u8) {
                        let k = key_index(e1, index as u8);
                        assert(rep1(e1[k], g1[k]));
                        assert(g1[k].idx < i1);
                    }
                }
                let g2 = ginfos(vs, stats, min, i1 + 1);
                lemma_sum_stake_prefix(g1, g2, g1.len() as int);
            }
        @before <<if validator_infos.is_empty()>> #1
            let ghost n = vs.len() as int;
            let ghost g = ginfos(vs, stats, min, n);
            proof { lemma_ginfos_wf(vs, stats, min, n); }
        @before <<let emission_per_staked_xrd>> #1
            proof { lemma_sums_bounds(g, g.len() as int); }
        @before <<let effective_total_emission_xrd>> #1
            let ghost rate = emission_per_staked_xrd.v();
            let ghost gl = g.len() as int;
            proof { assert(rate == emission_rate(total, g)); }
        @loop 2 iter it2
            invariant
                g_wf(g), gl == g.len(), rep(validator_infos.entries(), g), rate == emission_per_staked_xrd.v(),
                it2.seq().len() == gl,
                forall|i: int| 0 <= i < gl ==> *(#[trigger] it2.seq()[i]) == validator_infos.entries()[i].1,
                sum.v() == sum_em(g, rate, it2.index@ as int),
                api.st() == s0, *validator_rewards == *old(validator_rewards),
        @before <<let emission = v>> #1
            proof { let j = it2.index@ as int; assert(*it2.seq()[j] == validator_infos.entries()[j].1); assert(rep1(validator_infos.entries()[j], g[j])); }
        @before <<let total_emission_xrd_bucket>> #1
            let ghost minted = effective_total_emission_xrd.v();
        @before <<for validator_info in validator_infos.values()>> #1
            let ghost tb = total_emission_xrd_bucket.0.0;
            let ghost s1 = api.st();
            let ghost sup0 = s0.world.supply[XRD]->Some_0.v();
            proof {
                assert(Decimal::of(minted).v() == minted);
                assert(Decimal::of(minted) == effective_total_emission_xrd);
                assert(sum_em(g, rate, 0) == 0);
            }
        @loop 3 iter it3
            invariant
                g_wf(g), gl == g.len(), rep(validator_infos.entries(), g), rate == emission_per_staked_xrd.v(), minted == sum_em(g, rate, gl),
                it3.seq().len() == gl,
                forall|i: int| 0 <= i < gl ==> *(#[trigger] it3.seq()[i]) == validator_infos.entries()[i].1,
                tb == total_emission_xrd_bucket.0.0, !s0.world.buckets.contains_key(tb), c0 == s0.calls.len(),
                api.st().world.buckets =~= s0.world.buckets.insert(tb, Holding { resource: XRD, amount: Decimal::of(minted - sum_em(g, rate, it3.index@ as int)) }),
                in_dec(minted - sum_em(g, rate, it3.index@ as int)),
                api.st().world.supply[XRD] == Some(Decimal::of(sup0 + minted)),
                s0.actor_vaults.contains(rv),
                api.st().world.vaults.contains_key(rv) == s0.world.vaults.contains_key(rv), api.st().world.vaults[rv] == s0.world.vaults[rv],
                api.st().vstate == s0.vstate, api.st().handles == s0.handles, api.st().actor_vaults == s0.actor_vaults,
                api.st().calls.len() == c0 + it3.index@, api.st().calls.subrange(0, c0) =~= s0.calls,
                forall|j: int| 0 <= j < it3.index@ ==> em_call_ok(#[trigger] api.st().calls[c0 + j], g[j], rate, epoch),
                *validator_rewards == *old(validator_rewards),
        @before <<let emission_xrd_bucket>> #1
            let ghost j3 = it3.index@ as int;
            let ghost sa = api.st();
            proof { assert(*it3.seq()[j3] == validator_infos.entries()[j3].1); assert(rep1(validator_infos.entries()[j3], g[j3])); }
        @after <<let emission_xrd_bucket>> #1
            let ghost sc = api.st();
            let ghost eb = emission_xrd_bucket.0.0;
            proof {
                assert(sc.world.vaults == sa.world.vaults);
                assert(sc.actor_vaults.contains(rv));
                assert(sc.world.buckets.contains_key(eb));
            }
        @after <<VALIDATOR_APPLY_EMISSION_IDENT>> #1
            proof {
                assert(api.st().world.vaults[rv] == sc.world.vaults[rv]);
                let e = emission_of(g[j3], rate);
                let rest = minted - sum_em(g, rate, j3);
                assert(sa.world.buckets[tb].amount.v() == rest);
                assert(eb != tb);
                assert(0 <= e <= rest);
                assert(api.st().world.buckets =~= s0.world.buckets.insert(tb, Holding { resource: XRD, amount: Decimal::of(rest - e) }));
                assert(api.st().calls.subrange(0, c0) =~= sa.calls.subrange(0, c0));
            }
        @after <<total_emission_xrd_bucket.drop_empty(api)>> #1
            let ghost s3 = api.st();
            proof {
                assert(s3.world.buckets =~= s0.world.buckets);
                assert(minted == sum_em(g, rate, gl));
            }
        @loop 4 iter it4
            invariant
                g_wf(g), gl == g.len(), rep(validator_infos.entries(), g),
                it4.seq().len() == gl,
                forall|i: int| 0 <= i < gl ==> *(#[trigger] it4.seq()[i]).0 == validator_infos.entries()[i].0 && *it4.seq()[i].1 == validator_infos.entries()[i].1,
                total_effective_stake.v() == sum_eff(g, it4.index@ as int),
                total_claimable_proposer_rewards.v() == sum_pr(g, pr0, it4.index@ as int),
                api.st() == s3, *validator_rewards == *old(validator_rewards), pr0 == old(validator_rewards).proposer_rewards.map(),
        @before <<total_effective_stake = total_effective_stake>> #1
            proof { let j = it4.index@ as int; assert(*it4.seq()[j].0 == validator_infos.entries()[j].0 && *it4.seq()[j].1 == validator_infos.entries()[j].1); assert(rep1(validator_infos.entries()[j], g[j])); }
        @before <<let reward_per_effective_stake>> #1
            let ghost vault = s0.world.vaults[rv].amount.v();
            proof {
                assert(s0.world.vaults.contains_key(rv));
                lemma_rewards_bounded(g, pr0, vault);
            }
        @before <<for (index, validator_info) in validator_infos>> #1
            let ghost rrate = reward_per_effective_stake.v();
            let ghost e5 = validator_infos.entries();
            let ghost res = s0.world.vaults[rv].resource;
            proof {
                assert(s3.world.vaults[rv] == s0.world.vaults[rv]);
                assert(Decimal::of(vault).v() == vault);
                assert(Decimal::of(vault) == s0.world.vaults[rv].amount);
                assert(sum_pr(g, pr0, 0) + sum_em(g, rrate, 0) == 0);
                assert(rrate == reward_rate(vault, g, pr0));
                assert(s3.calls.subrange(c0 + gl, s3.calls.len() as int) =~= Seq::<CallRec>::empty());
            }
        @subst <<continue; }>> => <<} else { proof { assert(0 <= total_rewards.v() <= api.st().world.vaults[rv].amount.v()); }>> why: (the woven assert is the obligation (b): the reward vault is never overdrawn -- what is due never exceeds what the vault still holds) Verus rejects `continue` inside a for-loop ("for-loops do not yet support continue"); `if c { continue; } REST` at the top level of the loop body is rewritten to `if c { } else { REST }` (this subst opens the else-block, the next one closes it at the end of the loop body); control flow is unchanged
        @subst <<} validator_rewards.proposer_rewards.clear();>> => <<} } validator_rewards.proposer_rewards.clear();>> why: closing brace of the else-block opened by the previous subst (end of the body of the reward loop)
        @loop 5 iter it5
            invariant
                g_wf(g), gl == g.len(), rep(e5, g), it5.seq() == e5, rrate == reward_per_effective_stake.v(), rrate >= 0,
                rewards_wf(pr0, vault), sum_pr(g, pr0, gl) + sum_em(g, rrate, gl) <= vault,
                vault == s0.world.vaults[rv].amount.v(), res == s0.world.vaults[rv].resource, in_dec(vault),
                rv == validator_rewards.rewards_vault.0, validator_rewards.rewards_vault == old(validator_rewards).rewards_vault,
                pr_agree(validator_rewards.proposer_rewards.map(), pr0, if it5.index@ == 0 { 0 } else { g[it5.index@ - 1].idx + 1 }),
                s0.world.supply[XRD] is Some, sup0 == s0.world.supply[XRD]->Some_0.v(), c0 == s0.calls.len(),
                api.st().world.buckets =~= s0.world.buckets,
                api.st().world.supply[XRD] == Some(Decimal::of(sup0 + minted)),
                s0.actor_vaults.contains(rv), s0.world.vaults.contains_key(rv), api.st().world.vaults.contains_key(rv),
                api.st().world.vaults[rv] == (Holding { resource: res, amount: Decimal::of(vault - (sum_pr(g, pr0, it5.index@ as int) + sum_em(g, rrate, it5.index@ as int))) }),
                0 <= sum_pr(g, pr0, it5.index@ as int) + sum_em(g, rrate, it5.index@ as int) <= vault,
                api.st().vstate == s0.vstate, api.st().handles == s0.handles, api.st().actor_vaults == s0.actor_vaults,
                api.st().calls.len() >= c0 + gl, api.st().calls.subrange(0, c0) =~= s0.calls,
                forall|j: int| 0 <= j < gl ==> em_call_ok(#[trigger] api.st().calls[c0 + j], g[j], rate, epoch),
                rw_calls_ok(api.st().calls.subrange(c0 + gl, api.st().calls.len() as int), g, pr0, rrate, epoch, res, it5.index@ as int),
        @before <<let as_proposer>> #1
            let ghost j5 = it5.index@ as int;
            let ghost sb = api.st();
            proof {
                assert(rep1(e5[j5], g[j5]));
                assert(index as int == g[j5].idx);
                if j5 > 0 { assert(g[j5 - 1].idx < g[j5].idx); }
                assert(0 <= g[j5].idx < 256);
                assert(g[j5].idx as u8 == index);
                assert(validator_rewards.proposer_rewards.map().contains_key(index) == pr0.contains_key(index));
                assert(validator_rewards.proposer_rewards.map()[index] == pr0[index]);
            }
        @before <<if total_rewards.is_zero()>> #1
            proof {
                assert(as_proposer.v() == prv(pr0, g[j5].idx));
                assert(total_rewards.v() == reward_of(g[j5], pr0, rrate));
                lemma_mono(g, pr0, rrate, j5 + 1, gl);
                lemma_mono(g, pr0, rrate, 0, j5 + 1);
                lemma_fmul_floor(g[j5].eff, rrate);
            }
        @after <<VALIDATOR_APPLY_REWARD_IDENT>> #1
            proof {
                let t = total_rewards.v();
                let paid = sum_pr(g, pr0, j5) + sum_em(g, rrate, j5);
                assert(api.st().world.buckets =~= s0.world.buckets);
                assert(api.st().world.vaults[rv] == Holding { resource: res, amount: Decimal::of(vault - paid - t) });
                assert(api.st().calls.subrange(0, c0) =~= sb.calls.subrange(0, c0));
                let l0 = sb.calls.subrange(c0 + gl, sb.calls.len() as int);
                let l1 = api.st().calls.subrange(c0 + gl, api.st().calls.len() as int);
                assert(l1.drop_last() =~= l0);
                assert(rw_call_ok(l1.last(), g[j5], t, epoch, res));
            }
        @before <<Ok(())>> #2
            proof {
                let s2 = api.st();
                let paid = sum_pr(g, pr0, gl) + sum_em(g, rrate, gl);
                if total >= 0 { lemma_emissions_bounded(g, total); }
                assert(sum_stake(g, gl) > 0);
                assert(rate == emission_rate(total, g));
                assert(minted == sum_em(g, rate, gl));
                assert(s2.world.supply[XRD] == Some(Decimal::of(sup0 + minted)));
                assert(0 <= minted);
                assert(s2.world.buckets =~= s0.world.buckets);
                assert(s2.world.vaults[rv] == Holding { resource: res, amount: Decimal::of(vault - paid) });
                assert(0 <= paid <= vault);
                assert(s2.calls.len() >= c0 + gl && s2.calls.subrange(0, c0) =~= s0.calls);
                assert(rw_calls_ok(s2.calls.subrange(c0 + gl, s2.calls.len() as int), g, pr0, rrate, epoch, res, gl));
                assert(accounting_post(s0, s2, g, total, pr0, rv, epoch));
            }
        @*/
    }
}
} // verus!
fn main() {}
