// Unit c02_result_type -- property C02 "Failed, rejected and aborted transactions change nothing but fees"
// Gap-filling unit: (1) classification of the outcome (commit / reject / abort), (2) what the track keeps when a
// transaction fails, (3) which events survive a failure.
// Real code: radix-engine/src/system/system_callback.rs :: System::determine_result_type
//            the abortion() chain it consults: <RuntimeError / SystemModuleError / CostingError / FeeReserveError as CanBeAbortion>::abortion
//            radix-engine/src/track/track.rs :: MappedTrack::revert_non_force_write_changes                      (mod unit::track)
//            radix-engine/src/track/state_updates.rs :: {TrackedNode, TrackedPartition, TrackedSubstateValue}::revert_writes
//            radix-engine/src/system/system_modules/transaction_runtime/module.rs :: add_event, drop guard of finalize  (mod unit::events)
// The fee reserve is ENVIRONMENT here (its contracts are the ones proved on the real SystemLoanFeeReserve by unit c06_fee_reserve).
use vstd::prelude::*;
verus! {
/*@include shims/rt.rs @*/
/*@include shims/maps.rs @*/
/*@include shims/track_maps_c02.rs @*/

pub mod env {
    use vstd::prelude::*;
    use super::unit::{FeeReserveError, AbortReason};
    // ---- opaque payloads (never inspected by the code under contract) --------------------------------
    pub struct Decimal;
    pub struct Epoch;
    pub struct Instant;
    pub struct IntentHash;
    pub struct InstructionOutput;
    pub struct KernelError;
    pub struct SystemError;
    pub struct SystemUpstreamError;
    pub struct VmError;
    pub struct ApplicationError;
    pub struct AuthError;
    pub struct TransactionLimitsError;
    pub struct EventError;
    pub mod error_models { pub struct ReferencedNodeId; }

    // ---- track environment ----------------------------------------------------------------------------
    /// radix-engine-interface IndexedScryptoValue: opaque. ASSUMED: `clone` is the identity on the abstract value.
    #[verifier::external_body]
    pub struct IndexedScryptoValue { b: Vec<u8> }
    impl Clone for IndexedScryptoValue {
        #[verifier::external_body]
        fn clone(&self) -> (r: Self) ensures r == *self { unimplemented!() }
    }
    /// radix-common SubstateKey / substate-store DbSortKey / PartitionNumber: opaque keys, only moved and looked up
    #[verifier::external_body]
    pub struct SubstateKey { x: Vec<u8> }
    #[verifier::external_body]
    pub struct DbSortKey { x: Vec<u8> }
    #[derive(Clone, Copy)]
    pub struct PartitionNumber(pub u8);
    #[verifier::external_body]
    #[verifier::reject_recursive_types(T)]
    pub struct IndexSet<T> { t: core::marker::PhantomData<T> }
    pub struct TransientSubstates;
    pub trait SubstateDatabase {}
    pub trait DatabaseKeyMapper {}

    // ---- events environment ---------------------------------------------------------------------------
    #[derive(Clone, Copy)]
    pub struct NodeId(pub [u8; 30]);
    /// radix-engine-interface ModuleId (field-less enum: Main, Metadata, Royalty, RoleAssignment); only copied here
    #[derive(Clone, Copy)]
    pub struct ModuleId(pub u8);
    pub struct BlueprintId;
    pub struct NetworkDefinition;
    pub struct Hash(pub [u8; 32]);
    pub struct Level;
    /// `bitflags! { pub struct EventFlags: u32 { const FORCE_WRITE = 0b00000001; } }` (radix-engine-interface/src/api/actor_api.rs)
    /// ASSUMED (bitflags crate): `contains(other)` is `self.bits & other.bits == other.bits`; FORCE_WRITE is bit 0.
    #[derive(Clone, Copy)]
    pub struct EventFlags { pub bits: u32 }
    impl EventFlags {
        pub const FORCE_WRITE: EventFlags = EventFlags { bits: 1 };
        #[verifier::external_body]
        pub fn contains(&self, other: EventFlags) -> (r: bool)
            ensures r == (self.bits & other.bits == other.bits)
        { unimplemented!() }
    }

    // ASSUMED: `#[derive(Clone)]` on the field-less enum AbortReason is the identity
    impl Clone for AbortReason {
        #[verifier::external_body]
        fn clone(&self) -> (r: Self) ensures r == *self { unimplemented!() }
    }

    /// radix-engine/src/system/system_modules/costing/fee_reserve.rs :: SystemLoanFeeReserve, opaque.
    /// ASSUMED contracts = what unit c06_fee_reserve proves on the real type:
    ///   repay_all:  Ok ==> xrd_owed == 0;  Err(LoanRepaymentFailed{..}) ==> xrd_owed > 0
    ///   fully_repaid() == (xrd_owed == 0)
    /// `repaid()` stands for `xrd_owed == 0` ("the system loan and all deferred costs are repaid").
    #[verifier::external_body]
    pub struct SystemLoanFeeReserve { _p: () }
    impl SystemLoanFeeReserve {
        pub uninterp spec fn repaid(&self) -> bool;
        /// what the final repayment attempt answers, as a function of the reserve's state
        pub uninterp spec fn repay_outcome(&self) -> Result<(), FeeReserveError>;
        #[verifier::external_body]
        pub fn repay_all(&mut self) -> (r: Result<(), FeeReserveError>)
            ensures
                r == old(self).repay_outcome(),
                r is Ok ==> final(self).repaid(),
                (r matches Err(FeeReserveError::LoanRepaymentFailed { .. })) ==> !final(self).repaid(),
        { unimplemented!() }
        #[verifier::external_body]
        pub fn fully_repaid(&self) -> (r: bool) ensures r == self.repaid() { unimplemented!() }
    }
}

pub mod unit {
    use vstd::prelude::*;
    use super::rt::*;
    use super::env::*;
    use super::env::Decimal;

    // ---- the real types (verbatim) ---------------------------------------------------------------------
    /*@item radix-engine/src/transaction/transaction_receipt.rs :: enum AbortReason
    @derive
    @*/
    /*@item radix-engine/src/system/system_modules/costing/fee_reserve.rs :: enum FeeReserveError
    @derive
    @*/
    /*@item radix-engine/src/system/system_modules/costing/costing_module.rs :: enum CostingError
    @derive
    @*/
    /*@item radix-engine/src/errors.rs :: enum SystemModuleError
    @derive
    @*/
    /*@item radix-engine/src/errors.rs :: enum RuntimeError
    @derive
    @*/
    /*@item radix-engine/src/errors.rs :: enum BootloadingError
    @derive
    @*/
    /*@item radix-engine/src/errors.rs :: enum TransactionExecutionError
    @derive
    @*/
    /*@item radix-engine/src/errors.rs :: enum RejectionReason
    @derive
    @*/
    /*@item radix-engine/src/transaction/transaction_executor.rs :: enum TransactionResultType
    @derive
    @*/
    /*@item radix-engine/src/errors.rs :: trait CanBeAbortion
    @*/

    // ==================================================================================================
    // ORACLE (from the property and the documentation of the error types)
    // An "abortion" is the fee reserve's configured Abort(reason), either returned directly by the reserve
    // or wrapped by the costing module into RuntimeError::SystemModuleError(CostingError(FeeReserveError(..))).
    // ==================================================================================================
    pub open spec fn fee_abort(e: FeeReserveError) -> Option<AbortReason> {
        match e { FeeReserveError::Abort(r) => Some(r), _ => None }
    }
    pub open spec fn abort_of(e: RuntimeError) -> Option<AbortReason> {
        match e {
            RuntimeError::SystemModuleError(SystemModuleError::CostingError(CostingError::FeeReserveError(f))) => fee_abort(f),
            _ => None,
        }
    }
    pub open spec fn opt_ref(o: Option<&AbortReason>) -> Option<AbortReason> {
        match o { Some(r) => Some(*r), None => None }
    }
    /// the classification demanded by the property:
    ///  * bootloading errors: nothing ran, nothing can be charged            => Reject
    ///  * abortion                                                              => Abort
    ///  * interpretation succeeded: commit as success only if the final repayment succeeded, else Reject
    ///  * interpretation failed: commit as failure only if the loan is repaid (fees can be paid), else Reject
    pub open spec fn classify(
        interpretation_result: Result<Vec<InstructionOutput>, TransactionExecutionError>,
        repay: Result<(), FeeReserveError>,
        repaid_after: bool,
    ) -> TransactionResultType {
        match interpretation_result {
            Ok(output) => match repay {
                Ok(_) => TransactionResultType::Commit(Ok(output)),
                Err(f) => match fee_abort(f) {
                    Some(r) => TransactionResultType::Abort(r),
                    None => TransactionResultType::Reject(RejectionReason::SuccessButFeeLoanNotRepaid),
                },
            },
            Err(TransactionExecutionError::BootloadingError(b)) => TransactionResultType::Reject(RejectionReason::BootloadingError(b)),
            Err(TransactionExecutionError::RuntimeError(e)) => match abort_of(e) {
                Some(r) => TransactionResultType::Abort(r),
                None => if repaid_after { TransactionResultType::Commit(Err(e)) }
                        else { TransactionResultType::Reject(RejectionReason::ErrorBeforeLoanAndDeferredCostsRepaid(e)) },
            },
        }
    }

    // ---- the abortion() chain (verbatim) ------------------------------------------------------------
    impl CanBeAbortion for FeeReserveError {
        /*@fn radix-engine/src/system/system_modules/costing/fee_reserve.rs :: impl CanBeAbortion for FeeReserveError :: fn abortion
        @sig
            ensures opt_ref(ret) == fee_abort(*self)
        @*/
    }
    impl CanBeAbortion for CostingError {
        /*@fn radix-engine/src/system/system_modules/costing/costing_module.rs :: impl CanBeAbortion for CostingError :: fn abortion
        @sig
            ensures opt_ref(ret) == fee_abort(self->FeeReserveError_0)
        @*/
    }
    impl CanBeAbortion for SystemModuleError {
        /*@fn radix-engine/src/errors.rs :: impl CanBeAbortion for SystemModuleError :: fn abortion
        @sig
            ensures opt_ref(ret) == abort_of(RuntimeError::SystemModuleError(*self))
        @*/
    }
    impl CanBeAbortion for RuntimeError {
        /*@fn radix-engine/src/errors.rs :: impl CanBeAbortion for RuntimeError :: fn abortion
        @sig
            ensures opt_ref(ret) == abort_of(*self)
        @*/
    }

    // ---- the classification (verbatim) ---------------------------------------------------------------
    /*@fn radix-engine/src/system/system_callback.rs :: fn determine_result_type
    @sig
        ensures
            ret == classify(interpretation_result, old(fee_reserve).repay_outcome(), final(fee_reserve).repaid()),
            // ---- the clauses of the property, one by one ----
            // committed as success only if the interpretation succeeded and the loan is repaid
            ret matches TransactionResultType::Commit(Ok(o)) ==> interpretation_result == Ok::<Vec<InstructionOutput>, TransactionExecutionError>(o) && final(fee_reserve).repaid(),
            // committed as failure only if the loan is fully repaid (so the fees can be paid), for a non-abortion runtime error
            ret matches TransactionResultType::Commit(Err(e)) ==> interpretation_result == Err::<Vec<InstructionOutput>, TransactionExecutionError>(TransactionExecutionError::RuntimeError(e))
                    && final(fee_reserve).repaid() && abort_of(e) is None,
            // an error before repayment => Reject (no state change at all)
            (interpretation_result is Err && !final(fee_reserve).repaid()) ==> !(ret is Commit),
            // boot-loading errors => Reject
            interpretation_result matches Err(TransactionExecutionError::BootloadingError(b)) ==> ret == TransactionResultType::Reject(RejectionReason::BootloadingError(b)),
            // abortion => Abort, and Abort only for an abortion
            interpretation_result matches Err(TransactionExecutionError::RuntimeError(e)) ==> (ret is Abort <==> abort_of(e) is Some),
            (interpretation_result is Ok) ==> (ret is Abort <==> (old(fee_reserve).repay_outcome() matches Err(f) && fee_abort(f) is Some)),
            ret matches TransactionResultType::Abort(r) ==> (
                ((interpretation_result matches Err(TransactionExecutionError::RuntimeError(e)) && abort_of(e) == Some(r)))
                || (interpretation_result is Ok && (old(fee_reserve).repay_outcome() matches Err(f) && fee_abort(f) == Some(r)))),
    @*/

    // ==================================================================================================
    // Events of a failed transaction: only those emitted with FORCE_WRITE survive
    // Real code: radix-engine/src/system/system_modules/transaction_runtime/module.rs ::
    //            TransactionRuntimeModule::{add_event, add_replacement, finalize}
    // ==================================================================================================
    pub mod events {
        use vstd::prelude::*;
        use super::super::rt::*;
        use super::super::maps::*;
        use super::super::env::*;

        /*@item radix-engine-interface/src/types/event_id.rs :: enum Emitter
        @derive
        @*/
        /*@item radix-engine-interface/src/types/event_id.rs :: struct EventTypeIdentifier
        @derive
        @*/
        /*@item radix-engine/src/system/system_modules/transaction_runtime/module.rs :: struct Event
        @derive
        @*/
        /*@item radix-engine/src/system/system_modules/transaction_runtime/module.rs :: struct TransactionRuntimeModule
        @derive
        @*/

        // ---- ORACLE -------------------------------------------------------------------------------------
        pub open spec fn force_write(e: Event) -> bool { e.flags.bits & 1 == 1 }
        /// from the property: a failed commit emits only fee-related (= FORCE_WRITE) events; a successful one emits all
        pub open spec fn kept(e: Event, is_success: bool) -> bool { is_success || force_write(e) }

        /// The drop guard of `TransactionRuntimeModule::finalize`, sliced out of the real function on every run
        /// (the condition of the `if` whose body is `continue`).  Verus rejects `continue` inside a `for` loop
        /// ("for-loops do not yet support continue"), so the loop itself (replacement of the emitter, push of the
        /// kept event) is NOT verified; what is proved is that the guard drops an event iff the oracle does.
        pub fn event_dropped(flags: EventFlags, is_success: bool) -> (b: bool)
            ensures b == !(is_success || flags.bits & 1 == 1),
                    forall|e: Event| e.flags == flags ==> b == !kept(e, is_success),
        {
            /*@expr radix-engine/src/system/system_modules/transaction_runtime/module.rs :: impl TransactionRuntimeModule :: fn finalize :: <<continue>> #1 @*/
        }

        impl TransactionRuntimeModule {
            /*@fn radix-engine/src/system/system_modules/transaction_runtime/module.rs :: impl TransactionRuntimeModule :: fn add_event
            @sig
                ensures final(self).events@ == old(self).events@.push(event), final(self).replacements == old(self).replacements, final(self).logs == old(self).logs,
            @*/
        }
    }

    // ==================================================================================================
    // Track: what survives a failed transaction
    // Real code: radix-engine/src/track/track.rs :: MappedTrack::revert_non_force_write_changes
    //            radix-engine/src/track/state_updates.rs :: TrackedNode::revert_writes, TrackedPartition::revert_writes,
    //                                                       TrackedSubstateValue::revert_writes, RuntimeSubstate::new
    // ==================================================================================================
    pub mod track {
        use vstd::prelude::*;
        use core::mem;
        use core::marker::PhantomData;
        use super::super::rt::*;
        use super::super::tmaps::*;
        use super::super::env::*;

        /*@item radix-engine/src/track/state_updates.rs :: struct RuntimeSubstate
        @derive
        @*/
        /*@item radix-engine/src/track/state_updates.rs :: enum ReadOnly
        @derive
        @*/
        /*@item radix-engine/src/track/state_updates.rs :: enum Write
        @derive
        @*/
        /*@item radix-engine/src/track/state_updates.rs :: struct TrackedSubstate
        @derive
        @*/
        /*@item radix-engine/src/track/state_updates.rs :: enum TrackedSubstateValue
        @derive
        @*/
        /*@item radix-engine/src/track/state_updates.rs :: struct TrackedPartition
        @derive
        @*/
        /*@item radix-engine/src/track/state_updates.rs :: struct TrackedNode
        @derive
        @*/
        /*@item radix-engine/src/track/track.rs :: struct MappedTrack
        @*/

        // ---- ORACLE ------------------------------------------------------------------------------------
        /// Does a tracked substate contribute an update when the track is finalized?  (Unit c12_tracked_substate
        /// proves on the real `TrackedSubstates::to_state_updates` mapping: update emitted <==> written.)
        pub open spec fn written(t: TrackedSubstateValue) -> bool { !(t is ReadOnly) && !(t is Garbage) }
        pub type Nodes = Map<NodeId, TrackedNode>;
        pub type Cell = (NodeId, PartitionNumber, DbSortKey);
        /// is (n, p, k) a tracked substate
        pub open spec fn has(m: Nodes, n: NodeId, p: PartitionNumber, k: DbSortKey) -> bool {
            m.contains_key(n) && m[n].tracked_partitions@.contains_key(p) && m[n].tracked_partitions@[p].substates@.contains_key(k)
        }
        pub open spec fn val(m: Nodes, n: NodeId, p: PartitionNumber, k: DbSortKey) -> TrackedSubstateValue {
            m[n].tracked_partitions@[p].substates@[k].substate_value
        }
        pub open spec fn part_unwritten(a: TrackedPartition, b: TrackedPartition) -> bool {
            &&& b.substates@.dom() == a.substates@.dom()
            &&& forall|k: DbSortKey| a.substates@.contains_key(k) ==> !written((#[trigger] b.substates@[k]).substate_value)
        }
        pub open spec fn node_unwritten(a: TrackedNode, b: TrackedNode) -> bool {
            &&& b.is_new == a.is_new
            &&& b.tracked_partitions@.dom() == a.tracked_partitions@.dom()
            &&& forall|p: PartitionNumber| a.tracked_partitions@.contains_key(p) ==> part_unwritten(a.tracked_partitions@[p], #[trigger] b.tracked_partitions@[p])
        }
        /// ASSUMED about the caller (kernel): what was force-written is a tracked substate of a node that was not
        /// created by this transaction (FORCE_WRITE comes with UNMODIFIED_BASE, which the kernel refuses on heap
        /// nodes and on new substates).  It is what makes the three `unwrap()`s safe.
        pub open spec fn force_wf(nodes: Nodes, force: Nodes) -> bool {
            forall|n: NodeId, p: PartitionNumber, k: DbSortKey| #[trigger] has(force, n, p, k) ==> has(nodes, n, p, k) && !nodes[n].is_new
        }

        // ---- proof machinery ----------------------------------------------------------------------------
        /// one of the first `i` entries of `s` has key `k`
        pub open spec fn seen<K, V>(s: Seq<(K, V)>, i: int, k: K) -> bool { exists|j: int| 0 <= j < i && (#[trigger] s[j]).0 == k }
        pub proof fn lemma_seen_step<K, V>(s: Seq<(K, V)>, i: int, k: K)
            requires 0 <= i < s.len()
            ensures seen(s, i + 1, k) <==> (seen(s, i, k) || s[i].0 == k)
        {
            if seen(s, i + 1, k) {
                let j = choose|j: int| 0 <= j < i + 1 && (#[trigger] s[j]).0 == k;
                if j < i { assert(seen(s, i, k)); }
            }
            if seen(s, i, k) {
                let j = choose|j: int| 0 <= j < i && (#[trigger] s[j]).0 == k;
                assert(0 <= j < i + 1 && s[j].0 == k);
            }
            if s[i].0 == k { assert(0 <= i < i + 1 && s[i].0 == k); }
        }
        /// loop invariant of the write-back phase: `cur` has the shape of `nodes2` (the reverted track); a cell holds
        /// its force-written value if it is in `done`, else its reverted value
        pub open spec fn inv(cur: Nodes, nodes2: Nodes, force: Nodes, done: Set<Cell>) -> bool {
            &&& forall|n: NodeId| cur.contains_key(n) <==> nodes2.contains_key(n)
            &&& forall|n: NodeId| cur.contains_key(n) ==> (#[trigger] cur[n]).is_new == nodes2[n].is_new
            &&& forall|n: NodeId, p: PartitionNumber, k: DbSortKey| #[trigger] has(cur, n, p, k) <==> has(nodes2, n, p, k)
            &&& forall|n: NodeId, p: PartitionNumber, k: DbSortKey| #[trigger] has(cur, n, p, k) ==>
                    val(cur, n, p, k) == (if done.contains((n, p, k)) { val(force, n, p, k) } else { val(nodes2, n, p, k) })
            &&& forall|n: NodeId, p: PartitionNumber, k: DbSortKey| done.contains((n, p, k)) ==> has(force, n, p, k)
            &&& forall|n: NodeId, p: PartitionNumber, k: DbSortKey| #[trigger] has(force, n, p, k) ==> has(nodes2, n, p, k)
        }
        /// one overwrite of the cell (n, p, k) with its force-written value keeps the invariant
        pub proof fn lemma_step(cur: Nodes, cur2: Nodes, nodes2: Nodes, force: Nodes, done: Set<Cell>, n: NodeId, p: PartitionNumber, k: DbSortKey,
                                node2: TrackedNode, part2: TrackedPartition, sub2: TrackedSubstate)
            requires
                inv(cur, nodes2, force, done), has(force, n, p, k), has(cur, n, p, k),
                cur2 == cur.insert(n, node2),
                node2.is_new == cur[n].is_new,
                node2.tracked_partitions@ == cur[n].tracked_partitions@.insert(p, part2),
                part2.substates@ == cur[n].tracked_partitions@[p].substates@.insert(k, sub2),
                sub2.substate_value == val(force, n, p, k),
            ensures inv(cur2, nodes2, force, done.insert((n, p, k)))
        {
            let done2 = done.insert((n, p, k));
            assert forall|n1: NodeId, p1: PartitionNumber, k1: DbSortKey| #[trigger] has(cur2, n1, p1, k1) <==> has(nodes2, n1, p1, k1) by {
                assert(has(cur, n1, p1, k1) <==> has(nodes2, n1, p1, k1));
                assert(has(cur2, n1, p1, k1) <==> has(cur, n1, p1, k1));
            }
            assert forall|n1: NodeId, p1: PartitionNumber, k1: DbSortKey| #[trigger] has(cur2, n1, p1, k1) implies
                    val(cur2, n1, p1, k1) == (if done2.contains((n1, p1, k1)) { val(force, n1, p1, k1) } else { val(nodes2, n1, p1, k1) }) by {
                assert(has(cur, n1, p1, k1));
                if n1 == n && p1 == p && k1 == k {
                } else {
                    assert(val(cur2, n1, p1, k1) == val(cur, n1, p1, k1));
                    assert(done2.contains((n1, p1, k1)) == done.contains((n1, p1, k1)));
                }
            }
        }

        // ---- per-substate / per-partition / per-node revert (verbatim) ------------------------------------
        impl RuntimeSubstate {
            /*@fn radix-engine/src/track/state_updates.rs :: impl RuntimeSubstate :: fn new
            @sig
                ensures ret.value == value
            @*/
        }
        impl TrackedSubstateValue {
            /*@fn radix-engine/src/track/state_updates.rs :: impl TrackedSubstateValue :: fn revert_writes
            @sig
                ensures !written(*final(self))
            @*/
        }
        impl TrackedPartition {
            /*@fn radix-engine/src/track/state_updates.rs :: impl TrackedPartition :: fn revert_writes
            @sig
                ensures part_unwritten(*old(self), *final(self)), final(self).range_read == old(self).range_read,
            @loop 1 iter it
                invariant forall|j: int| 0 <= j < it.index@ ==> !written((*final(it.seq()[j])).substate_value)
            @*/
        }
        impl TrackedNode {
            /*@fn radix-engine/src/track/state_updates.rs :: impl TrackedNode :: fn revert_writes
            @sig
                ensures node_unwritten(*old(self), *final(self))
            @loop 1 iter it
                invariant forall|j: int| 0 <= j < it.index@ ==> part_unwritten(*it.seq()[j].1, *final(it.seq()[j].1))
            @*/
        }

        // ---- the whole-track revert (verbatim) ---------------------------------------------------------------
        impl<'s, S: SubstateDatabase, M: DatabaseKeyMapper> MappedTrack<'s, S, M> {
            /*@fn radix-engine/src/track/track.rs :: impl<'s, S: SubstateDatabase, M: DatabaseKeyMapper> MappedTrack<'s, S, M> :: fn revert_non_force_write_changes
            @subst <<let tracked =>> => <<let tracked_value =>> why: `tracked` is a reserved word of Verus (`let tracked x` declares a ghost-tracked variable); the local variable is renamed, nothing else changes
            @subst <<*tracked =>> => <<*tracked_value =>> why: same renaming of the local variable `tracked`
            @sig
                requires force_wf(old(self).tracked_nodes@, old(self).force_write_tracked_nodes@)
                ensures
                    // the force-write log is consumed; partitions-to-delete and transient substates are not touched
                    final(self).force_write_tracked_nodes@ == Map::<NodeId, TrackedNode>::empty(),
                    final(self).deleted_partitions == old(self).deleted_partitions,
                    final(self).transient_substates == old(self).transient_substates,
                    // nodes created by the transaction are dropped entirely; no node and no substate appears
                    forall|n: NodeId| #[trigger] final(self).tracked_nodes@.contains_key(n) <==> old(self).tracked_nodes@.contains_key(n) && !old(self).tracked_nodes@[n].is_new,
                    forall|n: NodeId, p: PartitionNumber, k: DbSortKey| #[trigger] has(final(self).tracked_nodes@, n, p, k) ==> has(old(self).tracked_nodes@, n, p, k),
                    // C02: every remaining tracked substate either carries exactly the value recorded under FORCE_WRITE,
                    // or contributes no update at all
                    forall|n: NodeId, p: PartitionNumber, k: DbSortKey| #[trigger] has(final(self).tracked_nodes@, n, p, k) ==>
                        if has(old(self).force_write_tracked_nodes@, n, p, k) { val(final(self).tracked_nodes@, n, p, k) == val(old(self).force_write_tracked_nodes@, n, p, k) }
                        else { !written(val(final(self).tracked_nodes@, n, p, k)) },
                    // ... and every force-written substate is still there
                    forall|n: NodeId, p: PartitionNumber, k: DbSortKey| #[trigger] has(old(self).force_write_tracked_nodes@, n, p, k) ==> has(final(self).tracked_nodes@, n, p, k),
            @entry
                let ghost nodes0 = self.tracked_nodes@;
                let ghost force = self.force_write_tracked_nodes@;
            @closure 1 := |_k: &NodeId, tracked_node: &mut TrackedNode| -> (r: bool) ensures r == !old(tracked_node).is_new, *final(tracked_node) == *old(tracked_node)
            @after <<.retain(>> #1
                let ghost nodes1 = self.tracked_nodes@;
                proof {
                    assert forall|n: NodeId| nodes1.contains_key(n) implies nodes0.contains_key(n) && !nodes0[n].is_new && nodes1[n] == nodes0[n] by {}
                    assert forall|n: NodeId| nodes0.contains_key(n) && !nodes0[n].is_new implies nodes1.contains_key(n) by {}
                }
            @loop 1 iter it
                invariant forall|j: int| 0 <= j < it.index@ ==> node_unwritten(*it.seq()[j].1, *final(it.seq()[j].1))
            @before <<let force_writes>> #1
                let ghost nodes2 = self.tracked_nodes@;
                proof {
                    assert forall|n: NodeId| nodes1.contains_key(n) implies node_unwritten(nodes1[n], nodes2[n]) by {}
                    assert(nodes2.dom() == nodes1.dom());
                }
            @after <<let force_writes>> #1
                let ghost mut done: Set<Cell> = Set::empty();
                proof {
                    assert forall|n: NodeId, p: PartitionNumber, k: DbSortKey| #[trigger] has(force, n, p, k) implies has(nodes2, n, p, k) by {
                        assert(has(nodes0, n, p, k) && !nodes0[n].is_new);
                        assert(nodes1.contains_key(n));
                        assert(node_unwritten(nodes1[n], nodes2[n]));
                        assert(part_unwritten(nodes1[n].tracked_partitions@[p], nodes2[n].tracked_partitions@[p]));
                    }
                    assert(inv(self.tracked_nodes@, nodes2, force, done));
                }
            @loop 2 iter it1
                invariant
                    enumerates(it1.seq(), force),
                    inv(self.tracked_nodes@, nodes2, force, done),
                    self.deleted_partitions == old(self).deleted_partitions, self.transient_substates == old(self).transient_substates,
                    self.force_write_tracked_nodes@ == Map::<NodeId, TrackedNode>::empty(),
                    forall|n: NodeId, p: PartitionNumber, k: DbSortKey| #[trigger] done.contains((n, p, k)) || !(has(force, n, p, k) && seen(it1.seq(), it1.index@, n)),
            @loop 3 iter it2
                invariant
                    force.contains_key(node_id), force_track_node == force[node_id],
                    enumerates(it2.seq(), force[node_id].tracked_partitions@),
                    inv(self.tracked_nodes@, nodes2, force, done),
                    self.deleted_partitions == old(self).deleted_partitions, self.transient_substates == old(self).transient_substates,
                    self.force_write_tracked_nodes@ == Map::<NodeId, TrackedNode>::empty(),
                    forall|n: NodeId, p: PartitionNumber, k: DbSortKey| #[trigger] done.contains((n, p, k)) || !(has(force, n, p, k) && seen(it1.seq(), it1.index@, n)),
                    forall|p: PartitionNumber, k: DbSortKey| #[trigger] done.contains((node_id, p, k)) || !(has(force, node_id, p, k) && seen(it2.seq(), it2.index@, p)),
            @loop 4 iter it3
                invariant
                    force.contains_key(node_id), force[node_id].tracked_partitions@.contains_key(partition_num),
                    force_track_partition == force[node_id].tracked_partitions@[partition_num],
                    enumerates(it3.seq(), force[node_id].tracked_partitions@[partition_num].substates@),
                    inv(self.tracked_nodes@, nodes2, force, done),
                    self.deleted_partitions == old(self).deleted_partitions, self.transient_substates == old(self).transient_substates,
                    self.force_write_tracked_nodes@ == Map::<NodeId, TrackedNode>::empty(),
                    forall|n: NodeId, p: PartitionNumber, k: DbSortKey| #[trigger] done.contains((n, p, k)) || !(has(force, n, p, k) && seen(it1.seq(), it1.index@, n)),
                    forall|p: PartitionNumber, k: DbSortKey| #[trigger] done.contains((node_id, p, k)) || !(has(force, node_id, p, k) && seen(it2.seq(), it2.index@, p)),
                    forall|k: DbSortKey| #[trigger] done.contains((node_id, partition_num, k)) || !seen(it3.seq(), it3.index@, k),
            @before <<let tracked_node = self.tracked_nodes.get_mut>> #1
                let ghost cur = self.tracked_nodes@;
                proof { assert(has(force, node_id, partition_num, db_sort_key)); assert(has(cur, node_id, partition_num, db_sort_key)); }
            @after <<force_track_key.substate_value;>> #1
                proof {
                    let cur2 = self.tracked_nodes@;
                    lemma_step(cur, cur2, nodes2, force, done, node_id, partition_num, db_sort_key,
                        cur2[node_id], cur2[node_id].tracked_partitions@[partition_num], cur2[node_id].tracked_partitions@[partition_num].substates@[db_sort_key]);
                    done = done.insert((node_id, partition_num, db_sort_key));
                    assert forall|k: DbSortKey| #[trigger] done.contains((node_id, partition_num, k)) || !seen(it3.seq(), it3.index@ + 1, k) by {
                        lemma_seen_step(it3.seq(), it3.index@, k);
                    }
                }
            @after <<for (db_sort_key, force_track_key)>> #1
                proof {
                    assert forall|k: DbSortKey| has(force, node_id, partition_num, k) implies #[trigger] done.contains((node_id, partition_num, k)) by {}
                    assert forall|p: PartitionNumber, k: DbSortKey| #[trigger] done.contains((node_id, p, k)) || !(has(force, node_id, p, k) && seen(it2.seq(), it2.index@ + 1, p)) by {
                        lemma_seen_step(it2.seq(), it2.index@, p);
                    }
                }
            @after <<for (partition_num, force_track_partition)>> #1
                proof {
                    assert forall|p: PartitionNumber, k: DbSortKey| has(force, node_id, p, k) implies #[trigger] done.contains((node_id, p, k)) by {}
                    assert forall|n: NodeId, p: PartitionNumber, k: DbSortKey| #[trigger] done.contains((n, p, k)) || !(has(force, n, p, k) && seen(it1.seq(), it1.index@ + 1, n)) by {
                        lemma_seen_step(it1.seq(), it1.index@, n);
                    }
                }
            @after <<for (node_id, force_track_node)>> #1
                proof {
                    assert forall|n: NodeId, p: PartitionNumber, k: DbSortKey| has(force, n, p, k) implies #[trigger] done.contains((n, p, k)) by {}
                }
            @*/
        }
    }
}
} // verus!
fn main() {}
