// Unit c42_validator_math -- property C42 "Validator staking and emissions never create value"
// Real code: radix-engine/src/blueprints/consensus_manager/validator.rs
//              ValidatorBlueprint::{calculate_stake_unit_amount, calculate_redemption_value},
//              check_validator_fee_factor, create_sort_prefix_from_stake
use vstd::prelude::*;
// `dec!(<integer literal>)` (radix-common-derive proc macro, cannot be expanded here): ASSUMED to be the
// whole number given by the literal, exactly what `Decimal::from(<integer>)` of shims/decimal.rs yields.
macro_rules! dec { ($e:literal) => { Decimal::from($e as i64) }; }
verus! {
/*@include shims/rt.rs @*/
/*@include shims/decimal.rs @*/
/*@include shims/decimal_validator_ext.rs @*/

pub mod env {
    use vstd::prelude::*;
    use super::decimal::*;
    use super::decimal::Decimal;
    // ---- payload types of error variants that this unit never constructs (opaque) ----
    pub struct KernelError;
    pub struct SystemError;
    pub struct SystemModuleError;
    pub struct SystemUpstreamError;
    pub struct VmError;
    pub struct CostingError;
    pub struct AccessControllerError; pub struct AccountError; pub struct AuthZoneError; pub struct BucketError;
    pub struct ComponentRoyaltyError; pub struct ConsensusManagerError; pub struct DecodeError;
    pub struct FungibleResourceManagerError; pub struct MetadataError; pub struct MultiResourcePoolError;
    pub struct NonFungibleResourceManagerError; pub struct NonFungibleVaultError; pub struct OneResourcePoolError;
    pub struct PackageError; pub struct ProofError; pub struct RoleAssignmentError; pub struct TransactionProcessorError;
    pub struct TwoResourcePoolError; pub struct VaultError; pub struct WorktopError;
    /*@item radix-engine/src/blueprints/consensus_manager/validator.rs :: enum ValidatorError
    @derive
    @*/
    /*@item radix-engine/src/errors.rs :: enum ApplicationError
    @derive
    @*/
    /*@item radix-engine/src/errors.rs :: enum RuntimeError
    @derive
    @*/

    // ---- ledger environment of calculate_redemption_value -------------------------------------
    #[derive(Clone, Copy)]
    pub struct NodeId(pub [u8; 30]);
    #[derive(Clone, Copy)]
    pub struct Own(pub NodeId);
    #[derive(Clone, Copy)]
    pub struct ResourceAddress(pub NodeId);
    pub struct Secp256k1PublicKey(pub [u8; 33]);
    pub struct Epoch(pub u64);
    /*@item radix-common/src/types/node_and_substate.rs :: type SortedKey
    @*/
    /// opaque stand-in for alloc BTreeMap (only a field type of ValidatorSubstate here)
    #[verifier::external_body]
    #[verifier::reject_recursive_types(K)]
    #[verifier::reject_recursive_types(V)]
    pub struct BTreeMap<K, V> { _k: core::marker::PhantomData<(K, V)> }
    /*@item radix-engine/src/blueprints/consensus_manager/validator.rs :: struct ValidatorFeeChangeRequest
    @derive
    @*/
    /*@item radix-engine/src/blueprints/consensus_manager/validator.rs :: struct ValidatorSubstate
    @derive
    @*/
    /// ghost view of the part of the ledger the two SDK calls below read
    pub struct Ledger {
        pub vault_amount: Map<Own, Decimal>,
        pub total_supply: Map<ResourceAddress, Option<Decimal>>,
    }
    /// radix-engine-interface `SystemApiError` (bound of `SystemApi<E>`), with the one fact this unit uses:
    /// ASSUMED -- a call into the vault / resource-manager blueprints never fails with a *ValidatorError*
    /// (those are raised by validator.rs only), so such an error identifies the validator's own arithmetic.
    pub trait SystemApiError: Sized { spec fn is_validator_error(&self) -> bool; }
    impl SystemApiError for RuntimeError {
        open spec fn is_validator_error(&self) -> bool { *self matches RuntimeError::ApplicationError(ApplicationError::ValidatorError(_)) }
    }
    pub trait SystemApi<E: SystemApiError> {
        spec fn ledger(&self) -> Ledger;
    }
    /// radix-engine-interface :: `pub struct Vault(pub Own)`
    pub struct Vault(pub Own);
    /// radix-native-sdk :: `pub struct ResourceManager(pub ResourceAddress)`
    pub struct ResourceManager(pub ResourceAddress);
    impl Vault {
        /// ASSUMED (radix-native-sdk NativeVault::amount = call_method VAULT_GET_AMOUNT): reads the vault's
        /// balance, changes nothing; a vault balance is never negative (resource-container invariant, C03).
        #[verifier::external_body]
        pub fn amount<Y: SystemApi<E>, E: SystemApiError>(&self, api: &mut Y) -> (r: Result<Decimal, E>)
            ensures final(api).ledger() == old(api).ledger(),
                    r matches Ok(a) ==> a == old(api).ledger().vault_amount[self.0] && a.v() >= 0,
                    r matches Err(e) ==> !e.is_validator_error(),
        { unimplemented!() }
    }
    impl ResourceManager {
        /// ASSUMED (radix-native-sdk ResourceManager::total_supply = call_method GET_TOTAL_SUPPLY): reads the
        /// tracked supply (None when the resource does not track it), changes nothing; a supply is never negative.
        #[verifier::external_body]
        pub fn total_supply<Y: SystemApi<E>, E: SystemApiError>(&self, api: &mut Y) -> (r: Result<Option<Decimal>, E>)
            ensures final(api).ledger() == old(api).ledger(),
                    r matches Ok(a) ==> a == old(api).ledger().total_supply[self.0] && (a matches Some(s) ==> s.v() >= 0),
                    r matches Err(e) ==> !e.is_validator_error(),
        { unimplemented!() }
    }
}

pub mod unit {
    use vstd::prelude::*;
    use super::rt::*;
    use super::env::*;
    use super::decimal::*;
    use super::decimal::Decimal;
    use super::decimal_validator_ext::*;
    broadcast use group_decimal;

    // ------------------------------------------------------------------------------------------
    // Oracle, from the property statement.  All amounts are integers = numbers of 10^-18 sub-units.
    // trunc-division of 18-dp fixed point:  fdiv(a, b) = trunc(a * 10^18 / b), fmul(a, b) = trunc(a * b / 10^18)
    // ------------------------------------------------------------------------------------------
    pub open spec fn e18() -> int { 1_000_000_000_000_000_000 }
    /// truncation toward zero of the rational a / b
    pub open spec fn trunc_q(a: int, b: int) -> int
        recommends b != 0
    {
        if (a >= 0) == (b > 0) { (if a >= 0 { a } else { -a }) / (if b > 0 { b } else { -b }) }
        else { -((if a >= 0 { a } else { -a }) / (if b > 0 { b } else { -b })) }
    }
    pub open spec fn fmul(a: int, b: int) -> int { trunc_q(a * b, e18()) }
    pub open spec fn fdiv(a: int, b: int) -> int { trunc_q(a * e18(), b) }
    /// stake units minted for x XRD when the validator holds T XRD against S units
    pub open spec fn stake_units(x: int, t: int, s: int) -> int { if t == 0 { x } else { fmul(x, fdiv(s, t)) } }
    /// what Decimal::checked_mul / checked_div can return: the 192-bit range WITHOUT its most negative value
    /// (known boundary finding C24: the wide->narrow conversion of the real code rejects -2^191)
    pub open spec fn fits_dec(i: int) -> bool { dec_min() < i <= dec_max() }
    /// the Decimal computation succeeds iff no intermediate leaves that range
    pub open spec fn stake_units_ok(x: int, t: int, s: int) -> bool {
        t == 0 || (fits_dec(fdiv(s, t)) && fits_dec(fmul(x, fdiv(s, t))))
    }
    /// XRD owed for u stake units when the validator holds T XRD against S units
    pub open spec fn redemption(u: int, t: int, s: int) -> int { if s == 0 { 0 } else { fmul(u, fdiv(t, s)) } }
    pub open spec fn redemption_ok(u: int, t: int, s: int) -> bool {
        s == 0 || (fits_dec(fdiv(t, s)) && fits_dec(fmul(u, fdiv(t, s))))
    }
    pub open spec fn computation_error() -> RuntimeError {
        RuntimeError::ApplicationError(ApplicationError::ValidatorError(ValidatorError::UnexpectedDecimalComputationError))
    }

    /// sort prefix, from the property: validators are indexed by u16::MAX - min(u16::MAX, floor(stake / 100 000)),
    /// stored big-endian so that ascending byte order is descending stake
    pub open spec fn sort_prefix(stake: int) -> int {
        let k = stake / (100_000 * e18());
        0xffff - (if k > 0xffff { 0xffff } else { k })
    }
    pub open spec fn be16(b: [u8; 2]) -> int { b[0] as int * 256 + b[1] as int }
    /// byte-lexicographic order on two-byte keys
    pub open spec fn lex_le(a: [u8; 2], b: [u8; 2]) -> bool { a[0] < b[0] || (a[0] == b[0] && a[1] <= b[1]) }

    /// the three Decimal steps of create_sort_prefix_from_stake, on integers
    pub proof fn lemma_sort_prefix_steps(stake: int)
        requires 0 <= stake <= dec_max()
        ensures
            ipow(10, 18nat) == e18(),
            in_dec(e18() * e18()),
            ({
                let a = tdiv(stake, 100000);
                &&& 0 <= a <= stake
                &&& dec_div(a, e18() * e18()) == stake / (100_000 * e18())
                &&& 0 <= stake / (100_000 * e18()) <= stake
            }),
    {
        reveal_with_fuel(ipow, 20);
        assert(ipow(10, 18nat) == e18());
        let a = stake / 100000;
        assert(0 <= a <= stake) by (nonlinear_arith) requires a == stake / 100000, stake >= 0;
        vstd::arithmetic::div_mod::lemma_div_multiples_vanish_quotient(e18(), a, e18());
        assert(a * e18() == e18() * a) by (nonlinear_arith);
        vstd::arithmetic::div_mod::lemma_div_denominator(stake, 100000, e18());
        assert(0 <= a / e18() <= a) by (nonlinear_arith) requires a >= 0;
    }

    // ---------------------------------------------------------------- lemmas: value is never created
    /// r*D <= u*q  and  q*s <= t*D  (two floor steps)  ==>  r*s <= u*t   (the result never exceeds the exact share)
    pub proof fn lemma_chain(r: int, u: int, q: int, s: int, t: int, d: int)
        requires r >= 0, u >= 0, q >= 0, s >= 0, t >= 0, d > 0, r * d <= u * q, q * s <= t * d
        ensures r * s <= u * t
    {
        assert((r * d) * s <= (u * q) * s) by (nonlinear_arith) requires r * d <= u * q, s >= 0;
        assert(u * (q * s) <= u * (t * d)) by (nonlinear_arith) requires q * s <= t * d, u >= 0;
        assert((r * d) * s == (r * s) * d) by (nonlinear_arith);
        assert((u * q) * s == u * (q * s)) by (nonlinear_arith);
        assert(u * (t * d) == (u * t) * d) by (nonlinear_arith);
        assert(r * s <= u * t) by (nonlinear_arith) requires (r * s) * d <= (u * t) * d, d > 0;
    }
    /// fdiv / fmul on non-negative operands are floors
    pub proof fn lemma_fdiv_floor(a: int, b: int)
        requires a >= 0, b > 0
        ensures fdiv(a, b) >= 0, fdiv(a, b) * b <= a * e18(), fdiv(a, b) == (a * e18()) / b
    {
        assert(a * e18() >= 0) by (nonlinear_arith) requires a >= 0;
        let n = a * e18();
        assert(0 <= (n / b) * b <= n) by (nonlinear_arith) requires n >= 0, b > 0;
        assert(n / b >= 0) by (nonlinear_arith) requires n >= 0, b > 0;
    }
    pub proof fn lemma_fmul_floor(a: int, b: int)
        requires a >= 0, b >= 0
        ensures fmul(a, b) >= 0, fmul(a, b) * e18() <= a * b, fmul(a, b) == (a * b) / e18()
    {
        assert(a * b >= 0) by (nonlinear_arith) requires a >= 0, b >= 0;
        let n = a * b;
        assert(0 <= (n / e18()) * e18() <= n) by (nonlinear_arith) requires n >= 0;
        assert(n / e18() >= 0) by (nonlinear_arith) requires n >= 0;
    }
    /// "Staking mints stake units in proportion to the validator's stake": never MORE than the exact proportion x*S/T
    pub proof fn lemma_stake_units_pro_rata(x: int, t: int, s: int)
        requires x >= 0, t >= 0, s >= 0
        ensures stake_units(x, t, s) >= 0, t > 0 ==> stake_units(x, t, s) * t <= x * s
    {
        if t > 0 {
            lemma_fdiv_floor(s, t);
            lemma_fmul_floor(x, fdiv(s, t));
            lemma_chain(stake_units(x, t, s), x, fdiv(s, t), t, s, e18());
        }
    }
    /// "unstaking never yields more XRD than the units' proportional share" u*T/S; with u <= S the vault is never overdrawn
    pub proof fn lemma_redemption_pro_rata(u: int, t: int, s: int)
        requires u >= 0, t >= 0, s >= 0
        ensures redemption(u, t, s) >= 0,
                redemption(u, t, s) * s <= u * t,
                u <= s ==> redemption(u, t, s) <= t,
    {
        if s > 0 {
            lemma_fdiv_floor(t, s);
            lemma_fmul_floor(u, fdiv(t, s));
            let r = redemption(u, t, s);
            lemma_chain(r, u, fdiv(t, s), s, t, e18());
            if u <= s {
                assert(u * t <= s * t) by (nonlinear_arith) requires u <= s, t >= 0;
                assert(r <= t) by (nonlinear_arith) requires r * s <= s * t, s > 0;
            }
        } else {
            assert(redemption(u, t, s) * s == 0) by (nonlinear_arith) requires s == 0;
            assert(u * t >= 0) by (nonlinear_arith) requires u >= 0, t >= 0;
        }
    }
    /// C42 core: staking x XRD into a validator holding T XRD against S units and immediately unstaking the
    /// minted units (the vault then holds T + x against S + units) never returns more than x.
    pub proof fn lemma_stake_then_unstake(x: int, t: int, s: int)
        requires x >= 0, t >= 0, s >= 0
        ensures ({
            let u = stake_units(x, t, s);
            0 <= redemption(u, t + x, s + u) <= x
        })
    {
        let u = stake_units(x, t, s);
        lemma_stake_units_pro_rata(x, t, s);
        let t2 = t + x; let s2 = s + u;
        lemma_redemption_pro_rata(u, t2, s2);
        let r = redemption(u, t2, s2);
        if s2 > 0 {
            // u*T <= x*S  (for T == 0: u == x and 0 <= x*S)
            assert(u * t <= x * s) by {
                if t == 0 { assert(u * t == 0) by (nonlinear_arith) requires t == 0; assert(x * s >= 0) by (nonlinear_arith) requires x >= 0, s >= 0; }
            }
            assert(u * t2 <= x * s2) by (nonlinear_arith) requires u * t <= x * s, t2 == t + x, s2 == s + u;
            assert(r <= x) by (nonlinear_arith) requires r * s2 <= u * t2, u * t2 <= x * s2, s2 > 0;
        }
    }

    // ---------------------------------------------------------------- lemmas: sort prefix
    /// ascending byte-lexicographic order of the stored prefix == descending stake (in 100k buckets), saturating at the top
    pub proof fn lemma_sort_prefix_order(s1: int, s2: int)
        requires 0 <= s1 <= s2
        ensures 0 <= sort_prefix(s2) <= sort_prefix(s1) <= 0xffff,
                s1 < 100_000 * e18() ==> sort_prefix(s1) == 0xffff,
                s2 >= 0xffff * (100_000 * e18()) ==> sort_prefix(s2) == 0,
                s1 + 100_000 * e18() <= s2 && s1 < 0xffff * (100_000 * e18()) ==> sort_prefix(s2) < sort_prefix(s1),
    {
        let d = 100_000 * e18();
        vstd::arithmetic::div_mod::lemma_div_is_ordered(s1, s2, d);
        assert(s1 / d >= 0) by (nonlinear_arith) requires s1 >= 0, d > 0;
        assert(s1 < d ==> s1 / d == 0) by (nonlinear_arith) requires s1 >= 0, d > 0;
        assert(s2 >= 0xffff * d ==> s2 / d >= 0xffff) by (nonlinear_arith) requires d > 0;
        assert(s1 < 0xffff * d ==> s1 / d < 0xffff) by (nonlinear_arith) requires d > 0, s1 >= 0;
        assert(s1 + d <= s2 ==> s1 / d + 1 <= s2 / d) by (nonlinear_arith) requires d > 0, s1 >= 0;
    }
    pub proof fn lemma_be16_lex(a: [u8; 2], b: [u8; 2])
        ensures lex_le(a, b) <==> be16(a) <= be16(b),
                be16(a) == be16(b) ==> a@ =~= b@,
    {}

    pub proof fn lemma_trunc_q_is_tdiv(a: int, b: int)
        requires b != 0
        ensures trunc_q(a, b) == tdiv(a, b)
    {}

    pub struct ValidatorBlueprint;
    impl ValidatorBlueprint {
        /*@fn radix-engine/src/blueprints/consensus_manager/validator.rs :: impl ValidatorBlueprint :: fn calculate_stake_unit_amount
        @sig
            ensures ret is Ok <==> stake_units_ok(xrd_amount.v(), total_stake_xrd_amount.v(), total_stake_unit_supply.v()),
                    ret matches Ok(u) ==> u.v() == stake_units(xrd_amount.v(), total_stake_xrd_amount.v(), total_stake_unit_supply.v()),
                    ret matches Err(e) ==> e == computation_error(),
        @closure 1 := |amount: Decimal| -> (r: Option<Decimal>) ensures r == (if fits_dec(dec_mul(xrd_amount.v(), amount.v())) { Some(Decimal::of(dec_mul(xrd_amount.v(), amount.v()))) } else { None })
        @*/

        /*@fn radix-engine/src/blueprints/consensus_manager/validator.rs :: impl ValidatorBlueprint :: fn calculate_redemption_value
        @sig
            requires
                // the stake-unit resource is created with track_total_supply = true (ValidatorCreator::create_stake_unit_resource)
                old(api).ledger().total_supply[validator_substate.stake_unit_resource] is Some,
            ensures
                final(api).ledger() == old(api).ledger(),
                ({
                    let t = old(api).ledger().vault_amount[validator_substate.stake_xrd_vault_id].v();
                    let s = old(api).ledger().total_supply[validator_substate.stake_unit_resource]->Some_0.v();
                    &&& (ret matches Ok(x) ==> x.v() == redemption(amount_of_stake_units.v(), t, s) && redemption_ok(amount_of_stake_units.v(), t, s))
                    &&& (!redemption_ok(amount_of_stake_units.v(), t, s) ==> ret is Err)
                    // the only error of its own is the overflow error, raised only when the computation does overflow
                    &&& (ret matches Err(e) ==> (e.is_validator_error() ==> e == computation_error() && !redemption_ok(amount_of_stake_units.v(), t, s)))
                }),
        @closure 1 := |amount: Decimal| -> (r: Option<Decimal>) ensures r == (if fits_dec(dec_mul(amount_of_stake_units.v(), amount.v())) { Some(Decimal::of(dec_mul(amount_of_stake_units.v(), amount.v()))) } else { None })
        @*/
    }

    /*@fn radix-engine/src/blueprints/consensus_manager/validator.rs :: fn check_validator_fee_factor
    @sig
        ensures ret is Ok <==> 0 <= fee_factor.v() <= e18(),
                ret matches Err(e) ==> e == RuntimeError::ApplicationError(ApplicationError::ValidatorError(ValidatorError::InvalidValidatorFeeFactor)),
    @*/

    /*@fn radix-engine/src/blueprints/consensus_manager/validator.rs :: fn create_sort_prefix_from_stake
    @sig
        requires stake.v() >= 0,
        ensures ret matches Ok(b) && be16(b) == sort_prefix(stake.v()),
    @entry
        proof { lemma_sort_prefix_steps(stake.v()); }
    @closure 1 := |power: Decimal| -> (r: Option<Decimal>) ensures r == (if power.v() != 0 && fits_dec(dec_div(stake_100k.v(), power.v())) { Some(Decimal::of(dec_div(stake_100k.v(), power.v()))) } else { None })
    @subst <<.to_be_bytes()>> => <<.to_be_bytes_u16()>> why: Verus cannot attach a spec to u16::to_be_bytes (std signature has an anonymous-const array length); to_be_bytes_u16 in shims/decimal_validator_ext.rs is that call with the big-endian contract
    @*/
}
} // verus!
fn main() {}
