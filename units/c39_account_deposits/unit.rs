// Unit c39_account_deposits -- property C39 "Account deposit rules are enforced exactly"
// Real code: radix-engine/src/blueprints/account/blueprint.rs :: AccountBlueprint::{get_resource_preference,
//              does_vault_exist, get_default_deposit_rule, is_deposit_allowed,
//              validate_badge_is_authorized_depositor, validate_badge_is_present, deposit_batch,
//              try_deposit_or_refund, try_deposit_batch_or_refund, try_deposit_or_abort,
//              try_deposit_batch_or_abort}
// Environment (trusted, shims/sysapi_c39.rs): ghost-heap SystemApi (deposit-rule field, the three key-value
// collections), bucket reads, the auth-zone oracle behind Runtime::assert_access_rule, emit_event, and the
// assumed effect of AccountBlueprint::deposit (vault internals are not under contract).
use vstd::prelude::*;
verus! {
/*@include shims/rt.rs @*/
/*@include shims/try_from.rs @*/

pub mod env {
    use vstd::prelude::*;
    pub use super::shim_sysapi_c39::{ResourceAddress, NonFungibleGlobalId, NonFungibleLocalId, Decimal, IndexSet};

    /*@item radix-engine-interface/src/blueprints/account/invocations.rs :: enum ResourcePreference
    @derive Clone, Copy
    @*/
    /*@item radix-engine-interface/src/blueprints/account/invocations.rs :: enum DefaultDepositRule
    @derive Clone, Copy
    @*/
    /*@item radix-engine/src/blueprints/account/blueprint.rs :: struct AccountSubstate
    @derive
    @*/
    /*@item radix-engine/src/blueprints/account/blueprint.rs :: enum AccountError
    @derive
    @*/
    /*@item radix-engine/src/blueprints/account/blueprint.rs :: struct AccountBlueprint
    @*/
    /*@item radix-engine/src/blueprints/account/events.rs :: enum RejectedDepositEvent
    @derive
    @*/
    /*@item radix-engine-interface/src/blueprints/resource/proof_rule.rs :: enum ResourceOrNonFungible
    @derive
    @*/
    /*@item radix-engine-interface/src/blueprints/resource/proof_rule.rs :: enum BasicRequirement
    @derive
    @*/
    /*@item radix-engine-interface/src/blueprints/resource/proof_rule.rs :: enum CompositeRequirement
    @derive
    @*/
    /*@item radix-engine-interface/src/blueprints/resource/proof_rule.rs :: enum AccessRule
    @derive
    @*/
    /// radix-engine/src/errors.rs: only the variants the code under contract builds or that the assumed
    /// contracts name are spelled out
    pub enum ApplicationError { AccountError(AccountError), Other }
    pub enum SystemError { AssertAccessRuleFailed, Other }
    pub enum RuntimeError { ApplicationError(ApplicationError), SystemError(SystemError), Other }
    /// radix-common/src/constants/native_addresses.rs
    pub const XRD: ResourceAddress = ResourceAddress::new_or_panic(/*@expr-after radix-common/src/constants/native_addresses.rs :: const XRD :: <<new_or_panic(>> @*/);
}

/*@include shims/sysapi_c39.rs @*/

pub mod unit {
    use vstd::prelude::*;
    use super::rt::*;
    use super::env::*;
    use super::shim_sysapi_c39::*;
    broadcast use super::try_from::axiom_question_mark_calls_from;

    // `Result::unwrap` (the R5 image of `.expect(..)`) needs `E: Debug`: EncodeError derives it in the shim.

    // ------------------------------------------------------------------------------------------
    // ORACLE (from the property statement)
    // ------------------------------------------------------------------------------------------
    /// the explicit allow/deny preference recorded for resource r, if any
    pub open spec fn pref(h: Heap, r: ResourceAddress) -> Option<ResourcePreference> {
        if h.kv.contains_key((C_PREFS(), r.sbor())) { Some(h.kv[(C_PREFS(), r.sbor())]->Preference_0) } else { None }
    }
    /// the account's default deposit rule
    pub open spec fn default_rule(h: Heap) -> DefaultDepositRule { h.fields[I_RULE()]->DepositRule_0.default_deposit_rule }
    /// "resources the account already holds": a vault entry for r exists
    pub open spec fn vault_exists(h: Heap, r: ResourceAddress) -> bool { h.kv.contains_key((C_VAULTS(), r.sbor())) }
    /// C39: an explicit preference decides, otherwise the default rule
    pub open spec fn allowed(h: Heap, r: ResourceAddress) -> bool {
        match pref(h, r) {
            Some(ResourcePreference::Allowed) => true,
            Some(ResourcePreference::Disallowed) => false,
            None => match default_rule(h) {
                DefaultDepositRule::Accept => true,
                DefaultDepositRule::Reject => false,
                DefaultDepositRule::AllowExisting => r == XRD || vault_exists(h, r),
            },
        }
    }
    /// the badge is on the account's authorized-depositor list
    pub open spec fn listed(h: Heap, b: ResourceOrNonFungible) -> bool { h.kv.contains_key((C_DEPOSITORS(), b.sbor())) }
    /// the caller proves the badge: the rule `require(badge)` holds in the caller's auth zone
    pub open spec fn require_rule(b: ResourceOrNonFungible) -> AccessRule {
        AccessRule::Protected(CompositeRequirement::BasicRequirement(BasicRequirement::Require(b)))
    }
    pub open spec fn proven(a: AuthEnv, b: ResourceOrNonFungible) -> bool { rule_holds(a, require_rule(b)) }

    pub open spec fn account_error(e: AccountError) -> RuntimeError { RuntimeError::ApplicationError(ApplicationError::AccountError(e)) }

    impl vstd::std_specs::convert::FromSpecImpl<AccountError> for RuntimeError {
        open spec fn obeys_from_spec() -> bool { true }
        open spec fn from_spec(v: AccountError) -> RuntimeError { account_error(v) }
    }
    impl From<AccountError> for RuntimeError {
        /*@fn radix-engine/src/blueprints/account/blueprint.rs :: impl From<AccountError> for RuntimeError :: fn from
        @sig
            ensures ret == account_error(value)
        @*/
    }
    impl EventGhost for RejectedDepositEvent {
        open spec fn ghost_event(&self) -> GhostEvent {
            match *self {
                RejectedDepositEvent::Fungible(r, _) => GhostEvent::Rejected(r),
                RejectedDepositEvent::NonFungible(r, _) => GhostEvent::Rejected(r),
            }
        }
    }

    /// reads leave everything but (possibly, on Err) the open locks as it was
    pub open spec fn read_only<Y: SystemApi<RuntimeError>>(a: &Y, b: &Y, ok: bool) -> bool {
        &&& same_world(a, b)
        &&& (ok ==> b.fhandles() =~= a.fhandles() && b.khandles() =~= a.khandles())
    }

    impl AccountBlueprint {
        /*@fn radix-engine/src/blueprints/account/blueprint.rs :: impl AccountBlueprint :: fn get_resource_preference
        @sig
            requires typed(old(api).heap())
            ensures
                read_only(old(api), final(api), ret is Ok),
                ret matches Ok(p) ==> p == pref(old(api).heap(), *resource_address),
                ret matches Err(e) ==> env_error(e),
        @closure 1 := |v: AccountResourcePreferenceEntryPayload| -> (r: ResourcePreference) ensures r == v.content
        @*/

        /*@fn radix-engine/src/blueprints/account/blueprint.rs :: impl AccountBlueprint :: fn does_vault_exist
        @sig
            requires typed(old(api).heap())
            ensures
                read_only(old(api), final(api), ret is Ok),
                ret matches Ok(b) ==> b == vault_exists(old(api).heap(), *resource_address),
                ret matches Err(e) ==> env_error(e),
        @*/

        /*@fn radix-engine/src/blueprints/account/blueprint.rs :: impl AccountBlueprint :: fn get_default_deposit_rule
        @sig
            requires typed(old(api).heap())
            ensures
                read_only(old(api), final(api), ret is Ok),
                ret matches Ok(d) ==> d == default_rule(old(api).heap()),
                ret matches Err(e) ==> env_error(e),
        @*/

        /*@fn radix-engine/src/blueprints/account/blueprint.rs :: impl AccountBlueprint :: fn is_deposit_allowed
        @sig
            requires typed(old(api).heap())
            ensures
                read_only(old(api), final(api), ret is Ok),
                ret matches Ok(b) ==> b == allowed(old(api).heap(), *resource_address),
                ret matches Err(e) ==> env_error(e),
        @*/
    }
}
} // verus!
fn main() {}
