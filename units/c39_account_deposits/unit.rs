// Unit c39_account_deposits -- property C39 "Account deposit rules are enforced exactly"
// Real code: radix-engine/src/blueprints/account/blueprint.rs ::
//   AccountBlueprint::{get_resource_preference, does_vault_exist, get_default_deposit_rule, is_deposit_allowed,
//     validate_badge_is_authorized_depositor, validate_badge_is_present, deposit_batch, try_deposit_or_refund,
//     try_deposit_batch_or_refund, try_deposit_or_abort, try_deposit_batch_or_abort}
//   AccountBlueprintBottlenoseExtension::{try_deposit_or_refund, try_deposit_batch_or_refund}   (current dispatch)
//   impl From<AccountError> for RuntimeError :: from
// Environment (trusted, shims/sysapi_c39.rs): ghost-heap SystemApi (deposit-rule field, the three key-value
// collections), bucket reads, the auth-zone oracle behind Runtime::assert_access_rule, emit_event, and the
// assumed effect of AccountBlueprint::deposit (vault internals are not under contract).
// shims/iter_chain_c39.rs: std semantics of `.into_iter().filter_map(g).collect::<Vec<_>>()`.
// The ONLY non-catalogued rewrites (RX) are in the two try_deposit_batch_or_refund: the first half of the
// iterator chain, `buckets.iter().map(F).collect::<Result<Vec<_>,_>>()?` with F capturing `&mut api`, is
// rewritten into the loop std runs for it (Verus rejects closures capturing `&mut`); the bodies of the
// closures (`Self::is_deposit_allowed(&resource_address, api)`, `(bucket, can_be_deposited)`,
// `if !can_be_deposited { Some(Bucket(bucket.0)) } else { None }`) stay in place, verbatim.
use vstd::prelude::*;
verus! {
/*@include shims/rt.rs @*/
/*@include shims/try_from.rs @*/
/*@include shims/iter_chain_c39.rs @*/

pub mod env {
    use vstd::prelude::*;
    pub use super::shim_sysapi_c39::{NodeId, ResourceAddress, NonFungibleGlobalId, NonFungibleLocalId, Decimal, IndexSet};

    /*@item radix-engine-interface/src/blueprints/account/invocations.rs :: enum ResourcePreference
    @derive Clone, Copy
    @*/
    /*@item radix-engine-interface/src/blueprints/account/invocations.rs :: enum DefaultDepositRule
    @derive Clone, Copy
    @*/
    /*@item radix-engine/src/blueprints/account/blueprint.rs :: struct AccountSubstate
    @derive
    @*/
    /*@item radix-engine/src/blueprints/account/blueprint.rs :: enum AccountError
    @derive
    @*/
    /*@item radix-engine/src/blueprints/account/blueprint.rs :: struct AccountBlueprint
    @*/
    /*@item radix-engine/src/blueprints/account/blueprint.rs :: struct AccountBlueprintBottlenoseExtension
    @*/
    /*@item radix-engine/src/blueprints/account/events.rs :: enum RejectedDepositEvent
    @derive
    @*/
    /*@item radix-engine-interface/src/blueprints/resource/proof_rule.rs :: enum ResourceOrNonFungible
    @derive
    @*/
    /*@item radix-engine-interface/src/blueprints/resource/proof_rule.rs :: enum BasicRequirement
    @derive
    @*/
    /*@item radix-engine-interface/src/blueprints/resource/proof_rule.rs :: enum CompositeRequirement
    @derive
    @*/
    /*@item radix-engine-interface/src/blueprints/resource/proof_rule.rs :: enum AccessRule
    @derive
    @*/
    /// radix-engine/src/errors.rs: only the variants the code under contract builds or that the assumed
    /// contracts name are spelled out
    pub enum ApplicationError { AccountError(AccountError), Other }
    pub enum SystemError { AssertAccessRuleFailed, Other }
    pub enum RuntimeError { ApplicationError(ApplicationError), SystemError(SystemError), Other }
    /// radix-common/src/constants/native_addresses.rs
    pub const XRD: ResourceAddress = ResourceAddress(NodeId(/*@expr-after radix-common/src/constants/native_addresses.rs :: const XRD :: <<new_or_panic(>> @*/));
}

/*@include shims/sysapi_c39.rs @*/

pub mod unit {
    use vstd::prelude::*;
    use super::rt::*;
    use super::env::*;
    use super::shim_sysapi_c39::*;
    use super::shim_iter_chain_c39::*;
    broadcast use super::try_from::axiom_question_mark_calls_from;

    // `Result::unwrap` (the R5 image of `.expect(..)`) needs `E: Debug`: EncodeError derives it in the shim.

    // ------------------------------------------------------------------------------------------
    // ORACLE (from the property statement)
    // ------------------------------------------------------------------------------------------
    /// the explicit allow/deny preference recorded for resource r, if any
    pub open spec fn pref(h: Heap, r: ResourceAddress) -> Option<ResourcePreference> {
        if h.kv.contains_key((C_PREFS(), r.sbor())) { Some(h.kv[(C_PREFS(), r.sbor())]->Preference_0) } else { None }
    }
    /// the account's default deposit rule
    pub open spec fn default_rule(h: Heap) -> DefaultDepositRule { h.fields[I_RULE()]->DepositRule_0.default_deposit_rule }
    /// "resources the account already holds": a vault entry for r exists
    pub open spec fn vault_exists(h: Heap, r: ResourceAddress) -> bool { h.kv.contains_key((C_VAULTS(), r.sbor())) }
    /// C39: an explicit preference decides, otherwise the default rule
    pub open spec fn allowed(h: Heap, r: ResourceAddress) -> bool {
        match pref(h, r) {
            Some(ResourcePreference::Allowed) => true,
            Some(ResourcePreference::Disallowed) => false,
            None => match default_rule(h) {
                DefaultDepositRule::Accept => true,
                DefaultDepositRule::Reject => false,
                DefaultDepositRule::AllowExisting => r == XRD || vault_exists(h, r),
            },
        }
    }
    /// the badge is on the account's authorized-depositor list
    pub open spec fn listed(h: Heap, b: ResourceOrNonFungible) -> bool { h.kv.contains_key((C_DEPOSITORS(), b.sbor())) }
    /// the caller proves the badge: the rule `require(badge)` holds in the caller's auth zone
    pub open spec fn require_rule(b: ResourceOrNonFungible) -> AccessRule {
        AccessRule::Protected(CompositeRequirement::BasicRequirement(BasicRequirement::Require(b)))
    }
    pub open spec fn proven(a: AuthEnv, b: ResourceOrNonFungible) -> bool { rule_holds(a, require_rule(b)) }

    pub open spec fn account_error(e: AccountError) -> RuntimeError { RuntimeError::ApplicationError(ApplicationError::AccountError(e)) }

    impl vstd::std_specs::convert::FromSpecImpl<AccountError> for RuntimeError {
        open spec fn obeys_from_spec() -> bool { true }
        open spec fn from_spec(v: AccountError) -> RuntimeError { account_error(v) }
    }
    impl From<AccountError> for RuntimeError {
        /*@fn radix-engine/src/blueprints/account/blueprint.rs :: impl From<AccountError> for RuntimeError :: fn from
        @sig
            ensures ret == account_error(value)
        @*/
    }
    impl EventGhost for RejectedDepositEvent {
        open spec fn ghost_event(&self) -> GhostEvent {
            match *self {
                RejectedDepositEvent::Fungible(r, _) => GhostEvent::Rejected(r),
                RejectedDepositEvent::NonFungible(r, _) => GhostEvent::Rejected(r),
            }
        }
    }

    /// reads leave everything but (possibly, on Err) the open locks as it was
    pub open spec fn read_only<Y: SystemApi<RuntimeError>>(a: &Y, b: &Y, ok: bool) -> bool {
        &&& b.world() == a.world()
        &&& (ok ==> b.fhandles() =~= a.fhandles() && b.khandles() =~= a.khandles())
    }

    /// C39: what lets a single guarded deposit go through
    pub open spec fn permitted(w: World, r: ResourceAddress, badge: Option<ResourceOrNonFungible>) -> bool {
        allowed(w.heap, r) || badge_ok(w, badge)
    }
    pub open spec fn all_allowed(h: Heap, bs: Seq<Bucket>) -> bool {
        forall|i: int| 0 <= i < bs.len() ==> allowed(h, bucket_resource(#[trigger] bs[i]))
    }
    /// C39: what lets a guarded batch deposit go through (judged on the state BEFORE anything is deposited)
    pub open spec fn batch_permitted(w: World, bs: Seq<Bucket>, badge: Option<ResourceOrNonFungible>) -> bool {
        all_allowed(w.heap, bs) || badge_ok(w, badge)
    }
    /// the world after a refusal that refunds: nothing but the RejectedDepositEvent log entries
    pub open spec fn refused(a: World, b: World, rejected: Seq<GhostEvent>) -> bool {
        b.heap == a.heap && b.auth == a.auth && b.deposited == a.deposited && b.events =~= a.events + rejected
    }
    /// a badge is named and it is both listed and proven
    pub open spec fn badge_ok(w: World, badge: Option<ResourceOrNonFungible>) -> bool {
        badge matches Some(b) && listed(w.heap, b) && proven(w.auth, b)
    }
    /// a badge is named, it is not listed, and `e` says so
    pub open spec fn unlisted_badge(w: World, badge: Option<ResourceOrNonFungible>, e: RuntimeError) -> bool {
        badge matches Some(b) && !listed(w.heap, b) && e == not_a_depositor(b)
    }
    /// a badge is named, it is listed, but not proven
    pub open spec fn unproven_badge(w: World, badge: Option<ResourceOrNonFungible>) -> bool {
        badge matches Some(b) && listed(w.heap, b) && !proven(w.auth, b)
    }
    /// no badge is named, or the named badge is not on the list
    pub open spec fn no_listed_badge(w: World, badge: Option<ResourceOrNonFungible>) -> bool {
        match badge { None => true, Some(b) => !listed(w.heap, b) }
    }
    pub open spec fn not_a_depositor(b: ResourceOrNonFungible) -> RuntimeError {
        account_error(AccountError::NotAnAuthorizedDepositor { depositor: b })
    }

    /// the buckets of a batch whose resource is not allowed, in batch order
    pub open spec fn offending(h: Heap, bs: Seq<Bucket>) -> Seq<Bucket>
        decreases bs.len()
    {
        if bs.len() == 0 { Seq::<Bucket>::empty() } else {
            let p = offending(h, bs.drop_last());
            if !allowed(h, bucket_resource(bs.last())) { p.push(bs.last()) } else { p }
        }
    }
    /// one RejectedDepositEvent per refused bucket, naming its resource
    pub open spec fn rejected_events(bs: Seq<Bucket>) -> Seq<GhostEvent> { rejected_upto(bs, bs.len()) }
    pub open spec fn rejected_upto(bs: Seq<Bucket>, n: nat) -> Seq<GhostEvent> {
        Seq::new(n, |i: int| GhostEvent::Rejected(bucket_resource(bs[i])))
    }
    pub proof fn lemma_offending_empty(h: Heap, bs: Seq<Bucket>)
        ensures (offending(h, bs).len() == 0) <==> all_allowed(h, bs)
        decreases bs.len()
    {
        if bs.len() > 0 {
            lemma_offending_empty(h, bs.drop_last());
            if all_allowed(h, bs) {
                assert forall|i: int| 0 <= i < bs.drop_last().len() implies allowed(h, bucket_resource(#[trigger] bs.drop_last()[i])) by {
                    assert(bs.drop_last()[i] == bs[i]);
                }
                assert(bs.last() == bs[bs.len() - 1]);
            }
            if offending(h, bs).len() == 0 {
                assert forall|i: int| 0 <= i < bs.len() implies allowed(h, bucket_resource(#[trigger] bs[i])) by {
                    if i < bs.len() - 1 { assert(bs.drop_last()[i] == bs[i]); }
                }
            }
        }
    }
    /// what the `(bucket, can_be_deposited)` pairs of the first pass look like
    pub open spec fn pairs_of(h: Heap, bs: Seq<Bucket>, ps: Seq<(&Bucket, bool)>) -> bool {
        &&& ps.len() == bs.len()
        &&& forall|j: int| 0 <= j < ps.len() ==> *(#[trigger] ps[j]).0 == bs[j] && ps[j].1 == allowed(h, bucket_resource(bs[j]))
    }
    /// the closure of the real `filter_map`, as a function: keep the bucket iff it cannot be deposited
    pub open spec fn keep_refused<'a>() -> spec_fn((&'a Bucket, bool)) -> Option<Bucket> {
        |p: (&'a Bucket, bool)| if !p.1 { Some(*p.0) } else { None::<Bucket> }
    }
    /// filter_map over the pairs with that function yields `offending`
    pub proof fn lemma_filter_is_offending(h: Heap, bs: Seq<Bucket>, ps: Seq<(&Bucket, bool)>)
        requires pairs_of(h, bs, ps)
        ensures filter_map_spec(ps, keep_refused()) =~= offending(h, bs)
        decreases bs.len()
    {
        if bs.len() > 0 {
            let ps1 = ps.drop_last();
            let bs1 = bs.drop_last();
            assert(pairs_of(h, bs1, ps1)) by {
                assert forall|j: int| 0 <= j < ps1.len() implies *(#[trigger] ps1[j]).0 == bs1[j] && ps1[j].1 == allowed(h, bucket_resource(bs1[j])) by {
                    assert(ps1[j] == ps[j]);
                }
            }
            assert(ps.last() == ps[ps.len() - 1]);
            lemma_filter_is_offending(h, bs1, ps1);
        }
    }
    // ------------------------------------------------------------------------------------------
    // frame lemmas
    // ------------------------------------------------------------------------------------------
    pub proof fn lemma_frame_refl(a: Heap, bs: Seq<Bucket>)
        ensures only_vaults_of(a, a, bs)
    {}
    /// frames compose: after the buckets `bs`, one more deposit of `x`
    pub proof fn lemma_frame_step(a: Heap, b: Heap, c: Heap, bs: Seq<Bucket>, x: Bucket)
        requires only_vaults_of(a, b, bs), only_vaults_of(b, c, seq![x])
        ensures only_vaults_of(a, c, bs.push(x))
    {
        let bs2 = bs.push(x);
        assert forall|k: KvKey| #[trigger] c.kv.contains_key(k) && !a.kv.contains_key(k) implies is_vault_key_of(k, bs2) by {
            if b.kv.contains_key(k) {
                assert(is_vault_key_of(k, bs));
                let i = choose|i: int| 0 <= i < bs.len() && k == (C_VAULTS(), bucket_resource(#[trigger] bs[i]).sbor());
                assert(bs2[i] == bs[i]);
            } else {
                assert(is_vault_key_of(k, seq![x]));
                let i = choose|i: int| 0 <= i < seq![x].len() && k == (C_VAULTS(), bucket_resource(#[trigger] seq![x][i]).sbor());
                assert(bs2[bs.len() as int] == x);
            }
        }
        assert forall|k: KvKey| a.kv.contains_key(k) implies #[trigger] c.kv.contains_key(k) && c.kv[k] == a.kv[k] by {
            assert(b.kv.contains_key(k));
        }
    }
    /// a frame for a prefix of the batch is a frame for the batch
    pub proof fn lemma_frame_prefix(a: Heap, c: Heap, bs: Seq<Bucket>, n: int)
        requires 0 <= n <= bs.len(), only_vaults_of(a, c, bs.take(n))
        ensures only_vaults_of(a, c, bs)
    {
        assert forall|k: KvKey| #[trigger] c.kv.contains_key(k) && !a.kv.contains_key(k) implies is_vault_key_of(k, bs) by {
            assert(is_vault_key_of(k, bs.take(n)));
            let i = choose|i: int| 0 <= i < bs.take(n).len() && k == (C_VAULTS(), bucket_resource(#[trigger] bs.take(n)[i]).sbor());
            assert(bs[i] == bs.take(n)[i]);
        }
    }
    /// vault entries, once there, stay
    pub proof fn lemma_vault_stays(a: Heap, b: Heap, bs: Seq<Bucket>, r: ResourceAddress)
        requires only_vaults_of(a, b, bs), vault_exists(a, r)
        ensures vault_exists(b, r)
    {
        assert(b.kv.contains_key((C_VAULTS(), r.sbor())));
    }

    impl AccountBlueprint {
        /*@fn radix-engine/src/blueprints/account/blueprint.rs :: impl AccountBlueprint :: fn get_resource_preference
        @sig
            requires typed(old(api).world().heap)
            ensures
                read_only(old(api), final(api), ret is Ok),
                ret matches Ok(p) ==> p == pref(old(api).world().heap, *resource_address),
                ret matches Err(e) ==> env_error(e),
        @closure 1 := |v: AccountResourcePreferenceEntryPayload| -> (r: ResourcePreference) ensures r == v.content
        @*/

        /*@fn radix-engine/src/blueprints/account/blueprint.rs :: impl AccountBlueprint :: fn does_vault_exist
        @sig
            requires typed(old(api).world().heap)
            ensures
                read_only(old(api), final(api), ret is Ok),
                ret matches Ok(b) ==> b == vault_exists(old(api).world().heap, *resource_address),
                ret matches Err(e) ==> env_error(e),
        @*/

        /*@fn radix-engine/src/blueprints/account/blueprint.rs :: impl AccountBlueprint :: fn get_default_deposit_rule
        @sig
            requires typed(old(api).world().heap)
            ensures
                read_only(old(api), final(api), ret is Ok),
                ret matches Ok(d) ==> d == default_rule(old(api).world().heap),
                ret matches Err(e) ==> env_error(e),
        @*/

        /*@fn radix-engine/src/blueprints/account/blueprint.rs :: impl AccountBlueprint :: fn is_deposit_allowed
        @sig
            requires typed(old(api).world().heap)
            ensures
                read_only(old(api), final(api), ret is Ok),
                ret matches Ok(b) ==> b == allowed(old(api).world().heap, *resource_address),
                ret matches Err(e) ==> env_error(e),
        @*/
        /*@fn radix-engine/src/blueprints/account/blueprint.rs :: impl AccountBlueprint :: fn validate_badge_is_authorized_depositor
        @sig
            requires typed(old(api).world().heap)
            ensures
                read_only(old(api), final(api), ret is Ok),
                ret matches Ok(Ok(_)) ==> listed(old(api).world().heap, *badge),
                ret matches Ok(Err(e)) ==> !listed(old(api).world().heap, *badge)
                    && e == (AccountError::NotAnAuthorizedDepositor { depositor: *badge }),
                ret matches Err(e) ==> env_error(e),
        @*/

        /*@fn radix-engine/src/blueprints/account/blueprint.rs :: impl AccountBlueprint :: fn validate_badge_is_present
        @sig
            ensures
                read_only(old(api), final(api), true),
                ret is Ok ==> proven(old(api).world().auth, badge),
                ret matches Err(e) ==> !e.is_account_error()
                    && (e.is_assert_access_rule_failed() ==> !proven(old(api).world().auth, badge)),
        @*/

        /*@fn radix-engine/src/blueprints/account/blueprint.rs :: impl AccountBlueprint :: fn deposit_batch
        @sig
            requires typed(old(api).world().heap)
            ensures
                typed(final(api).world().heap),
                only_vaults_of(old(api).world().heap, final(api).world().heap, buckets@),
                final(api).world().auth == old(api).world().auth,
                // every bucket is deposited, in order
                ret is Ok ==> final(api).world().deposited =~= old(api).world().deposited + buckets@,
                ret is Ok ==> forall|j: int| 0 <= j < buckets@.len() ==> vault_exists(final(api).world().heap, bucket_resource(#[trigger] buckets@[j])),
                ret is Ok ==> final(api).fhandles() =~= old(api).fhandles() && final(api).khandles() =~= old(api).khandles(),
                ret matches Err(e) ==> env_error(e),
        @entry
            let ghost bs = buckets@;
            proof { lemma_frame_refl(api.world().heap, bs.take(0)); }
        @loop 1 iter it
            invariant
                bs == buckets@,
                typed(api.world().heap),
                only_vaults_of(old(api).world().heap, api.world().heap, bs.take(it.index@ as int)),
                api.world().auth == old(api).world().auth,
                api.world().deposited =~= old(api).world().deposited + bs.take(it.index@ as int),
                forall|j: int| 0 <= j < it.index@ ==> vault_exists(api.world().heap, bucket_resource(#[trigger] bs[j])),
                api.fhandles() =~= old(api).fhandles() && api.khandles() =~= old(api).khandles(),
        @before <<Self::deposit(bucket, api)>> #1
            let ghost h1 = api.world().heap;
            let ghost i = it.index@ as int;
            proof {
                assert(bs.take(i + 1) =~= bs.take(i).push(bucket));
                assert forall|c: Heap| #[trigger] only_vaults_of(h1, c, seq![bucket]) implies
                    only_vaults_of(old(api).world().heap, c, bs.take(i + 1)) && only_vaults_of(old(api).world().heap, c, bs)
                    && (forall|j: int| 0 <= j < i ==> vault_exists(c, bucket_resource(#[trigger] bs[j]))) by {
                    lemma_frame_step(old(api).world().heap, h1, c, bs.take(i), bucket);
                    lemma_frame_prefix(old(api).world().heap, c, bs, i + 1);
                    assert forall|j: int| 0 <= j < i implies vault_exists(c, bucket_resource(#[trigger] bs[j])) by {
                        lemma_vault_stays(h1, c, seq![bucket], bucket_resource(bs[j]));
                    }
                }
            }
        @before <<Ok(())>> #1
            proof { assert(bs.take(bs.len() as int) =~= bs); }
        @*/

        /*@fn radix-engine/src/blueprints/account/blueprint.rs :: impl AccountBlueprint :: fn try_deposit_or_refund
        @sig
            requires typed(old(api).world().heap)
            ensures
                typed(final(api).world().heap),
                // whatever the outcome: only the vault entry of the bucket's resource can change
                only_vaults_of(old(api).world().heap, final(api).world().heap, seq![bucket]),
                final(api).world().auth == old(api).world().auth,
                ret is Ok ==> final(api).fhandles() =~= old(api).fhandles() && final(api).khandles() =~= old(api).khandles(),
                // C39: Ok ==> (deposited <==> allowed, or a listed badge is named and proven)
                ret is Ok ==> (ret matches Ok(None) <==> permitted(old(api).world(), bucket_resource(bucket), authorized_depositor_badge)),
                ret matches Ok(None) ==> final(api).world().deposited == old(api).world().deposited.push(bucket)
                    && vault_exists(final(api).world().heap, bucket_resource(bucket)),
                // C39: otherwise nothing is deposited and the bucket comes back untouched
                ret matches Ok(Some(b)) ==> b == bucket && authorized_depositor_badge is None
                    && refused(old(api).world(), final(api).world(), seq![GhostEvent::Rejected(bucket_resource(bucket))]),
                // C39: refused and a badge is named that is not (listed and proven) ==> the call fails
                !allowed(old(api).world().heap, bucket_resource(bucket)) && authorized_depositor_badge is Some
                    && !badge_ok(old(api).world(), authorized_depositor_badge) ==> ret is Err,
                // the blueprint's own refusals happen only for that reason, with nothing changed
                ret matches Err(e) ==> (e.is_account_error() ==> !allowed(old(api).world().heap, bucket_resource(bucket))
                    && unlisted_badge(old(api).world(), authorized_depositor_badge, e)
                    && final(api).world() == old(api).world()),
                ret matches Err(e) ==> (e.is_assert_access_rule_failed() ==> !allowed(old(api).world().heap, bucket_resource(bucket))
                    && unproven_badge(old(api).world(), authorized_depositor_badge)
                    && final(api).world() == old(api).world()),
        @*/

        /*@fn radix-engine/src/blueprints/account/blueprint.rs :: impl AccountBlueprint :: fn try_deposit_batch_or_refund
        @sig
            requires typed(old(api).world().heap)
            ensures
                typed(final(api).world().heap),
                // whatever the outcome: only vault entries of the batch's resources can change
                only_vaults_of(old(api).world().heap, final(api).world().heap, buckets@),
                final(api).world().auth == old(api).world().auth,
                ret is Ok ==> final(api).fhandles() =~= old(api).fhandles() && final(api).khandles() =~= old(api).khandles(),
                // C39: Ok ==> (everything deposited <==> every bucket allowed, or a listed badge is named and proven)
                ret is Ok ==> (ret matches Ok(None) <==> batch_permitted(old(api).world(), buckets@, authorized_depositor_badge)),
                ret matches Ok(None) ==> final(api).world().deposited =~= old(api).world().deposited + buckets@
                    && (forall|j: int| 0 <= j < buckets@.len() ==> vault_exists(final(api).world().heap, bucket_resource(#[trigger] buckets@[j]))),
                // C39: otherwise nothing is deposited and ALL buckets come back untouched
                ret matches Ok(Some(v)) ==> v == buckets && authorized_depositor_badge is None
                    && refused(old(api).world(), final(api).world(), rejected_events(offending(old(api).world().heap, buckets@))),
                // C39: a bucket is refused and a badge is named that is not (listed and proven) ==> the call fails
                !all_allowed(old(api).world().heap, buckets@) && authorized_depositor_badge is Some
                    && !badge_ok(old(api).world(), authorized_depositor_badge) ==> ret is Err,
                // the blueprint's own refusals happen only for that reason, with nothing changed
                ret matches Err(e) ==> (e.is_account_error() ==> !all_allowed(old(api).world().heap, buckets@)
                    && unlisted_badge(old(api).world(), authorized_depositor_badge, e)
                    && final(api).world() == old(api).world()),
                ret matches Err(e) ==> (e.is_assert_access_rule_failed() ==> !all_allowed(old(api).world().heap, buckets@)
                    && unproven_badge(old(api).world(), authorized_depositor_badge)
                    && final(api).world() == old(api).world()),
        @subst <<buckets .iter() .map(|bucket| {>> => <<{ let mut c39_pairs: Collected<(&Bucket, bool)> = Collected::new(); for bucket in c39_it: buckets.iter() invariant api.world() == old(api).world(), api.fhandles() =~= old(api).fhandles(), api.khandles() =~= old(api).khandles(), typed(api.world().heap), c39_pairs.seq().len() == c39_it.index@, pairs_of(old(api).world().heap, buckets@.take(c39_it.index@ as int), c39_pairs.seq()), { let c39_item = {>> why: Verus rejects closures capturing `&mut` (api) and has no iterator adapters; `iter().map(F).collect::<Result<Vec<_>,_>>()?` is rewritten into the loop std runs for it (F on each element in order, first Err returned, Ok payloads gathered in order); the body of F stays in place
        @subst <<bucket .resource_address(api) .and_then(|resource_address|>> => <<(match bucket.resource_address(api) { Err(c39_e) => Err(c39_e), Ok(resource_address) =>>> why: `r.and_then(|x| e)` with a closure capturing `&mut api` is unfolded to its definition `match r { Ok(x) => e, Err(e) => Err(e) }`; the call `Self::is_deposit_allowed(&resource_address, api)` stays verbatim
        @subst <<) .map(|can_be_deposited|>> => <<}) .map(|can_be_deposited: bool| -> (r: (&Bucket, bool)) ensures r == (bucket, can_be_deposited) {>> why: closes the unfolded match; the closure gets its Verus signature (what @closure does) and a braced body
        @subst <<) }) .collect::<Result<Vec<_>, _>>()? .into_iter()>> => <<}) }; c39_pairs.push(c39_item?); proof { assert(buckets@.take(c39_it.index@ as int + 1) =~= buckets@.take(c39_it.index@ as int).push(*bucket)); } } proof { assert(buckets@.take(buckets@.len() as int) =~= buckets@); } proof { c39_ps = c39_pairs.seq(); } c39_pairs } .into_iter()>> why: end of the loop that stands for map+collect: `?` on each item (first Err returned), payload pushed; the gathered pairs then go through the verbatim `.into_iter().filter_map(..).collect()`
        @before <<let offending_buckets>> #1
            let ghost mut c39_ps: Seq<(&Bucket, bool)> = Seq::empty();
        @after <<.collect::<Vec<_>>()>> #1
            let ghost ob = offending_buckets@;
            proof {
                assert(ob == filter_map_spec(c39_ps, keep_refused()));
                lemma_filter_is_offending(old(api).world().heap, buckets@, c39_ps);
                lemma_offending_empty(old(api).world().heap, buckets@);
            }
        @loop 1 iter it
            invariant
                ob == offending_buckets@,
                typed(api.world().heap),
                api.world().heap == old(api).world().heap, api.world().auth == old(api).world().auth,
                api.world().deposited == old(api).world().deposited,
                api.world().events =~= old(api).world().events + rejected_upto(ob, it.index@ as nat),
                api.fhandles() =~= old(api).fhandles() && api.khandles() =~= old(api).khandles(),
        @subst <<.filter_map(|(bucket, can_be_deposited)| {>> => <<.filter_map(|c39_p: (&Bucket, bool)| -> (r: Option<Bucket>) ensures r == (if !c39_p.1 { Some(*c39_p.0) } else { None::<Bucket> }) { let (bucket, can_be_deposited) = c39_p;>> why: Verus supports only plain variables as closure parameters; the tuple pattern of the parameter becomes a `let` at the start of the (verbatim) body, and the closure gets its Verus signature
        @*/

        /*@fn radix-engine/src/blueprints/account/blueprint.rs :: impl AccountBlueprint :: fn try_deposit_or_abort
        @sig
            requires typed(old(api).world().heap)
            ensures
                typed(final(api).world().heap),
                only_vaults_of(old(api).world().heap, final(api).world().heap, seq![bucket]),
                final(api).world().auth == old(api).world().auth,
                // C39: Ok ==> permitted and deposited;  not permitted ==> the call fails
                ret is Ok ==> permitted(old(api).world(), bucket_resource(bucket), authorized_depositor_badge)
                    && final(api).world().deposited == old(api).world().deposited.push(bucket)
                    && vault_exists(final(api).world().heap, bucket_resource(bucket))
                    && final(api).fhandles() =~= old(api).fhandles() && final(api).khandles() =~= old(api).khandles(),
                !permitted(old(api).world(), bucket_resource(bucket), authorized_depositor_badge) ==> ret is Err,
                // the blueprint's own refusals: only when the deposit is not allowed, nothing deposited
                ret matches Err(e) ==> (e.is_account_error() ==> !allowed(old(api).world().heap, bucket_resource(bucket))
                    && final(api).world().heap == old(api).world().heap && final(api).world().deposited == old(api).world().deposited
                    && (if authorized_depositor_badge is None { e == account_error(AccountError::DepositIsDisallowed { resource_address: bucket_resource(bucket) }) }
                        else { unlisted_badge(old(api).world(), authorized_depositor_badge, e) })),
                ret matches Err(e) ==> (e.is_assert_access_rule_failed() ==> !allowed(old(api).world().heap, bucket_resource(bucket))
                    && unproven_badge(old(api).world(), authorized_depositor_badge)
                    && final(api).world() == old(api).world()),
        @*/
        /*@fn radix-engine/src/blueprints/account/blueprint.rs :: impl AccountBlueprint :: fn try_deposit_batch_or_abort
        @sig
            requires typed(old(api).world().heap)
            ensures
                typed(final(api).world().heap),
                only_vaults_of(old(api).world().heap, final(api).world().heap, buckets@),
                final(api).world().auth == old(api).world().auth,
                // C39: Ok ==> permitted and everything deposited;  not permitted ==> the call fails
                ret is Ok ==> batch_permitted(old(api).world(), buckets@, authorized_depositor_badge)
                    && final(api).world().deposited =~= old(api).world().deposited + buckets@
                    && (forall|j: int| 0 <= j < buckets@.len() ==> vault_exists(final(api).world().heap, bucket_resource(#[trigger] buckets@[j])))
                    && final(api).fhandles() =~= old(api).fhandles() && final(api).khandles() =~= old(api).khandles(),
                !batch_permitted(old(api).world(), buckets@, authorized_depositor_badge) ==> ret is Err,
                // the blueprint's own refusals: only when some bucket is not allowed, nothing deposited
                ret matches Err(e) ==> (e.is_account_error() ==> !all_allowed(old(api).world().heap, buckets@)
                    && final(api).world().heap == old(api).world().heap && final(api).world().deposited == old(api).world().deposited
                    && (if authorized_depositor_badge is None { e == account_error(AccountError::NotAllBucketsCouldBeDeposited) }
                        else { unlisted_badge(old(api).world(), authorized_depositor_badge, e) })),
                ret matches Err(e) ==> (e.is_assert_access_rule_failed() ==> !all_allowed(old(api).world().heap, buckets@)
                    && unproven_badge(old(api).world(), authorized_depositor_badge)
                    && final(api).world() == old(api).world()),
        @*/
    }

    // ------------------------------------------------------------------------------------------
    // Bottlenose versions of the two refund methods (dispatched by AccountBlueprintBottlenoseExtension::
    // invoke_export): a named badge that is NOT on the list no longer fails the call, it refunds
    // ------------------------------------------------------------------------------------------
    impl AccountBlueprintBottlenoseExtension {
        /*@fn radix-engine/src/blueprints/account/blueprint.rs :: impl AccountBlueprintBottlenoseExtension :: fn try_deposit_or_refund
        @sig
            requires typed(old(api).world().heap)
            ensures
                typed(final(api).world().heap),
                only_vaults_of(old(api).world().heap, final(api).world().heap, seq![bucket]),
                final(api).world().auth == old(api).world().auth,
                ret is Ok ==> final(api).fhandles() =~= old(api).fhandles() && final(api).khandles() =~= old(api).khandles(),
                // C39: Ok ==> (deposited <==> allowed, or a listed badge is named and proven)
                ret is Ok ==> (ret matches Ok(None) <==> permitted(old(api).world(), bucket_resource(bucket), authorized_depositor_badge)),
                ret matches Ok(None) ==> final(api).world().deposited == old(api).world().deposited.push(bucket)
                    && vault_exists(final(api).world().heap, bucket_resource(bucket)),
                // C39: otherwise nothing is deposited and the bucket comes back untouched
                ret matches Ok(Some(b)) ==> b == bucket && no_listed_badge(old(api).world(), authorized_depositor_badge)
                    && refused(old(api).world(), final(api).world(), seq![GhostEvent::Rejected(bucket_resource(bucket))]),
                // C39: refused and the named LISTED badge is not proven ==> the call fails
                !allowed(old(api).world().heap, bucket_resource(bucket)) && unproven_badge(old(api).world(), authorized_depositor_badge) ==> ret is Err,
                // the only refusal by error is that one, with nothing changed; no AccountError is ever raised
                ret matches Err(e) ==> !e.is_account_error(),
                ret matches Err(e) ==> (e.is_assert_access_rule_failed() ==> !allowed(old(api).world().heap, bucket_resource(bucket))
                    && unproven_badge(old(api).world(), authorized_depositor_badge)
                    && final(api).world() == old(api).world()),
        @*/

        /*@fn radix-engine/src/blueprints/account/blueprint.rs :: impl AccountBlueprintBottlenoseExtension :: fn try_deposit_batch_or_refund
        @sig
            requires typed(old(api).world().heap)
            ensures
                typed(final(api).world().heap),
                // whatever the outcome: only vault entries of the batch's resources can change
                only_vaults_of(old(api).world().heap, final(api).world().heap, buckets@),
                final(api).world().auth == old(api).world().auth,
                ret is Ok ==> final(api).fhandles() =~= old(api).fhandles() && final(api).khandles() =~= old(api).khandles(),
                // C39: Ok ==> (everything deposited <==> every bucket allowed, or a listed badge is named and proven)
                ret is Ok ==> (ret matches Ok(None) <==> batch_permitted(old(api).world(), buckets@, authorized_depositor_badge)),
                ret matches Ok(None) ==> final(api).world().deposited =~= old(api).world().deposited + buckets@
                    && (forall|j: int| 0 <= j < buckets@.len() ==> vault_exists(final(api).world().heap, bucket_resource(#[trigger] buckets@[j]))),
                // C39: otherwise nothing is deposited and ALL buckets come back untouched
                ret matches Ok(Some(v)) ==> v == buckets && no_listed_badge(old(api).world(), authorized_depositor_badge)
                    && refused(old(api).world(), final(api).world(), rejected_events(offending(old(api).world().heap, buckets@))),
                // C39: a bucket is refused and the named LISTED badge is not proven ==> the call fails
                !all_allowed(old(api).world().heap, buckets@) && unproven_badge(old(api).world(), authorized_depositor_badge) ==> ret is Err,
                // the only refusal by error is that one, with nothing changed; no AccountError is ever raised
                ret matches Err(e) ==> !e.is_account_error(),
                ret matches Err(e) ==> (e.is_assert_access_rule_failed() ==> !all_allowed(old(api).world().heap, buckets@)
                    && unproven_badge(old(api).world(), authorized_depositor_badge)
                    && final(api).world() == old(api).world()),
        @subst <<buckets .iter() .map(|bucket| {>> => <<{ let mut c39_pairs: Collected<(&Bucket, bool)> = Collected::new(); for bucket in c39_it: buckets.iter() invariant api.world() == old(api).world(), api.fhandles() =~= old(api).fhandles(), api.khandles() =~= old(api).khandles(), typed(api.world().heap), c39_pairs.seq().len() == c39_it.index@, pairs_of(old(api).world().heap, buckets@.take(c39_it.index@ as int), c39_pairs.seq()), { let c39_item = {>> why: Verus rejects closures capturing `&mut` (api) and has no iterator adapters; `iter().map(F).collect::<Result<Vec<_>,_>>()?` is rewritten into the loop std runs for it (F on each element in order, first Err returned, Ok payloads gathered in order); the body of F stays in place
        @subst <<bucket .resource_address(api) .and_then(|resource_address|>> => <<(match bucket.resource_address(api) { Err(c39_e) => Err(c39_e), Ok(resource_address) =>>> why: `r.and_then(|x| e)` with a closure capturing `&mut api` is unfolded to its definition `match r { Ok(x) => e, Err(e) => Err(e) }`; the call `AccountBlueprint::is_deposit_allowed(&resource_address, api)` stays verbatim
        @subst <<) .map(|can_be_deposited|>> => <<}) .map(|can_be_deposited: bool| -> (r: (&Bucket, bool)) ensures r == (bucket, can_be_deposited) {>> why: closes the unfolded match; the closure gets its Verus signature (what @closure does) and a braced body
        @subst <<) }) .collect::<Result<Vec<_>, _>>()? .into_iter()>> => <<}) }; c39_pairs.push(c39_item?); proof { assert(buckets@.take(c39_it.index@ as int + 1) =~= buckets@.take(c39_it.index@ as int).push(*bucket)); } } proof { assert(buckets@.take(buckets@.len() as int) =~= buckets@); } proof { c39_ps = c39_pairs.seq(); } c39_pairs } .into_iter()>> why: end of the loop that stands for map+collect: `?` on each item (first Err returned), payload pushed; the gathered pairs then go through the verbatim `.into_iter().filter_map(..).collect()`
        @before <<let offending_buckets>> #1
            let ghost mut c39_ps: Seq<(&Bucket, bool)> = Seq::empty();
        @after <<.collect::<Vec<_>>()>> #1
            let ghost ob = offending_buckets@;
            proof {
                assert(ob == filter_map_spec(c39_ps, keep_refused()));
                lemma_filter_is_offending(old(api).world().heap, buckets@, c39_ps);
                lemma_offending_empty(old(api).world().heap, buckets@);
            }
        @loop 1 iter it
            invariant
                ob == offending_buckets@,
                typed(api.world().heap),
                api.world().heap == old(api).world().heap, api.world().auth == old(api).world().auth,
                api.world().deposited == old(api).world().deposited,
                api.world().events =~= old(api).world().events + rejected_upto(ob, it.index@ as nat),
                api.fhandles() =~= old(api).fhandles() && api.khandles() =~= old(api).khandles(),
        @loop 2 iter it
            invariant
                ob == offending_buckets@,
                typed(api.world().heap),
                api.world().heap == old(api).world().heap, api.world().auth == old(api).world().auth,
                api.world().deposited == old(api).world().deposited,
                api.world().events =~= old(api).world().events + rejected_upto(ob, it.index@ as nat),
                api.fhandles() =~= old(api).fhandles() && api.khandles() =~= old(api).khandles(),
        @subst <<.filter_map(|(bucket, can_be_deposited)| {>> => <<.filter_map(|c39_p: (&Bucket, bool)| -> (r: Option<Bucket>) ensures r == (if !c39_p.1 { Some(*c39_p.0) } else { None::<Bucket> }) { let (bucket, can_be_deposited) = c39_p;>> why: Verus supports only plain variables as closure parameters; the tuple pattern of the parameter becomes a `let` at the start of the (verbatim) body, and the closure gets its Verus signature
        @*/
    }
}
} // verus!
fn main() {}
