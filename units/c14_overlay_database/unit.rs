// Unit c14_overlay_database -- property C14 "A database overlay behaves like the database with the commits
// applied": the overlay STORE.
// Real code under contract (bodies extracted verbatim):
//   radix-substate-store-impls/src/substate_database_overlay.rs
//     SubstateDatabaseOverlay::{new, get_readable_root, get_writable_root, get_raw_substate_by_db_key,
//       commit, commit_overlay_into_root_store, deconstruct, database_updates, into_database_updates},
//     fn merge_database_updates, and all six `From` conversions between DatabaseUpdates /
//     NodeDatabaseUpdates / PartitionDatabaseUpdates and their Staging* (BTreeMap) forms;
//   radix-substate-store-interface/src/interface.rs
//     PartitionDatabaseUpdates::get_substate_change, DatabaseUpdates::from_delta_maps.
// Oracle: apply(updates, base) over Map<(partition key, sort key), value> -- Delta = per-key
// Set/Delete, Reset = the partition is replaced by exactly the new values.
// NOT here: list_raw_values_from_db_key / list_partition_keys (Box<dyn Iterator> + adapter chains; their
// merge core OverlayingIterator is unit c14_overlay_iterator), InMemorySubstateDatabase (memory_db.rs).
use vstd::prelude::*;
verus! {
/*@include shims/rt.rs @*/
/*@include shims/nested_maps_c14.rs @*/

pub mod env {
    use vstd::prelude::*;
    use super::unit::*;

    /// derived `Clone` of DatabaseUpdates (derive(Clone) carries no spec in Verus): ASSUMED to
    /// return a value equal to the original (indexmap's Clone copies the entries in order)
    impl Clone for DatabaseUpdates {
        #[verifier::external_body]
        fn clone(&self) -> (r: Self) ensures r == *self { unimplemented!() }
    }

    /// derive(Default) of StagingDatabaseUpdates (carries no spec in Verus): field-wise default,
    /// i.e. the empty BTreeMap
    impl Default for StagingDatabaseUpdates {
        #[verifier::external_body]
        fn default() -> (r: Self) ensures r.node_updates@ == Map::<DbNodeKey, StagingNodeDatabaseUpdates>::empty() { unimplemented!() }
    }

    /// derive(Default) of DatabaseUpdates / NodeDatabaseUpdates: field-wise default = empty IndexMap
    impl Default for DatabaseUpdates {
        #[verifier::external_body]
        fn default() -> (r: Self) ensures r.node_updates@ == Map::<DbNodeKey, NodeDatabaseUpdates>::empty() { unimplemented!() }
    }
    impl Default for NodeDatabaseUpdates {
        #[verifier::external_body]
        fn default() -> (r: Self) ensures r.partition_updates@ == Map::<DbPartitionNum, PartitionDatabaseUpdates>::empty() { unimplemented!() }
    }

    /// derived `Clone` of StagingDatabaseUpdates: ASSUMED to return an equal value
    impl Clone for StagingDatabaseUpdates {
        #[verifier::external_body]
        fn clone(&self) -> (r: Self) ensures r == *self { unimplemented!() }
    }

    /// core::borrow::BorrowMut: the mutable reference points to the same value as `borrow()`
    /// (std: "borrow and borrow_mut must behave identically"); what is finally stored behind it is
    /// what `borrowed()` is afterwards
    pub trait BorrowMut<T>: Borrow<T> {
        fn borrow_mut(&mut self) -> (r: &mut T)
            ensures *r == old(self).borrowed(), final(self).borrowed() == *final(r);
    }

    /// Option::or (std: "returns the option if it contains a value, otherwise returns optb")
    pub assume_specification<T>[Option::<T>::or](a: Option<T>, b: Option<T>) -> (r: Option<T>)
        ensures r == (if a is Some { a } else { b });

    /// core::mem::take: returns the old value and leaves `T::default()` behind
    pub assume_specification<T: Default>[core::mem::take](dest: &mut T) -> (r: T)
        ensures r == *old(dest), call_ensures(T::default, (), *final(dest));

    /// radix-substate-store-interface :: trait CommittableSubstateDatabase.  Nothing is assumed
    /// about what an implementation does: `commit_rel` is an ABSTRACT relation between the state
    /// before, the updates passed, and the state after (each impl defines it; for the overlay it
    /// is `commit_post`, for a generic root it stays uninterpreted).
    pub trait CommittableSubstateDatabase: Sized {
        spec fn commit_rel(pre: Self, u: DatabaseUpdates, post: Self) -> bool;
        fn commit(&mut self, database_updates: &DatabaseUpdates)
            ensures Self::commit_rel(*old(self), *database_updates, *final(self));
    }

    /// core::borrow::Borrow (re-exported by radix_rust::prelude::borrow): `borrowed()` is the value
    /// the returned reference points to
    pub trait Borrow<T> {
        spec fn borrowed(&self) -> T;
        fn borrow(&self) -> (r: &T)
            ensures *r == self.borrowed();
    }

    /// radix-substate-store-interface :: trait SubstateDatabase, point-read half.  ASSUMED for the
    /// root database: it has a map view and a read returns the bytes bound to the key, if any.
    /// (`list_raw_values_from_db_key` returns `Box<dyn Iterator>`: outside Verus, not declared.)
    pub trait SubstateDatabase {
        spec fn view(&self) -> Db;
        fn get_raw_substate_by_db_key(
            &self,
            partition_key: &DbPartitionKey,
            sort_key: &DbSortKey,
        ) -> (r: Option<DbSubstateValue>)
            ensures same_bytes(r, db_get(self.view(), (*partition_key, *sort_key)));
    }
}

pub mod unit {
    use vstd::prelude::*;
    use core::marker::PhantomData;
    use super::rt::*;
    use super::nmaps::*;
    use super::env::*;
    broadcast use super::nmaps::group_nmaps;

    // ---- data types (verbatim; the three private Staging* types get a `pub` in front of the
    // extracted text -- visibility only, Verus wants types mentioned by pub spec fns to be pub) ----
    /*@item radix-substate-store-interface/src/interface.rs :: type DbNodeKey
    @*/
    /*@item radix-substate-store-interface/src/interface.rs :: type DbPartitionNum
    @*/
    /*@item radix-substate-store-interface/src/interface.rs :: struct DbPartitionKey
    @derive
    @*/
    /*@item radix-substate-store-interface/src/interface.rs :: struct DbSortKey
    @derive
    @*/
    /*@item radix-substate-store-interface/src/interface.rs :: type DbSubstateKey
    @*/
    /*@item radix-common/src/state/state_updates.rs :: type DbSubstateValue
    @*/
    /*@item radix-common/src/state/state_updates.rs :: enum DatabaseUpdate
    @derive
    @*/
    /*@item radix-common/src/state/state_updates.rs :: enum DatabaseUpdateRef
    @*/
    /*@item radix-substate-store-interface/src/interface.rs :: struct DatabaseUpdates
    @derive
    @*/
    /*@item radix-substate-store-interface/src/interface.rs :: struct NodeDatabaseUpdates
    @derive
    @*/
    /*@item radix-substate-store-interface/src/interface.rs :: enum PartitionDatabaseUpdates
    @derive
    @*/
    pub /*@item radix-substate-store-impls/src/substate_database_overlay.rs :: struct StagingDatabaseUpdates
    @derive
    @*/
    pub /*@item radix-substate-store-impls/src/substate_database_overlay.rs :: struct StagingNodeDatabaseUpdates
    @derive
    @*/
    pub /*@item radix-substate-store-impls/src/substate_database_overlay.rs :: enum StagingPartitionDatabaseUpdates
    @derive
    @*/
    /*@item radix-substate-store-impls/src/substate_database_overlay.rs :: enum OverlayLookupResult
    @*/
    #[verifier::reject_recursive_types(D)]
    /*@item radix-substate-store-impls/src/substate_database_overlay.rs :: struct SubstateDatabaseOverlay
    @*/

    // ------------------------------------------------------------------------------------------
    // ORACLE (written from the property statement).
    // A database is a map (partition key, sort key) -> value.  A DatabaseUpdates value says, per
    // partition, either Delta (per sort key: Set(v) / Delete) or Reset (the partition is replaced
    // by exactly the new values); partitions it does not mention are untouched.
    // ------------------------------------------------------------------------------------------
    pub type Db = IMap<DbSubstateKey, DbSubstateValue>;

    pub enum PartView {
        Delta(Map<DbSortKey, DatabaseUpdate>),
        Reset(Map<DbSortKey, DbSubstateValue>),
    }
    /// abstract content of a (Staging)DatabaseUpdates value
    pub type UpdView = IMap<DbPartitionKey, PartView>;

    pub open spec fn db_get(db: Db, k: DbSubstateKey) -> Option<DbSubstateValue> {
        if db.contains_key(k) { Some(db[k]) } else { None }
    }
    pub open spec fn part_of(u: UpdView, pk: DbPartitionKey) -> Option<PartView> {
        if u.contains_key(pk) { Some(u[pk]) } else { None }
    }
    /// the value at sort key `sk` of a partition after the partition update `p`, given the value
    /// `cur` it had before
    pub open spec fn apply_part(p: Option<PartView>, cur: Option<DbSubstateValue>, sk: DbSortKey) -> Option<DbSubstateValue> {
        match p {
            None => cur,
            Some(PartView::Delta(m)) => match lookup(m, sk) {
                None => cur,
                Some(DatabaseUpdate::Set(v)) => Some(v),
                Some(DatabaseUpdate::Delete) => None,
            },
            Some(PartView::Reset(m)) => lookup(m, sk),
        }
    }
    pub open spec fn value_after(u: UpdView, base: Db, k: DbSubstateKey) -> Option<DbSubstateValue> {
        apply_part(part_of(u, k.0), db_get(base, k), k.1)
    }
    /// `apply(updates, base)`: the database obtained by applying the updates to `base`
    pub open spec fn apply(u: UpdView, base: Db) -> Db {
        IMap::new(|k: DbSubstateKey| value_after(u, base, k) is Some, |k: DbSubstateKey| value_after(u, base, k)->0)
    }
    /// equality of read results up to the bytes (a returned Vec is a fresh clone)
    pub open spec fn same_bytes(a: Option<DbSubstateValue>, b: Option<DbSubstateValue>) -> bool {
        (a is Some <==> b is Some) && (a is Some ==> a->0@ == b->0@)
    }

    // ---- views of the concrete update types -----------------------------------------------------
    impl PartitionDatabaseUpdates {
        pub open spec fn pview(&self) -> PartView {
            match *self {
                PartitionDatabaseUpdates::Delta { substate_updates } => PartView::Delta(substate_updates@),
                PartitionDatabaseUpdates::Reset { new_substate_values } => PartView::Reset(new_substate_values@),
            }
        }
    }
    impl StagingPartitionDatabaseUpdates {
        pub open spec fn pview(&self) -> PartView {
            match *self {
                StagingPartitionDatabaseUpdates::Delta { substate_updates } => PartView::Delta(substate_updates@),
                StagingPartitionDatabaseUpdates::Reset { new_substate_values } => PartView::Reset(new_substate_values@),
            }
        }
    }
    pub open spec fn opart(m: Map<DbPartitionNum, PartitionDatabaseUpdates>, pn: DbPartitionNum) -> Option<PartView> {
        if m.contains_key(pn) { Some(m[pn].pview()) } else { None }
    }
    pub open spec fn spart(m: Map<DbPartitionNum, StagingPartitionDatabaseUpdates>, pn: DbPartitionNum) -> Option<PartView> {
        if m.contains_key(pn) { Some(m[pn].pview()) } else { None }
    }
    impl NodeDatabaseUpdates {
        pub open spec fn part(&self, pn: DbPartitionNum) -> Option<PartView> { opart(self.partition_updates@, pn) }
    }
    impl StagingNodeDatabaseUpdates {
        pub open spec fn part(&self, pn: DbPartitionNum) -> Option<PartView> { spart(self.partition_updates@, pn) }
    }
    impl DatabaseUpdates {
        pub open spec fn part(&self, pk: DbPartitionKey) -> Option<PartView> {
            if self.node_updates@.contains_key(pk.node_key) { self.node_updates@[pk.node_key].part(pk.partition_num) } else { None }
        }
        pub open spec fn view(&self) -> UpdView {
            IMap::new(|pk: DbPartitionKey| self.part(pk) is Some, |pk: DbPartitionKey| self.part(pk)->0)
        }
    }
    impl StagingDatabaseUpdates {
        pub open spec fn part(&self, pk: DbPartitionKey) -> Option<PartView> {
            if self.node_updates@.contains_key(pk.node_key) { self.node_updates@[pk.node_key].part(pk.partition_num) } else { None }
        }
        pub open spec fn view(&self) -> UpdView {
            IMap::new(|pk: DbPartitionKey| self.part(pk) is Some, |pk: DbPartitionKey| self.part(pk)->0)
        }
    }

    // ---- effective change of one partition update on one sort key (interface.rs helper) ----------
    /// the change `c` reported for a sort key acts on any current value like the partition update
    pub open spec fn change_acts_like(c: Option<DatabaseUpdateRef<'_>>, p: PartView, sk: DbSortKey) -> bool {
        forall|cur: Option<DbSubstateValue>| match c {
            None => #[trigger] apply_part(Some(p), cur, sk) == cur,
            Some(DatabaseUpdateRef::Delete) => apply_part(Some(p), cur, sk) is None,
            Some(DatabaseUpdateRef::Set(b)) => apply_part(Some(p), cur, sk) is Some && apply_part(Some(p), cur, sk)->0@ == b@,
        }
    }
    impl PartitionDatabaseUpdates {
        /*@fn radix-substate-store-interface/src/interface.rs :: impl PartitionDatabaseUpdates :: fn get_substate_change
        @sig
            ensures
                change_acts_like(ret, self.pview(), *sort_key),
                ret is None <==> (*self is Delta && !self->substate_updates@.contains_key(*sort_key)),
        @closure 1 := |update: &DatabaseUpdate| -> (r: DatabaseUpdateRef<'_>) ensures match *update { DatabaseUpdate::Set(v) => r matches DatabaseUpdateRef::Set(b) && b@ == v@, DatabaseUpdate::Delete => r is Delete }
        @closure 2 := |value: &DbSubstateValue| -> (r: DatabaseUpdateRef<'_>) ensures r matches DatabaseUpdateRef::Set(b) && b@ == value@
        @*/
    }

    impl DatabaseUpdates {
        /*@fn radix-substate-store-interface/src/interface.rs :: impl DatabaseUpdates :: fn from_delta_maps
        @sig
            ensures
                forall|pk: DbPartitionKey| #[trigger] ret.part(pk)
                    == (if maps@.contains_key(pk) { Some(PartView::Delta(maps@[pk]@)) } else { None::<PartView> }),
        @loop 1 iter it
            invariant
                enumerates(it.snapshot@.rest(), maps@),
                0 <= it.index@ <= it.snapshot@.rest().len(),
                all_seen(it.snapshot@.rest(), it.index@ as int, maps@),
                forall|pk: DbPartitionKey| seen(it.snapshot@.rest(), it.index@ as int, pk) ==> maps@.contains_key(pk),
                forall|pk: DbPartitionKey| #[trigger] database_updates.part(pk)
                    == (if seen(it.snapshot@.rest(), it.index@ as int, pk) { Some(PartView::Delta(maps@[pk]@)) } else { None::<PartView> }),
        @before <<for>> #1
            proof {
                assert forall|s: Seq<(DbPartitionKey, IndexMap<DbSortKey, DatabaseUpdate>)>, n: int, m: Map<DbPartitionKey, IndexMap<DbSortKey, DatabaseUpdate>>|
                    #![trigger all_seen(s, n, m)] enumerates(s, m) implies all_seen(s, n, m) by { lemma_all_seen(s, n, m); }
            }
        @before <<database_updates .node_updates .entry(>> #1
            let ghost du1 = database_updates;
            let ghost e = it.snapshot@.rest();
            let ghost i = it.index@ as int;
            proof {
                lemma_step(e, maps@, i);
                assert(e[i].0 == DbPartitionKey { node_key, partition_num });
                assert(e[i].1 == substate_updates);
            }
        @after <<database_updates .node_updates .entry(>> #1
            proof {
                assert forall|pk: DbPartitionKey| #[trigger] database_updates.part(pk)
                    == (if seen(e, i + 1, pk) { Some(PartView::Delta(maps@[pk]@)) } else { None::<PartView> }) by {
                    if pk != e[i].0 {
                        assert(database_updates.part(pk) == du1.part(pk));
                    }
                }
            }
        @*/
    }

    // ---- read path ------------------------------------------------------------------------------
    impl<S: Borrow<D>, D> SubstateDatabaseOverlay<S, D> {
        /*@fn radix-substate-store-impls/src/substate_database_overlay.rs :: impl<S: Borrow<D>, D> SubstateDatabaseOverlay<S, D> :: fn get_readable_root
        @sig
            ensures *ret == self.root.borrowed()
        @*/
    }

    impl<S: Borrow<D>, D: SubstateDatabase> SubstateDatabase for SubstateDatabaseOverlay<S, D> {
        /// the overlay IS the database "root with the staged updates applied"
        open spec fn view(&self) -> Db { apply(self.overlay@, self.root.borrowed().view()) }

        /*@fn radix-substate-store-impls/src/substate_database_overlay.rs :: impl<S: Borrow<D>, D: SubstateDatabase> SubstateDatabase for SubstateDatabaseOverlay<S, D> :: fn get_raw_substate_by_db_key
        @subst <<partition_key @ DbPartitionKey { node_key, partition_num, }: &DbPartitionKey,>> => <<partition_key: &DbPartitionKey,>> x1 why: Verus accepts only plain identifiers as fn parameters ("function parameters must be a plain identifier pattern"); the same destructuring pattern is applied to the same argument by a `let` woven at the start of the body (see @entry), so `node_key` / `partition_num` / `partition_key` denote the same places as in the source
        @sig
            ensures
                same_bytes(ret, value_after(self.overlay@, self.root.borrowed().view(), (*partition_key, *sort_key))),
        @entry
            let DbPartitionKey { node_key, partition_num } = partition_key;
        @*/
    }

    // ------------------------------------------------------------------------------------------
    // MERGING.  Oracle: "c is a-then-b" for partition updates means that applying c to any current
    // value of any sort key gives what applying a and then b gives (Delta-then-Delta,
    // Reset-then-Delta, anything-then-Reset, absent on either side).
    // ------------------------------------------------------------------------------------------
    pub open spec fn composes(a: Option<PartView>, b: Option<PartView>, c: Option<PartView>) -> bool {
        forall|cur: Option<DbSubstateValue>, sk: DbSortKey|
            #[trigger] apply_part(c, cur, sk) == apply_part(b, apply_part(a, cur, sk), sk)
    }

    /// per-partition composition gives composition of whole databases, for every base
    pub proof fn lemma_compose_db(a: UpdView, b: UpdView, c: UpdView, base: Db)
        requires forall|pk: DbPartitionKey| composes(part_of(a, pk), part_of(b, pk), #[trigger] part_of(c, pk))
        ensures apply(c, base) =~= apply(b, apply(a, base))
    {
        let mid = apply(a, base);
        assert forall|k: DbSubstateKey| value_after(c, base, k) == value_after(b, mid, k) by {
            assert(composes(part_of(a, k.0), part_of(b, k.0), part_of(c, k.0)));
            assert(db_get(mid, k) == value_after(a, base, k));
            assert(apply_part(part_of(c, k.0), db_get(base, k), k.1)
                == apply_part(part_of(b, k.0), apply_part(part_of(a, k.0), db_get(base, k), k.1), k.1));
        }
        assert forall|k: DbSubstateKey| #[trigger] apply(c, base).contains_key(k) <==> apply(b, mid).contains_key(k) by {
            assert(value_after(c, base, k) == value_after(b, mid, k));
        }
        assert forall|k: DbSubstateKey| #[trigger] apply(c, base).contains_key(k) implies apply(c, base)[k] == apply(b, mid)[k] by {
            assert(value_after(c, base, k) == value_after(b, mid, k));
        }
    }

    /// `seen(s, n, k)`: key k is among the first n pairs of s
    pub open spec fn seen<K, V>(s: Seq<(K, V)>, n: int, k: K) -> bool {
        exists|j: int| 0 <= j < n && (#[trigger] s[j]).0 == k
    }
    pub proof fn lemma_seen_step<K, V>(s: Seq<(K, V)>, n: int, k: K)
        requires 0 <= n < s.len()
        ensures seen(s, n + 1, k) <==> (seen(s, n, k) || s[n].0 == k)
    {
        if seen(s, n + 1, k) {
            let j = choose|j: int| 0 <= j < n + 1 && (#[trigger] s[j]).0 == k;
            if j < n { assert(s[j].0 == k); }
        }
        if seen(s, n, k) {
            let j = choose|j: int| 0 <= j < n && (#[trigger] s[j]).0 == k;
            assert(0 <= j < n + 1 && s[j].0 == k);
        }
        if s[n].0 == k { assert(0 <= n < n + 1 && s[n].0 == k); }
    }
    pub proof fn lemma_seen_all<K, V>(s: Seq<(K, V)>, m: Map<K, V>, k: K)
        requires enumerates(s, m)
        ensures seen(s, s.len() as int, k) <==> m.contains_key(k)
    {
        if m.contains_key(k) {
            assert(has_key(s, k));
            let j = choose|j: int| 0 <= j < s.len() && (#[trigger] s[j]).0 == k;
            assert(0 <= j < s.len() as int && s[j].0 == k);
        }
        if seen(s, s.len() as int, k) {
            let j = choose|j: int| 0 <= j < s.len() as int && (#[trigger] s[j]).0 == k;
            assert(m.contains_key(s[j].0));
        }
    }
    pub proof fn lemma_current<K, V>(s: Seq<(K, V)>, m: Map<K, V>, n: int)
        requires enumerates(s, m), 0 <= n < s.len()
        ensures !seen(s, n, s[n].0), m.contains_key(s[n].0), m[s[n].0] == s[n].1
    {
        if seen(s, n, s[n].0) {
            let j = choose|j: int| 0 <= j < n && (#[trigger] s[j]).0 == s[n].0;
            assert(s[j].0 != s[n].0);
        }
        assert(m.contains_key(s[n].0));
    }

    // ---- conversions DatabaseUpdates -> staged form ------------------------------------------------
    /// same kind, same content
    pub open spec fn staged_part(v: PartitionDatabaseUpdates) -> StagingPartitionDatabaseUpdates {
        match v {
            PartitionDatabaseUpdates::Delta { substate_updates } =>
                StagingPartitionDatabaseUpdates::Delta { substate_updates: BTreeMap::of(substate_updates@) },
            PartitionDatabaseUpdates::Reset { new_substate_values } =>
                StagingPartitionDatabaseUpdates::Reset { new_substate_values: BTreeMap::of(new_substate_values@) },
        }
    }
    /// same partitions, each converted
    pub open spec fn staged_parts(m: Map<DbPartitionNum, PartitionDatabaseUpdates>) -> Map<DbPartitionNum, StagingPartitionDatabaseUpdates> {
        Map::new(m.dom(), |pn: DbPartitionNum| staged_part(m[pn]))
    }
    pub open spec fn staged_node(v: NodeDatabaseUpdates) -> StagingNodeDatabaseUpdates {
        StagingNodeDatabaseUpdates { partition_updates: BTreeMap::of(staged_parts(v.partition_updates@)) }
    }
    impl vstd::std_specs::convert::FromSpecImpl<PartitionDatabaseUpdates> for StagingPartitionDatabaseUpdates {
        open spec fn obeys_from_spec() -> bool { true }
        open spec fn from_spec(v: PartitionDatabaseUpdates) -> Self { staged_part(v) }
    }
    impl From<PartitionDatabaseUpdates> for StagingPartitionDatabaseUpdates {
        /*@fn radix-substate-store-impls/src/substate_database_overlay.rs :: impl From<PartitionDatabaseUpdates> for StagingPartitionDatabaseUpdates :: fn from
        @sig
            ensures
                ret.pview() == value.pview(),
                ret == staged_part(value),
        @entry
            proof {
                assert forall|s: Seq<(DbSortKey, DatabaseUpdate)>, m: Map<DbSortKey, DatabaseUpdate>|
                    #![trigger enumerates(s, m), seq_to_map(s)] enumerates(s, m) implies seq_to_map(s) == m by {
                    lemma_collect_enumeration(s, m);
                }
                assert forall|s: Seq<(DbSortKey, DbSubstateValue)>, m: Map<DbSortKey, DbSubstateValue>|
                    #![trigger enumerates(s, m), seq_to_map(s)] enumerates(s, m) implies seq_to_map(s) == m by {
                    lemma_collect_enumeration(s, m);
                }
            }
        @*/
    }

    /// the pairs `t` are the pairs `s` with the values converted
    pub proof fn lemma_mapped_enumeration(
        s: Seq<(DbPartitionNum, PartitionDatabaseUpdates)>, m: Map<DbPartitionNum, PartitionDatabaseUpdates>,
        t: Seq<(DbPartitionNum, StagingPartitionDatabaseUpdates)>)
        requires
            enumerates(s, m), t.len() == s.len(),
            forall|i: int| 0 <= i < s.len() ==> (#[trigger] t[i]).0 == s[i].0
                && t[i].1 == staged_part(s[i].1),
        ensures seq_to_map(t) =~= staged_parts(m)
    {
        let tm = staged_parts(m);
        assert forall|i: int| 0 <= i < t.len() implies tm.contains_key((#[trigger] t[i]).0) && tm[t[i].0] == t[i].1 by {
            assert(m.contains_key(s[i].0));
        }
        assert forall|k: DbPartitionNum| tm.contains_key(k) implies has_key(t, k) by {
            assert(has_key(s, k));
            let i = choose|i: int| 0 <= i < s.len() && (#[trigger] s[i]).0 == k;
            assert(t[i].0 == k);
        }
        assert forall|i: int, j: int| 0 <= i < j < t.len() implies t[i].0 != t[j].0 by {
            assert(t[i].0 == s[i].0 && t[j].0 == s[j].0);
        }
        lemma_collect_enumeration(t, tm);
    }

    impl vstd::std_specs::convert::FromSpecImpl<NodeDatabaseUpdates> for StagingNodeDatabaseUpdates {
        open spec fn obeys_from_spec() -> bool { true }
        open spec fn from_spec(v: NodeDatabaseUpdates) -> Self { staged_node(v) }
    }
    impl From<NodeDatabaseUpdates> for StagingNodeDatabaseUpdates {
        /*@fn radix-substate-store-impls/src/substate_database_overlay.rs :: impl From<NodeDatabaseUpdates> for StagingNodeDatabaseUpdates :: fn from
        @sig
            ensures
                forall|pn: DbPartitionNum| #[trigger] ret.part(pn) == value.part(pn),
                ret == staged_node(value),
        @closure 1 := |kv: (DbPartitionNum, PartitionDatabaseUpdates)| -> (r: (DbPartitionNum, StagingPartitionDatabaseUpdates)) ensures r.0 == kv.0, r.1 == staged_part(kv.1)
        @at <<(key,>> #2 := let (key, value) = kv;
        @entry
            proof {
                assert forall|s: Seq<(DbPartitionNum, PartitionDatabaseUpdates)>, m: Map<DbPartitionNum, PartitionDatabaseUpdates>,
                              t: Seq<(DbPartitionNum, StagingPartitionDatabaseUpdates)>|
                    #![trigger enumerates(s, m), seq_to_map(t)]
                    enumerates(s, m) && t.len() == s.len()
                    && (forall|i: int| 0 <= i < s.len() ==> (#[trigger] t[i]).0 == s[i].0
                        && t[i].1 == staged_part(s[i].1))
                    implies seq_to_map(t) == staged_parts(m) by {
                    lemma_mapped_enumeration(s, m, t);
                }
            }
        @*/
    }

    /// at the end of an enumeration every key of the map has been seen
    pub open spec fn all_seen<K, V>(s: Seq<(K, V)>, n: int, m: Map<K, V>) -> bool {
        n == s.len() ==> forall|k: K| m.contains_key(k) ==> seen(s, n, k)
    }
    pub proof fn lemma_all_seen<K, V>(s: Seq<(K, V)>, n: int, m: Map<K, V>)
        requires enumerates(s, m)
        ensures all_seen(s, n, m)
    {
        if n == s.len() {
            assert forall|k: K| m.contains_key(k) implies seen(s, n, k) by { lemma_seen_all(s, m, k); }
        }
    }
    /// what one step of a merge loop needs to know about the pair it is looking at
    pub proof fn lemma_step<K, V>(s: Seq<(K, V)>, m: Map<K, V>, n: int)
        requires enumerates(s, m), 0 <= n < s.len()
        ensures
            !seen(s, n, s[n].0), m.contains_key(s[n].0), m[s[n].0] == s[n].1,
            forall|k: K| #[trigger] seen(s, n + 1, k) <==> (seen(s, n, k) || s[n].0 == k),
            forall|k: K| seen(s, n, k) ==> m.contains_key(k),
            all_seen(s, n + 1, m),
    {
        lemma_current(s, m, n);
        assert forall|k: K| #[trigger] seen(s, n + 1, k) <==> (seen(s, n, k) || s[n].0 == k) by { lemma_seen_step(s, n, k); }
        assert forall|k: K| seen(s, n, k) implies m.contains_key(k) by {
            let j = choose|j: int| 0 <= j < n && (#[trigger] s[j]).0 == k;
            assert(m.contains_key(s[j].0));
        }
        lemma_all_seen(s, n + 1, m);
    }

    /*@fn radix-substate-store-impls/src/substate_database_overlay.rs :: fn merge_database_updates
    @sig
        ensures
            forall|pk: DbPartitionKey| composes(old(this).part(pk), other.part(pk), #[trigger] final(this).part(pk)),
            forall|base: Db| #[trigger] apply(final(this)@, base) =~= apply(other@, apply(old(this)@, base)),
    @entry
        proof {
            assert forall|s: Seq<(DbNodeKey, NodeDatabaseUpdates)>, n: int, m: Map<DbNodeKey, NodeDatabaseUpdates>|
                #![trigger all_seen(s, n, m)] enumerates(s, m) implies all_seen(s, n, m) by { lemma_all_seen(s, n, m); }
        }
    @loop 1 iter it1
        invariant
            enumerates(it1.snapshot@.rest(), other.node_updates@),
            0 <= it1.index@ <= it1.snapshot@.rest().len(),
            all_seen(it1.snapshot@.rest(), it1.index@ as int, other.node_updates@),
            forall|nk: DbNodeKey| seen(it1.snapshot@.rest(), it1.index@ as int, nk) ==> other.node_updates@.contains_key(nk),
            forall|nk: DbNodeKey| !seen(it1.snapshot@.rest(), it1.index@ as int, nk)
                ==> #[trigger] lookup(this.node_updates@, nk) == lookup(old(this).node_updates@, nk),
            forall|pk: DbPartitionKey| seen(it1.snapshot@.rest(), it1.index@ as int, pk.node_key)
                ==> composes(old(this).part(pk), other.part(pk), #[trigger] this.part(pk)),
    @before <<this.node_updates.get_mut(>> #1
        let ghost this1 = *this;
        let ghost e1 = it1.snapshot@.rest();
        let ghost i1 = it1.index@ as int;
        let ghost on = other_partition_updates@;
        proof {
            lemma_step(e1, other.node_updates@, i1);
            assert(e1[i1].0 == other_node_key);
            assert(e1[i1].1.partition_updates == other_partition_updates);
        }
    @before <<other_partition_updates.into_iter()>> #1
        let ghost tp0 = (*this_partition_updates)@;
        proof {
            assert forall|s: Seq<(DbPartitionNum, PartitionDatabaseUpdates)>, n: int, m: Map<DbPartitionNum, PartitionDatabaseUpdates>|
                #![trigger all_seen(s, n, m)] enumerates(s, m) implies all_seen(s, n, m) by { lemma_all_seen(s, n, m); }
        }
    @loop 2 iter it2
        invariant
            enumerates(it2.snapshot@.rest(), on),
            0 <= it2.index@ <= it2.snapshot@.rest().len(),
            all_seen(it2.snapshot@.rest(), it2.index@ as int, on),
            forall|pn: DbPartitionNum| seen(it2.snapshot@.rest(), it2.index@ as int, pn) ==> on.contains_key(pn),
            forall|pn: DbPartitionNum| !seen(it2.snapshot@.rest(), it2.index@ as int, pn)
                ==> #[trigger] lookup((*this_partition_updates)@, pn) == lookup(tp0, pn),
            forall|pn: DbPartitionNum| seen(it2.snapshot@.rest(), it2.index@ as int, pn)
                ==> composes(spart(tp0, pn), opart(on, pn), #[trigger] spart((*this_partition_updates)@, pn)),
    @before <<this_partition_updates.get_mut(>> #1
        let ghost tp1 = (*this_partition_updates)@;
        let ghost e2 = it2.snapshot@.rest();
        let ghost i2 = it2.index@ as int;
        proof {
            lemma_step(e2, on, i2);
            assert(e2[i2].0 == other_partition_num);
            assert(e2[i2].1 == other_partition_database_updates);
        }
    @before <<other_substate_updates.into_iter()>> #1
        let ghost m0 = (*this_new_substate_values)@;
        let ghost d = other_substate_updates@;
        proof {
            assert forall|s: Seq<(DbSortKey, DatabaseUpdate)>, n: int, m: Map<DbSortKey, DatabaseUpdate>|
                #![trigger all_seen(s, n, m)] enumerates(s, m) implies all_seen(s, n, m) by { lemma_all_seen(s, n, m); }
        }
    @loop 3 iter it3
        invariant
            enumerates(it3.snapshot@.rest(), d),
            0 <= it3.index@ <= it3.snapshot@.rest().len(),
            all_seen(it3.snapshot@.rest(), it3.index@ as int, d),
            forall|sk: DbSortKey| seen(it3.snapshot@.rest(), it3.index@ as int, sk) ==> d.contains_key(sk),
            forall|sk: DbSortKey| #[trigger] lookup((*this_new_substate_values)@, sk)
                == (if seen(it3.snapshot@.rest(), it3.index@ as int, sk) { apply_part(Some(PartView::Delta(d)), lookup(m0, sk), sk) } else { lookup(m0, sk) }),
    @before <<match other_database_update>> #1
        let ghost e3 = it3.snapshot@.rest();
        let ghost i3 = it3.index@ as int;
        let ghost nsv1 = (*this_new_substate_values)@;
        proof {
            lemma_step(e3, d, i3);
            assert(e3[i3].0 == other_sort_key);
            assert(e3[i3].1 == other_database_update);
        }
    @after <<match other_database_update>> #1
        proof {
            assert forall|sk: DbSortKey| #[trigger] lookup((*this_new_substate_values)@, sk)
                == (if seen(e3, i3 + 1, sk) { apply_part(Some(PartView::Delta(d)), lookup(m0, sk), sk) } else { lookup(m0, sk) }) by {
                if sk != e3[i3].0 {
                    assert(lookup((*this_new_substate_values)@, sk) == lookup(nsv1, sk));
                }
            }
        }
    @after <<other_substate_updates.into_iter()>> #1
        proof {
            assert forall|sk: DbSortKey| #[trigger] lookup((*this_new_substate_values)@, sk)
                == apply_part(Some(PartView::Delta(d)), lookup(m0, sk), sk) by {}
            assert(composes(Some(PartView::Reset(m0)), Some(PartView::Delta(d)), Some(PartView::Reset((*this_new_substate_values)@))));
        }
    @after <<this_partition_updates.get_mut(>> #1
        proof {
            let pn_i = e2[i2].0;
            assert(composes(spart(tp1, pn_i), opart(on, pn_i), spart((*this_partition_updates)@, pn_i)));
            assert forall|pn: DbPartitionNum| pn != pn_i implies lookup((*this_partition_updates)@, pn) == lookup(tp1, pn) by {}
            assert forall|pn: DbPartitionNum| !seen(e2, i2 + 1, pn)
                implies #[trigger] lookup((*this_partition_updates)@, pn) == lookup(tp0, pn) by {
                assert(!seen(e2, i2, pn) && pn != pn_i);
                assert(lookup((*this_partition_updates)@, pn) == lookup(tp1, pn));
            }
            assert forall|pn: DbPartitionNum| seen(e2, i2 + 1, pn)
                implies composes(spart(tp0, pn), opart(on, pn), #[trigger] spart((*this_partition_updates)@, pn)) by {
                if pn == pn_i {
                    assert(lookup(tp1, pn) == lookup(tp0, pn));
                } else {
                    assert(lookup((*this_partition_updates)@, pn) == lookup(tp1, pn));
                    assert(composes(spart(tp0, pn), opart(on, pn), spart(tp1, pn)));
                }
            }
        }
    @after <<other_partition_updates.into_iter()>> #1
        proof {
            assert forall|pn: DbPartitionNum| composes(spart(tp0, pn), opart(on, pn), #[trigger] spart((*this_partition_updates)@, pn)) by {
                if !on.contains_key(pn) {
                    assert(lookup((*this_partition_updates)@, pn) == lookup(tp0, pn));
                }
            }
        }
    @after <<this.node_updates.get_mut(>> #1
        proof {
            let nk_i = e1[i1].0;
            assert forall|nk: DbNodeKey| nk != nk_i implies lookup(this.node_updates@, nk) == lookup(this1.node_updates@, nk) by {}
            assert(lookup(this1.node_updates@, nk_i) == lookup(old(this).node_updates@, nk_i));
            assert forall|nk: DbNodeKey| !seen(e1, i1 + 1, nk)
                implies #[trigger] lookup(this.node_updates@, nk) == lookup(old(this).node_updates@, nk) by {
                assert(!seen(e1, i1, nk) && nk != nk_i);
                assert(lookup(this.node_updates@, nk) == lookup(this1.node_updates@, nk));
            }
            assert forall|pk: DbPartitionKey| seen(e1, i1 + 1, pk.node_key)
                implies composes(old(this).part(pk), other.part(pk), #[trigger] this.part(pk)) by {
                if pk.node_key == nk_i {
                    assert(other.part(pk) == opart(on, pk.partition_num));
                } else {
                    assert(lookup(this.node_updates@, pk.node_key) == lookup(this1.node_updates@, pk.node_key));
                    assert(this.part(pk) == this1.part(pk));
                }
            }
        }
    @after <<other.node_updates.into_iter()>> #1
        proof {
            assert forall|pk: DbPartitionKey| composes(old(this).part(pk), other.part(pk), #[trigger] this.part(pk)) by {
                if !other.node_updates@.contains_key(pk.node_key) {
                    assert(lookup(this.node_updates@, pk.node_key) == lookup(old(this).node_updates@, pk.node_key));
                }
            }
            assert forall|base: Db| #[trigger] apply(this@, base) =~= apply(other@, apply(old(this)@, base)) by {
                assert forall|pk: DbPartitionKey| composes(part_of(old(this)@, pk), part_of(other@, pk), #[trigger] part_of(this@, pk)) by {
                    assert(composes(old(this).part(pk), other.part(pk), this.part(pk)));
                }
                lemma_compose_db(old(this)@, other@, this@, base);
            }
        }
    @*/

    // ---- conversions staged form -> DatabaseUpdates (what leaves the overlay) ------------------------
    pub open spec fn unstaged_part(v: StagingPartitionDatabaseUpdates) -> PartitionDatabaseUpdates {
        match v {
            StagingPartitionDatabaseUpdates::Delta { substate_updates } =>
                PartitionDatabaseUpdates::Delta { substate_updates: IndexMap::from_seq(substate_updates.sorted()) },
            StagingPartitionDatabaseUpdates::Reset { new_substate_values } =>
                PartitionDatabaseUpdates::Reset { new_substate_values: IndexMap::from_seq(new_substate_values.sorted()) },
        }
    }
    pub open spec fn unstaged_parts(s: Seq<(DbPartitionNum, StagingPartitionDatabaseUpdates)>) -> Seq<(DbPartitionNum, PartitionDatabaseUpdates)> {
        Seq::new(s.len(), |i: int| (s[i].0, unstaged_part(s[i].1)))
    }
    pub open spec fn unstaged_node(v: StagingNodeDatabaseUpdates) -> NodeDatabaseUpdates {
        NodeDatabaseUpdates { partition_updates: IndexMap::from_seq(unstaged_parts(v.partition_updates.sorted())) }
    }
    pub open spec fn unstaged_nodes(s: Seq<(DbNodeKey, StagingNodeDatabaseUpdates)>) -> Seq<(DbNodeKey, NodeDatabaseUpdates)> {
        Seq::new(s.len(), |i: int| (s[i].0, unstaged_node(s[i].1)))
    }
    pub open spec fn unstaged_db(v: StagingDatabaseUpdates) -> DatabaseUpdates {
        DatabaseUpdates { node_updates: IndexMap::from_seq(unstaged_nodes(v.node_updates.sorted())) }
    }

    /// the conversions keep the abstract content
    pub proof fn lemma_unstaged_part(v: StagingPartitionDatabaseUpdates)
        ensures unstaged_part(v).pview() == v.pview()
    {
        match v {
            StagingPartitionDatabaseUpdates::Delta { substate_updates } => {
                lemma_collect_enumeration(substate_updates.sorted(), substate_updates@);
            }
            StagingPartitionDatabaseUpdates::Reset { new_substate_values } => {
                lemma_collect_enumeration(new_substate_values.sorted(), new_substate_values@);
            }
        }
    }
    pub proof fn lemma_unstaged_node(v: StagingNodeDatabaseUpdates, pn: DbPartitionNum)
        ensures unstaged_node(v).part(pn) == v.part(pn)
    {
        let s = v.partition_updates.sorted();
        let t = unstaged_parts(s);
        let m = v.partition_updates@;
        let tm = seq_to_map(t);
        lemma_seq_to_map_dom(t, pn);
        if has_key(t, pn) {
            let i = choose|i: int| 0 <= i < t.len() && (#[trigger] t[i]).0 == pn;
            assert(m.contains_key(s[i].0));
            assert forall|j: int| i < j < t.len() implies (#[trigger] t[j]).0 != t[i].0 by { assert(s[i].0 != s[j].0); }
            lemma_seq_to_map_val(t, i);
            lemma_unstaged_part(s[i].1);
        }
        if m.contains_key(pn) {
            assert(has_key(s, pn));
            let i = choose|i: int| 0 <= i < s.len() && (#[trigger] s[i]).0 == pn;
            assert(t[i].0 == pn);
        }
    }
    pub proof fn lemma_unstaged_db(v: StagingDatabaseUpdates, pk: DbPartitionKey)
        ensures unstaged_db(v).part(pk) == v.part(pk)
    {
        let s = v.node_updates.sorted();
        let t = unstaged_nodes(s);
        let m = v.node_updates@;
        let nk = pk.node_key;
        lemma_seq_to_map_dom(t, nk);
        if has_key(t, nk) {
            let i = choose|i: int| 0 <= i < t.len() && (#[trigger] t[i]).0 == nk;
            assert(m.contains_key(s[i].0));
            assert forall|j: int| i < j < t.len() implies (#[trigger] t[j]).0 != t[i].0 by { assert(s[i].0 != s[j].0); }
            lemma_seq_to_map_val(t, i);
            lemma_unstaged_node(s[i].1, pk.partition_num);
        }
        if m.contains_key(nk) {
            assert(has_key(s, nk));
            let i = choose|i: int| 0 <= i < s.len() && (#[trigger] s[i]).0 == nk;
            assert(t[i].0 == nk);
        }
    }

    impl vstd::std_specs::convert::FromSpecImpl<StagingPartitionDatabaseUpdates> for PartitionDatabaseUpdates {
        open spec fn obeys_from_spec() -> bool { true }
        open spec fn from_spec(v: StagingPartitionDatabaseUpdates) -> Self { unstaged_part(v) }
    }
    impl From<StagingPartitionDatabaseUpdates> for PartitionDatabaseUpdates {
        /*@fn radix-substate-store-impls/src/substate_database_overlay.rs :: impl From<StagingPartitionDatabaseUpdates> for PartitionDatabaseUpdates :: fn from
        @sig
            ensures
                ret.pview() == value.pview(),
                ret == unstaged_part(value),
        @entry
            proof { lemma_unstaged_part(value); }
        @*/
    }

    impl vstd::std_specs::convert::FromSpecImpl<StagingNodeDatabaseUpdates> for NodeDatabaseUpdates {
        open spec fn obeys_from_spec() -> bool { true }
        open spec fn from_spec(v: StagingNodeDatabaseUpdates) -> Self { unstaged_node(v) }
    }
    impl From<StagingNodeDatabaseUpdates> for NodeDatabaseUpdates {
        /*@fn radix-substate-store-impls/src/substate_database_overlay.rs :: impl From<StagingNodeDatabaseUpdates> for NodeDatabaseUpdates :: fn from
        @sig
            ensures
                forall|pn: DbPartitionNum| #[trigger] ret.part(pn) == value.part(pn),
                ret == unstaged_node(value),
        @closure 1 := |kv: (DbPartitionNum, StagingPartitionDatabaseUpdates)| -> (r: (DbPartitionNum, PartitionDatabaseUpdates)) ensures r.0 == kv.0, r.1 == unstaged_part(kv.1)
        @at <<(key,>> #2 := let (key, value) = kv;
        @entry
            let ghost s0 = value.partition_updates.sorted();
            proof {
                assert forall|pn: DbPartitionNum| #[trigger] unstaged_node(value).part(pn) == value.part(pn) by { lemma_unstaged_node(value, pn); }
                assert forall|t: Seq<(DbPartitionNum, PartitionDatabaseUpdates)>|
                    #![trigger IndexMap::<DbPartitionNum, PartitionDatabaseUpdates>::from_seq(t)]
                    t.len() == s0.len() && (forall|i: int| 0 <= i < s0.len() ==> (#[trigger] t[i]).0 == s0[i].0 && t[i].1 == unstaged_part(s0[i].1))
                    implies t == unstaged_parts(s0) by {
                    assert(t =~= unstaged_parts(s0));
                }
            }
        @*/
    }

    impl vstd::std_specs::convert::FromSpecImpl<StagingDatabaseUpdates> for DatabaseUpdates {
        open spec fn obeys_from_spec() -> bool { true }
        open spec fn from_spec(v: StagingDatabaseUpdates) -> Self { unstaged_db(v) }
    }
    impl From<StagingDatabaseUpdates> for DatabaseUpdates {
        /*@fn radix-substate-store-impls/src/substate_database_overlay.rs :: impl From<StagingDatabaseUpdates> for DatabaseUpdates :: fn from
        @sig
            ensures
                forall|pk: DbPartitionKey| #[trigger] ret.part(pk) == value.part(pk),
                ret == unstaged_db(value),
        @closure 1 := |kv: (DbNodeKey, StagingNodeDatabaseUpdates)| -> (r: (DbNodeKey, NodeDatabaseUpdates)) ensures r.0 == kv.0, r.1 == unstaged_node(kv.1)
        @at <<(key,>> #2 := let (key, value) = kv;
        @entry
            let ghost s0 = value.node_updates.sorted();
            proof {
                assert forall|pk: DbPartitionKey| #[trigger] unstaged_db(value).part(pk) == value.part(pk) by { lemma_unstaged_db(value, pk); }
                assert forall|t: Seq<(DbNodeKey, NodeDatabaseUpdates)>|
                    #![trigger IndexMap::<DbNodeKey, NodeDatabaseUpdates>::from_seq(t)]
                    t.len() == s0.len() && (forall|i: int| 0 <= i < s0.len() ==> (#[trigger] t[i]).0 == s0[i].0 && t[i].1 == unstaged_node(s0[i].1))
                    implies t == unstaged_nodes(s0) by {
                    assert(t =~= unstaged_nodes(s0));
                }
            }
        @*/
    }

    // ---- the overlay as a committable database ------------------------------------------------------
    /// what one `commit(u)` does to an overlay: the root is not touched, and the staged updates
    /// become "staged-then-u" (per partition, and as a transformation of every base database)
    pub open spec fn commit_post<S, D>(pre: SubstateDatabaseOverlay<S, D>, u: DatabaseUpdates, post: SubstateDatabaseOverlay<S, D>) -> bool {
        &&& post.root == pre.root
        &&& forall|pk: DbPartitionKey| composes(pre.overlay.part(pk), u.part(pk), #[trigger] post.overlay.part(pk))
        &&& forall|base: Db| #[trigger] apply(post.overlay@, base) =~= apply(u@, apply(pre.overlay@, base))
    }

    impl<S, D> SubstateDatabaseOverlay<S, D> {
        /*@fn radix-substate-store-impls/src/substate_database_overlay.rs :: impl<S, D> SubstateDatabaseOverlay<S, D> :: fn new
        @sig
            ensures
                ret.root == root_database,
                forall|pk: DbPartitionKey| #[trigger] ret.overlay.part(pk) is None,
        @*/
    }

    impl<S, D> CommittableSubstateDatabase for SubstateDatabaseOverlay<S, D> {
        open spec fn commit_rel(pre: Self, u: DatabaseUpdates, post: Self) -> bool { commit_post(pre, u, post) }

        /*@fn radix-substate-store-impls/src/substate_database_overlay.rs :: impl<S, D> CommittableSubstateDatabase for SubstateDatabaseOverlay<S, D> :: fn commit
        @sig
            ensures commit_post(*old(self), *database_updates, *final(self))
        @*/
    }

    // ---- what leaves the overlay: the staged updates as DatabaseUpdates, flushing into the root ------
    impl<S, D> SubstateDatabaseOverlay<S, D> {
        /*@fn radix-substate-store-impls/src/substate_database_overlay.rs :: impl<S, D> SubstateDatabaseOverlay<S, D> :: fn deconstruct
        @sig
            ensures
                ret.0 == self.root,
                ret.1 == unstaged_db(self.overlay),
                forall|pk: DbPartitionKey| #[trigger] ret.1.part(pk) == self.overlay.part(pk),
        @entry
            proof { assert forall|pk: DbPartitionKey| #[trigger] unstaged_db(self.overlay).part(pk) == self.overlay.part(pk) by { lemma_unstaged_db(self.overlay, pk); } }
        @*/

        /*@fn radix-substate-store-impls/src/substate_database_overlay.rs :: impl<S, D> SubstateDatabaseOverlay<S, D> :: fn database_updates
        @sig
            ensures
                ret == unstaged_db(self.overlay),
                forall|pk: DbPartitionKey| #[trigger] ret.part(pk) == self.overlay.part(pk),
        @entry
            proof { assert forall|pk: DbPartitionKey| #[trigger] unstaged_db(self.overlay).part(pk) == self.overlay.part(pk) by { lemma_unstaged_db(self.overlay, pk); } }
        @*/

        /*@fn radix-substate-store-impls/src/substate_database_overlay.rs :: impl<S, D> SubstateDatabaseOverlay<S, D> :: fn into_database_updates
        @sig
            ensures
                ret == unstaged_db(self.overlay),
                forall|pk: DbPartitionKey| #[trigger] ret.part(pk) == self.overlay.part(pk),
        @entry
            proof { assert forall|pk: DbPartitionKey| #[trigger] unstaged_db(self.overlay).part(pk) == self.overlay.part(pk) by { lemma_unstaged_db(self.overlay, pk); } }
        @*/
    }

    impl<S: BorrowMut<D>, D> SubstateDatabaseOverlay<S, D> {
        /*@fn radix-substate-store-impls/src/substate_database_overlay.rs :: impl<S: BorrowMut<D>, D> SubstateDatabaseOverlay<S, D> :: fn get_writable_root
        @sig
            ensures
                *ret == old(self).root.borrowed(),
                final(self).root.borrowed() == *final(ret),
                final(self).overlay == old(self).overlay,
        @*/
    }

    impl<S: BorrowMut<D>, D: CommittableSubstateDatabase> SubstateDatabaseOverlay<S, D> {
        /*@fn radix-substate-store-impls/src/substate_database_overlay.rs :: impl<S: BorrowMut<D>, D: CommittableSubstateDatabase> SubstateDatabaseOverlay<S, D> :: fn commit_overlay_into_root_store
        @sig
            ensures
                // the overlay is emptied ...
                forall|pk: DbPartitionKey| #[trigger] final(self).overlay.part(pk) is None,
                // ... and the root's `commit` ran exactly once, on updates with the staged content
                D::commit_rel(old(self).root.borrowed(), unstaged_db(old(self).overlay), final(self).root.borrowed()),
                forall|pk: DbPartitionKey| #[trigger] unstaged_db(old(self).overlay).part(pk) == old(self).overlay.part(pk),
        @entry
            proof { assert forall|pk: DbPartitionKey| #[trigger] unstaged_db(old(self).overlay).part(pk) == old(self).overlay.part(pk) by { lemma_unstaged_db(old(self).overlay, pk); } }
        @*/
    }

    // ---- C14 as stated: the overlay's reads are those of "root with the commits applied" -----------
    /// the database after a sequence of commits
    pub open spec fn apply_seq(us: Seq<DatabaseUpdates>, base: Db) -> Db
        decreases us.len()
    {
        if us.len() == 0 { base } else { apply(us.last()@, apply_seq(us.drop_last(), base)) }
    }

    /// one commit: the overlay's view changes exactly like a database to which `u` is applied
    pub proof fn theorem_commit_is_apply<S: Borrow<D>, D: SubstateDatabase>(
        pre: SubstateDatabaseOverlay<S, D>, u: DatabaseUpdates, post: SubstateDatabaseOverlay<S, D>)
        requires commit_post(pre, u, post)
        ensures post.view() =~= apply(u@, pre.view())
    {
        let base = pre.root.borrowed().view();
        assert(apply(post.overlay@, base) =~= apply(u@, apply(pre.overlay@, base)));
    }

    /// a fresh overlay (as returned by `new`) reads like its root
    pub proof fn theorem_fresh_is_root<S: Borrow<D>, D: SubstateDatabase>(o: SubstateDatabaseOverlay<S, D>)
        requires forall|pk: DbPartitionKey| #[trigger] o.overlay.part(pk) is None
        ensures o.view() =~= o.root.borrowed().view()
    {
        let base = o.root.borrowed().view();
        assert forall|k: DbSubstateKey| value_after(o.overlay@, base, k) == db_get(base, k) by {
            assert(o.overlay.part(k.0) is None);
        }
    }

    /// HISTORY: st[0] is a fresh overlay, st[i+1] is st[i] after `commit(us[i])`.  Then the last
    /// state's view (= what every point read returns, by get_raw_substate_by_db_key's contract) is
    /// the root database with all the commits applied in order.
    pub proof fn theorem_history<S: Borrow<D>, D: SubstateDatabase>(
        st: Seq<SubstateDatabaseOverlay<S, D>>, us: Seq<DatabaseUpdates>)
        requires
            st.len() == us.len() + 1,
            forall|pk: DbPartitionKey| #[trigger] st[0].overlay.part(pk) is None,
            forall|i: int| 0 <= i < us.len() ==> commit_post(#[trigger] st[i], us[i], st[i + 1]),
        ensures
            st.last().root == st[0].root,
            st.last().view() =~= apply_seq(us, st[0].root.borrowed().view()),
        decreases us.len()
    {
        if us.len() == 0 {
            theorem_fresh_is_root(st[0]);
        } else {
            let st1 = st.drop_last();
            let us1 = us.drop_last();
            assert forall|i: int| 0 <= i < us1.len() implies commit_post(#[trigger] st1[i], us1[i], st1[i + 1]) by {
                assert(commit_post(st[i], us[i], st[i + 1]));
            }
            assert(st1[0] == st[0]);
            theorem_history(st1, us1);
            let n = us.len() as int;
            assert(commit_post(st[n - 1], us[n - 1], st[n]));
            assert(st1.last() == st[n - 1]);
            theorem_commit_is_apply(st[n - 1], us[n - 1], st[n]);
        }
    }

    /// FLUSH ("merging the overlay into the base yields that same database"): take the
    /// postcondition of commit_overlay_into_root_store and, as a HYPOTHESIS on the root type (its
    /// `commit` is not under contract here), that the root's commit applies the updates to its map
    /// view.  Then the root afterwards IS the database the overlay showed before, and reads through
    /// the (now empty) overlay are unchanged.
    pub proof fn theorem_flush<S: BorrowMut<D>, D: SubstateDatabase + CommittableSubstateDatabase>(
        pre: SubstateDatabaseOverlay<S, D>, post: SubstateDatabaseOverlay<S, D>)
        requires
            forall|pk: DbPartitionKey| #[trigger] post.overlay.part(pk) is None,
            D::commit_rel(pre.root.borrowed(), unstaged_db(pre.overlay), post.root.borrowed()),
            forall|pk: DbPartitionKey| #[trigger] unstaged_db(pre.overlay).part(pk) == pre.overlay.part(pk),
            forall|a: D, u: DatabaseUpdates, b: D| #[trigger] D::commit_rel(a, u, b) ==> b.view() =~= apply(u@, a.view()),
        ensures
            post.root.borrowed().view() =~= pre.view(),
            post.view() =~= pre.view(),
    {
        let base = pre.root.borrowed().view();
        let u = unstaged_db(pre.overlay);
        assert(post.root.borrowed().view() =~= apply(u@, base));
        assert forall|k: DbSubstateKey| value_after(u@, base, k) == value_after(pre.overlay@, base, k) by {
            assert(u.part(k.0) == pre.overlay.part(k.0));
        }
        assert(apply(u@, base) =~= apply(pre.overlay@, base));
        theorem_fresh_is_root(post);
    }
}
} // verus!
fn main() {}
