// Unit c24_precise_decimal -- property C24 "PreciseDecimal arithmetic is exact or reports overflow" (PreciseDecimal part)
// Real code: radix-common/src/math/precise_decimal.rs -- checked_neg/add/sub/mul/div, checked_abs, sign tests,
// the panicking operators, over the ASSUMED mathematical contracts of the bnum wrappers (shims/bigint.rs).
use vstd::prelude::*;
verus! {
/*@include shims/rt.rs @*/
/*@include shims/bigint.rs @*/

pub mod env {
    use vstd::prelude::*;
    use super::bigint::*;
    /*@item radix-common/src/math/traits.rs :: trait CheckedAdd<Rhs = Self>
    @*/
    /*@item radix-common/src/math/traits.rs :: trait CheckedSub<Rhs = Self>
    @*/
    /*@item radix-common/src/math/traits.rs :: trait CheckedMul<Rhs = Self>
    @*/
    /*@item radix-common/src/math/traits.rs :: trait CheckedDiv<Rhs = Self>
    @*/
    /*@item radix-common/src/math/traits.rs :: trait CheckedNeg<Rhs = Self>
    @*/
    /*@item radix-common/src/math/traits.rs :: trait SaturatingAdd<Rhs = Self>
    @*/

    /*@item radix-common/src/math/precise_decimal.rs :: struct PreciseDecimal
    @derive Clone, Copy
    @*/
    /*@item radix-common/src/math/precise_decimal.rs :: type InnerPreciseDecimal
    @*/
    // ASSUMED: derived PartialEq on the one-field tuple struct compares the field
    impl PartialEq for PreciseDecimal { #[verifier::external_body] fn eq(&self, o: &PreciseDecimal) -> (r: bool) ensures r == (self.0.v() == o.0.v()) { unimplemented!() } }
    impl vstd::std_specs::cmp::PartialEqSpecImpl for PreciseDecimal {
        open spec fn obeys_eq_spec() -> bool { true }
        open spec fn eq_spec(&self, o: &PreciseDecimal) -> bool { self.0.v() == o.0.v() }
    }
    pub open spec fn one() -> int { 1_000_000_000_000_000_000_000_000_000_000_000_000 }
    // ASSUMED constants (their definitions use const-fn digit constructors outside Verus' subset);
    // cross-checked on the real type by kani/l0_bigint::decimal_constants
    impl PreciseDecimal {
        #[verifier::external_body] pub const MIN: PreciseDecimal = PreciseDecimal(I256::MIN);
        #[verifier::external_body] pub const MAX: PreciseDecimal = PreciseDecimal(I256::MAX);
        #[verifier::external_body] pub const ZERO: PreciseDecimal = PreciseDecimal(I256::ZERO);
        #[verifier::external_body] pub const ONE: PreciseDecimal = PreciseDecimal(I256::ONE);
    }
    pub broadcast axiom fn ax_decimal_consts()
        ensures #![trigger PreciseDecimal::MIN.0] #![trigger PreciseDecimal::MAX.0] #![trigger PreciseDecimal::ZERO.0] #![trigger PreciseDecimal::ONE.0]
            PreciseDecimal::MIN.0.v() == i256_min(), PreciseDecimal::MAX.0.v() == i256_max(), PreciseDecimal::ZERO.0.v() == 0, PreciseDecimal::ONE.0.v() == one();
}

pub mod unit {
    use vstd::prelude::*;
    use super::rt::*;
    use super::bigint::*;
    use super::env::*;
    use super::env::PreciseDecimal;
    use core::ops::{Add, Sub, Mul, Div, Neg};
    broadcast use {group_bigint, ax_decimal_consts};

    // ---- oracle: exact arithmetic on sub-units (10^-18), truncation toward zero ---------------
    pub open spec fn mul_spec(a: int, b: int) -> int { tdiv(a * b, one()) }
    pub open spec fn div_spec(a: int, b: int) -> int { tdiv(a * one(), b) }

    /// the 384-bit intermediate never loses a representable product:
    /// |p| >= 2^383  ==>  |p / 10^36| >= 2^255   (2^255 * 10^36 < 2^375 < 2^383)
    pub proof fn lemma_mul_width(p: int)
        ensures in_i256(tdiv(p, one())) ==> in_i384(p)
    {
        if p > i384_max() { assert(tdiv(p, one()) == p / one()); assert(p / one() > i256_max()); }
        if p < i384_min() { assert(tdiv(p, one()) == -((-p) / one())); assert((-p) / one() > i256_max() + 1); }
    }
    /// a * 10^36 always fits 384 bits for a 256-bit a
    pub proof fn lemma_div_width(a: int)
        requires in_i256(a)
        ensures in_i384(a * one())
    {}

    impl PreciseDecimal {
        /*@fn radix-common/src/math/precise_decimal.rs :: impl PreciseDecimal :: fn from_precise_subunits
        @sig
            ensures ret.0 == precise_subunits
        @*/
        /*@fn radix-common/src/math/precise_decimal.rs :: impl PreciseDecimal :: fn precise_subunits
        @sig
            ensures ret == self.0
        @*/
        /*@fn radix-common/src/math/precise_decimal.rs :: impl PreciseDecimal :: fn zero
        @sig
            ensures ret.0.v() == 0
        @*/
        /*@fn radix-common/src/math/precise_decimal.rs :: impl PreciseDecimal :: fn one
        @sig
            ensures ret.0.v() == one()
        @*/
        /*@fn radix-common/src/math/precise_decimal.rs :: impl PreciseDecimal :: fn is_zero
        @sig
            ensures ret == (self.0.v() == 0)
        @*/
        /*@fn radix-common/src/math/precise_decimal.rs :: impl PreciseDecimal :: fn is_positive
        @sig
            ensures ret == (self.0.v() > 0)
        @*/
        /*@fn radix-common/src/math/precise_decimal.rs :: impl PreciseDecimal :: fn is_negative
        @sig
            ensures ret == (self.0.v() < 0)
        @*/
        /*@fn radix-common/src/math/precise_decimal.rs :: impl PreciseDecimal :: fn checked_abs
        @sig
            ensures ret matches Some(r) ==> r.0.v() == (if self.0.v() < 0 { -self.0.v() } else { self.0.v() }),
                    ret is None <==> self.0.v() == i256_min(),
        @*/
    }

    impl CheckedNeg<PreciseDecimal> for PreciseDecimal {
        type Output = Self;
        /*@fn radix-common/src/math/precise_decimal.rs :: impl CheckedNeg<PreciseDecimal> for PreciseDecimal :: fn checked_neg
        @sig
            ensures ret matches Some(r) ==> r.0.v() == -self.0.v(),
                    ret is Some <==> in_i256(-self.0.v()),
        @subst <<c.map(Self)>> => <<c.map(|x: I256| -> (r: PreciseDecimal) ensures r.0 == x { PreciseDecimal(x) })>> why: Verus rejects a tuple-struct constructor used as a function value; the closure is its eta-expansion
        @*/
    }
    impl CheckedAdd<PreciseDecimal> for PreciseDecimal {
        type Output = Self;
        /*@fn radix-common/src/math/precise_decimal.rs :: impl CheckedAdd<PreciseDecimal> for PreciseDecimal :: fn checked_add
        @sig
            ensures ret matches Some(r) ==> r.0.v() == self.0.v() + other.0.v(),
                    ret is Some <==> in_i256(self.0.v() + other.0.v()),
        @subst <<c.map(Self)>> => <<c.map(|x: I256| -> (r: PreciseDecimal) ensures r.0 == x { PreciseDecimal(x) })>> why: Verus rejects a tuple-struct constructor used as a function value; the closure is its eta-expansion
        @*/
    }
    impl CheckedSub<PreciseDecimal> for PreciseDecimal {
        type Output = Self;
        /*@fn radix-common/src/math/precise_decimal.rs :: impl CheckedSub<PreciseDecimal> for PreciseDecimal :: fn checked_sub
        @sig
            ensures ret matches Some(r) ==> r.0.v() == self.0.v() - other.0.v(),
                    ret is Some <==> in_i256(self.0.v() - other.0.v()),
        @subst <<c.map(Self)>> => <<c.map(|x: I256| -> (r: PreciseDecimal) ensures r.0 == x { PreciseDecimal(x) })>> why: Verus rejects a tuple-struct constructor used as a function value; the closure is its eta-expansion
        @*/
    }
    impl CheckedMul<PreciseDecimal> for PreciseDecimal {
        type Output = Self;
        /*@fn radix-common/src/math/precise_decimal.rs :: impl CheckedMul<PreciseDecimal> for PreciseDecimal :: fn checked_mul
        @sig
            ensures ret matches Some(r) ==> r.0.v() == mul_spec(self.0.v(), other.0.v()),
                    ret is Some <==> (in_i256(mul_spec(self.0.v(), other.0.v())) && mul_spec(self.0.v(), other.0.v()) != i256_min()),
        @entry
            proof { lemma_mul_width(self.0.v() * other.0.v()); }
        @subst <<c_256.map(Self)>> => <<c_256.map(|x: I256| -> (r: PreciseDecimal) ensures r.0 == x { PreciseDecimal(x) })>> why: Verus rejects a tuple-struct constructor used as a function value; the closure is its eta-expansion
        @*/
    }
    impl CheckedDiv<PreciseDecimal> for PreciseDecimal {
        type Output = Self;
        /*@fn radix-common/src/math/precise_decimal.rs :: impl CheckedDiv<PreciseDecimal> for PreciseDecimal :: fn checked_div
        @sig
            ensures ret matches Some(r) ==> other.0.v() != 0 && r.0.v() == div_spec(self.0.v(), other.0.v()),
                    ret is Some <==> (other.0.v() != 0 && in_i256(div_spec(self.0.v(), other.0.v())) && div_spec(self.0.v(), other.0.v()) != i256_min()),
        @entry
            proof { lemma_div_width(self.0.v()); }
        @subst <<c_256.map(Self)>> => <<c_256.map(|x: I256| -> (r: PreciseDecimal) ensures r.0 == x { PreciseDecimal(x) })>> why: Verus rejects a tuple-struct constructor used as a function value; the closure is its eta-expansion
        @*/
    }

    // ---- C24 AS STATED, at the boundary: "whenever that result is representable" -------------------
    // EXPECTED TO FAIL -- known finding (known_findings.txt; replayed on the real crate by
    // kani/common_h test c24_finding_min_times_one_is_reported_as_overflow): a product or quotient equal
    // to the most negative value is representable, yet checked_mul / checked_div report None, because the
    // wide -> narrow conversion of the bnum wrappers rejects -2^(N-1).
    pub fn checked_mul_reports_every_representable_product_KNOWN_FINDING(a: PreciseDecimal, b: PreciseDecimal) -> (r: Option<PreciseDecimal>)
        ensures r is Some <==> in_i256(mul_spec(a.0.v(), b.0.v()))
    { a.checked_mul(b) }
    pub fn checked_div_reports_every_representable_quotient_KNOWN_FINDING(a: PreciseDecimal, b: PreciseDecimal) -> (r: Option<PreciseDecimal>)
        ensures r is Some <==> (b.0.v() != 0 && in_i256(div_spec(a.0.v(), b.0.v())))
    { a.checked_div(b) }
    // ---- panicking operators: panic <==> the checked operation reports None -------------------
    impl vstd::std_specs::ops::AddSpecImpl<PreciseDecimal> for PreciseDecimal {
        open spec fn obeys_add_spec() -> bool { true }
        open spec fn add_req(self, o: PreciseDecimal) -> bool { in_i256(self.0.v() + o.0.v()) }
        open spec fn add_spec(self, o: PreciseDecimal) -> PreciseDecimal { PreciseDecimal(I256::of(self.0.v() + o.0.v())) }
    }
    impl Add<PreciseDecimal> for PreciseDecimal {
        type Output = Self;
        /*@fn radix-common/src/math/precise_decimal.rs :: impl Add<PreciseDecimal> for PreciseDecimal :: fn add
        @entry
            proof { assert(in_i256(self.0.v() + other.0.v())); assert(I256::of(self.0.v() + other.0.v()).v() == self.0.v() + other.0.v()); }
        @*/
    }
    impl vstd::std_specs::ops::SubSpecImpl<PreciseDecimal> for PreciseDecimal {
        open spec fn obeys_sub_spec() -> bool { true }
        open spec fn sub_req(self, o: PreciseDecimal) -> bool { in_i256(self.0.v() - o.0.v()) }
        open spec fn sub_spec(self, o: PreciseDecimal) -> PreciseDecimal { PreciseDecimal(I256::of(self.0.v() - o.0.v())) }
    }
    impl Sub<PreciseDecimal> for PreciseDecimal {
        type Output = Self;
        /*@fn radix-common/src/math/precise_decimal.rs :: impl Sub<PreciseDecimal> for PreciseDecimal :: fn sub
        @entry
            proof { assert(in_i256(self.0.v() - other.0.v())); assert(I256::of(self.0.v() - other.0.v()).v() == self.0.v() - other.0.v()); }
        @*/
    }
    impl vstd::std_specs::ops::MulSpecImpl<PreciseDecimal> for PreciseDecimal {
        open spec fn obeys_mul_spec() -> bool { true }
        open spec fn mul_req(self, o: PreciseDecimal) -> bool { in_i256(mul_spec(self.0.v(), o.0.v())) && mul_spec(self.0.v(), o.0.v()) != i256_min() }
        open spec fn mul_spec(self, o: PreciseDecimal) -> PreciseDecimal { PreciseDecimal(I256::of(mul_spec(self.0.v(), o.0.v()))) }
    }
    impl Mul<PreciseDecimal> for PreciseDecimal {
        type Output = Self;
        /*@fn radix-common/src/math/precise_decimal.rs :: impl Mul<PreciseDecimal> for PreciseDecimal :: fn mul
        @entry
            proof { assert(in_i256(mul_spec(self.0.v(), other.0.v()))); assert(I256::of(mul_spec(self.0.v(), other.0.v())).v() == mul_spec(self.0.v(), other.0.v())); }
        @*/
    }
    impl vstd::std_specs::ops::DivSpecImpl<PreciseDecimal> for PreciseDecimal {
        open spec fn obeys_div_spec() -> bool { true }
        open spec fn div_req(self, o: PreciseDecimal) -> bool { o.0.v() != 0 && in_i256(div_spec(self.0.v(), o.0.v())) && div_spec(self.0.v(), o.0.v()) != i256_min() }
        open spec fn div_spec(self, o: PreciseDecimal) -> PreciseDecimal { PreciseDecimal(I256::of(div_spec(self.0.v(), o.0.v()))) }
    }
    impl Div<PreciseDecimal> for PreciseDecimal {
        type Output = Self;
        /*@fn radix-common/src/math/precise_decimal.rs :: impl Div<PreciseDecimal> for PreciseDecimal :: fn div
        @entry
            proof { assert(in_i256(div_spec(self.0.v(), other.0.v()))); assert(I256::of(div_spec(self.0.v(), other.0.v())).v() == div_spec(self.0.v(), other.0.v())); }
        @*/
    }
    impl vstd::std_specs::ops::NegSpecImpl for PreciseDecimal {
        open spec fn obeys_neg_spec() -> bool { true }
        open spec fn neg_req(self) -> bool { in_i256(-self.0.v()) }
        open spec fn neg_spec(self) -> PreciseDecimal { PreciseDecimal(I256::of(-self.0.v())) }
    }
    impl Neg for PreciseDecimal {
        type Output = Self;
        /*@fn radix-common/src/math/precise_decimal.rs :: impl Neg for PreciseDecimal :: fn neg
        @entry
            proof { assert(in_i256(-self.0.v())); assert(I256::of(-self.0.v()).v() == -self.0.v()); }
        @*/
    }
}
} // verus!
fn main() {}
