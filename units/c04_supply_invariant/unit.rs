// Unit c04_supply_invariant -- property C04 "Total supply always equals the sum of all vaults": the STEP CASES of
// the ledger-wide invariant, proved as lemmas over the contracts of the REAL fungible resource manager / vault /
// bucket functions (the same extraction and contracts as unit c03_fungible_supply, re-verified here so that the
// lemmas live in the same file as the contracts they compose; plus lock_amount / unlock_amount as in c10_vault_locks).
//
// Real code under contract (bodies extracted verbatim on every run):
//   radix-engine/src/blueprints/resource/fungible/fungible_resource_manager.rs ::
//     verify_divisibility, check_mint_amount, FungibleResourceManagerBlueprint::{mint, burn, package_burn,
//     burn_internal, drop_empty_bucket, create_empty_bucket, create_bucket, get_total_supply,
//     get_resource_type, assert_mintable, assert_burnable}
//   radix-engine/src/blueprints/resource/fungible/fungible_vault.rs :: FungibleVaultBlueprint::{take, take_advanced,
//     put, internal_take, internal_put, lock_amount, unlock_amount, get_divisibility, assert_not_frozen}
//   radix-engine/src/blueprints/resource/fungible/fungible_bucket.rs :: FungibleBucketBlueprint::{take,
//     take_advanced, put, internal_take, internal_put, lock_amount, unlock_amount, get_divisibility}
//   radix-engine/src/blueprints/resource/bucket_common.rs :: drop_fungible_bucket, From<BucketError> for RuntimeError
//   radix-engine-interface/src/blueprints/resource/mod.rs :: check_fungible_amount
//   radix-engine-interface/src/blueprints/resource/resource.rs :: LiquidFungibleResource::{new, amount, is_empty,
//     put, take_by_amount}, LockedFungibleResource::{is_locked, amount, default}
// run against a ghost-heap model of the SystemApi (env::SystemApi): fields keyed by (SELF | OUTER object, index)
// -- resource manager as actor: 0 = Divisibility, 1 = TotalSupply (present iff feature TrackTotalSupply);
// vault / bucket as actor: 0 = liquid balance, 1 = lock table, 2 = freeze status, OUTER 0 = Divisibility --
// the set of enabled features, the live objects (buckets) with their fields, and the event log.
//
// C04 layer (end of module `unit`): ghost World (all managers, vaults, live buckets), `views` / `writeback` (the
// actor-view <-> world lifting, one definition for all functions), measure `held(w, r)` = sum over vaults and live
// buckets of r of (liquid + max locked), `inv(w, r)` = tracked ==> recorded supply == held, one
// `lemma_<fn>_preserves_inv` per state-changing function whose hypothesis is that function's postcondition spec fn,
// `theorem_history` (any finite interleaving of such steps), `lemma_at_commit` (no live bucket, no lock ==> supply
// == sum of vault balances).  NOT covered: see props.frag.json.
use vstd::prelude::*;
// radix-rust `indexmap!{ k => v, .. }` (radix-rust/src/rust.rs): a fresh IndexMap, the pairs inserted in order
macro_rules! indexmap {
    ($($key:expr => $value:expr),* $(,)?) => ({
        let mut temp = index_map_new();
        $( temp.insert($key, $value); )*
        temp
    });
}
verus! {
/*@include shims/rt.rs @*/
/*@include shims/decimal.rs @*/
/*@include shims/maps.rs @*/
/*@include shims/sets.rs @*/
/*@include shims/decimal_attos.rs @*/
/*@include shims/try_from.rs @*/

pub mod env {
    use vstd::prelude::*;
    use super::decimal::*;
    use super::decimal::Decimal;
    use super::maps::IndexMap;
    use super::unit::{FungibleResourceManagerError, BucketError, VaultError, DroppedFungibleBucket,
        MintFungibleResourceEvent, BurnFungibleResourceEvent, LiquidFungibleResource, LockedFungibleResource, WithdrawStrategy, VaultFrozenFlag};

    // ================================================================================ addresses ==
    /// radix-common/src/types/node_id.rs
    #[derive(Clone, Copy, PartialEq, Eq)]
    pub struct NodeId(pub [u8; 30]);
    /// radix-common/src/data/scrypto/model/own.rs
    #[derive(Clone, Copy, PartialEq, Eq)]
    pub struct Own(pub NodeId);
    impl Own {
        pub fn as_node_id(&self) -> (r: &NodeId) ensures *r == self.0 { &self.0 }
    }
    /// radix-engine/src/errors.rs :: error_models::OwnedNodeId (a display wrapper around NodeId)
    pub mod error_models {
        use vstd::prelude::*;
        pub struct OwnedNodeId(pub super::NodeId);
        impl From<super::NodeId> for OwnedNodeId {
            fn from(n: super::NodeId) -> (r: OwnedNodeId) ensures r.0 == n { OwnedNodeId(n) }
        }
        impl vstd::std_specs::convert::FromSpecImpl<super::NodeId> for OwnedNodeId {
            open spec fn obeys_from_spec() -> bool { true }
            open spec fn from_spec(n: super::NodeId) -> OwnedNodeId { OwnedNodeId(n) }
        }
    }
    // ---- opaque payload types of error variants that the functions under contract never build ----
    #[verifier::external_body]
    pub struct NonFungibleLocalId { x: Vec<u8> }
    pub struct ProofError;

    /// RuntimeError / ApplicationError (radix-engine/src/errors.rs) reduced to what is built here;
    /// `Environment` stands for every error that only the system itself raises (kernel, system, costing ..)
    pub enum ApplicationError { FungibleResourceManagerError(FungibleResourceManagerError), BucketError(BucketError), VaultError(VaultError), Other }
    pub enum RuntimeError { ApplicationError(ApplicationError), Environment }

    // ================================================================================ field API ==
    pub type FieldHandle = u32;
    pub type FieldIndex = u8;
    pub type ActorStateHandle = u32;
    /// radix-engine-interface/src/api/mod.rs
    pub const ACTOR_STATE_SELF: ActorStateHandle = 0u32;
    pub const ACTOR_STATE_OUTER_OBJECT: ActorStateHandle = 1u32;
    /// a field of the current actor (SELF) or of its outer object (for a vault / bucket: the resource manager)
    pub type FieldRef = (ActorStateHandle, FieldIndex);
    /// radix-engine-interface/src/api/field_api.rs (bitflags): MUTABLE = 0b0000_0001, read_only() = empty()
    pub struct LockFlags { pub bits: u32 }
    impl LockFlags {
        pub const MUTABLE: LockFlags = LockFlags { bits: 1 };
        pub fn read_only() -> (r: LockFlags) ensures r.bits == 0 { LockFlags { bits: 0 } }
    }
    pub open spec fn is_mutable(flags: LockFlags) -> bool { flags.bits == 1 }

    /// `declare_native_blueprint_state!{ blueprint_ident: FungibleResourceManager, fields: { divisibility,
    /// total_supply } }` generates a `#[repr(u8)]` enum in declaration order with `From<..> for u8` (= discriminant)
    pub enum FungibleResourceManagerField { Divisibility, TotalSupply }
    pub open spec fn I_DIV() -> FieldIndex { 0u8 }
    pub open spec fn I_SUPPLY() -> FieldIndex { 1u8 }
    pub open spec fn frm_idx(f: FungibleResourceManagerField) -> FieldIndex {
        match f { FungibleResourceManagerField::Divisibility => I_DIV(), FungibleResourceManagerField::TotalSupply => I_SUPPLY() }
    }
    /// the two fields when the resource manager is the actor (SELF) ..
    pub open spec fn F_DIV() -> FieldRef { (0u32, 0u8) }
    pub open spec fn F_SUPPLY() -> FieldRef { (0u32, 1u8) }
    /// .. and the divisibility seen from one of its vaults / buckets (OUTER)
    pub open spec fn O_DIV() -> FieldRef { (1u32, 0u8) }
    impl From<FungibleResourceManagerField> for u8 {
        fn from(f: FungibleResourceManagerField) -> (r: u8) ensures r == frm_idx(f)
        { match f { FungibleResourceManagerField::Divisibility => 0u8, FungibleResourceManagerField::TotalSupply => 1u8 } }
    }
    impl vstd::std_specs::convert::FromSpecImpl<FungibleResourceManagerField> for u8 {
        open spec fn obeys_from_spec() -> bool { true }
        open spec fn from_spec(f: FungibleResourceManagerField) -> u8 { frm_idx(f) }
    }
    /// same macro for the fungible bucket: fields { liquid, locked }
    pub enum FungibleBucketField { Liquid, Locked }
    pub open spec fn I_LIQUID() -> FieldIndex { 0u8 }
    pub open spec fn I_LOCKED() -> FieldIndex { 1u8 }
    pub open spec fn bucket_idx(f: FungibleBucketField) -> FieldIndex {
        match f { FungibleBucketField::Liquid => I_LIQUID(), FungibleBucketField::Locked => I_LOCKED() }
    }
    impl From<FungibleBucketField> for u8 {
        fn from(f: FungibleBucketField) -> (r: u8) ensures r == bucket_idx(f)
        { match f { FungibleBucketField::Liquid => 0u8, FungibleBucketField::Locked => 1u8 } }
    }
    impl vstd::std_specs::convert::FromSpecImpl<FungibleBucketField> for u8 {
        open spec fn obeys_from_spec() -> bool { true }
        open spec fn from_spec(f: FungibleBucketField) -> u8 { bucket_idx(f) }
    }

    /// `declare_native_blueprint_state!{ blueprint_ident: FungibleVault, fields: { balance, locked_balance, freeze_status } }`
    pub enum FungibleVaultField { Balance, LockedBalance, FreezeStatus }
    pub open spec fn vault_idx(f: FungibleVaultField) -> FieldIndex {
        match f { FungibleVaultField::Balance => 0u8, FungibleVaultField::LockedBalance => 1u8, FungibleVaultField::FreezeStatus => 2u8 }
    }
    impl From<FungibleVaultField> for u8 {
        fn from(f: FungibleVaultField) -> (r: u8) ensures r == vault_idx(f)
        { match f { FungibleVaultField::Balance => 0u8, FungibleVaultField::LockedBalance => 1u8, FungibleVaultField::FreezeStatus => 2u8 } }
    }
    impl vstd::std_specs::convert::FromSpecImpl<FungibleVaultField> for u8 {
        open spec fn obeys_from_spec() -> bool { true }
        open spec fn from_spec(f: FungibleVaultField) -> u8 { vault_idx(f) }
    }
    /// the container fields when a vault / bucket is the actor: liquid balance, lock table, freeze status (vault only)
    pub open spec fn C_BAL() -> FieldRef { (0u32, 0u8) }
    pub open spec fn C_LOCKED() -> FieldRef { (0u32, 1u8) }
    pub open spec fn V_FREEZE() -> FieldRef { (0u32, 2u8) }

    /// radix-engine-interface vault.rs `bitflags!{ struct VaultFreezeFlags: u32 { WITHDRAW = 1, DEPOSIT = 2, BURN = 4 } }`
    pub struct VaultFreezeFlags { pub bits: u32 }
    impl VaultFreezeFlags {
        pub const WITHDRAW: VaultFreezeFlags = VaultFreezeFlags { bits: 1 };
        pub const DEPOSIT: VaultFreezeFlags = VaultFreezeFlags { bits: 2 };
        pub const BURN: VaultFreezeFlags = VaultFreezeFlags { bits: 4 };
        /// bitflags `intersects`: some flag in common
        pub fn intersects(&self, other: VaultFreezeFlags) -> (r: bool) ensures r == ((self.bits & other.bits) != 0) { (self.bits & other.bits) != 0 }
    }

    /// events/fungible_vault.rs (macro generated `define_events!`): one Decimal each
    pub mod fungible_vault {
        use super::super::decimal::Decimal;
        pub struct WithdrawEvent { pub amount: Decimal }
        pub struct DepositEvent { pub amount: Decimal }
    }
    pub mod events { pub use super::fungible_vault; }
    impl EventGhost for fungible_vault::WithdrawEvent { open spec fn ghost(&self) -> EventG { EventG::Withdraw(self.amount) } }
    impl EventGhost for fungible_vault::DepositEvent { open spec fn ghost(&self) -> EventG { EventG::Deposit(self.amount) } }

    /// `<Decimal as ForWithdrawal>::for_withdrawal` (radix-engine-interface resource/mod.rs; under contract in unit
    /// c25_rounding): `Exact` returns the amount itself, `Rounded(mode)` is `checked_round(divisibility, mode)`.
    /// Only the Exact case is specified here: whatever amount comes out is the amount that is withdrawn.
    impl Decimal {
        #[verifier::external_body]
        pub fn for_withdrawal(&self, divisibility: u8, withdraw_strategy: WithdrawStrategy) -> (r: Option<Decimal>)
            ensures withdraw_strategy is Exact ==> r == Some(*self)
        { unimplemented!() }
    }

    /// the `features:` of the same macro invocation.  `feature_name()` is `stringify!(<property name>)`: five
    /// distinct strings, so the name determines the feature (`feature_of`, uninterpreted inverse).
    pub enum FungibleResourceManagerFeature { TrackTotalSupply, VaultFreeze, VaultRecall, Mint, Burn }
    pub uninterp spec fn feature_of(name: Seq<char>) -> FungibleResourceManagerFeature;
    impl FungibleResourceManagerFeature {
        #[verifier::external_body]
        pub fn feature_name(&self) -> (r: &'static str) ensures feature_of(r@) == *self { unimplemented!() }
    }

    // ================================================================================ ghost heap ==
    /// ghost value of a field (of the resource manager, or of a bucket object)
    pub enum GhostVal { Divisibility(u8), Supply(Decimal), Liquid(Decimal), Locked(Map<Decimal, usize>), Frozen(VaultFrozenFlag), Other }
    /// a live (heap) object: its blueprint name and fields
    pub ghost struct ObjG { pub blueprint: Seq<char>, pub fields: Map<FieldIndex, GhostVal> }
    pub enum EventG { Mint(Decimal), Burn(Decimal), Withdraw(Decimal), Deposit(Decimal), Other }
    pub ghost struct State {
        /// fields of the current actor (SELF) and of its outer object
        pub fields: Map<FieldRef, GhostVal>,
        /// open field handles -> (field, opened MUTABLE)
        pub handles: Map<FieldHandle, (FieldRef, bool)>,
        /// features the actor / its outer object were instantiated with (immutable)
        pub features: Set<(ActorStateHandle, FungibleResourceManagerFeature)>,
        /// live objects owned by the current call frame (buckets)
        pub objects: Map<NodeId, ObjG>,
        /// application events emitted so far
        pub events: Seq<EventG>,
    }
    /// spec view of a typed payload (stands for ScryptoEncode / ScryptoDecode of the payload type)
    pub trait VerifPayload: Sized {
        spec fn accepts(v: GhostVal) -> bool;
        spec fn ghost(&self) -> GhostVal;
    }
    pub trait EventGhost: Sized { spec fn ghost(&self) -> EventG; }
    impl EventGhost for MintFungibleResourceEvent { open spec fn ghost(&self) -> EventG { EventG::Mint(self.amount) } }
    impl EventGhost for BurnFungibleResourceEvent { open spec fn ghost(&self) -> EventG { EventG::Burn(self.amount) } }

    /// ASSUMED: the system API itself fails with kernel / system / module errors only, never with a
    /// blueprint-level `RuntimeError::ApplicationError`.
    pub trait SystemApiError: Sized { spec fn is_application_error(&self) -> bool; }
    impl SystemApiError for RuntimeError {
        open spec fn is_application_error(&self) -> bool { *self is ApplicationError }
    }

    /// radix-engine-interface FieldValue: an encoded field payload (+ locked flag)
    #[verifier::external_body]
    pub struct FieldValue { _p: () }
    impl FieldValue {
        pub uninterp spec fn ghost(&self) -> GhostVal;
        #[verifier::external_body]
        pub fn new<S: VerifPayload>(value: S) -> (r: FieldValue) ensures r.ghost() == value.ghost() { unimplemented!() }
    }
    pub open spec fn ghost_fields(m: Map<FieldIndex, FieldValue>) -> Map<FieldIndex, GhostVal> {
        m.map_values(|v: FieldValue| v.ghost())
    }
    /// what the raw (encoded) fields returned by `drop_object` decode to
    pub uninterp spec fn raw_fields(raw: Vec<Vec<u8>>) -> Map<FieldIndex, GhostVal>;

    /// Ghost-heap model of the part of radix-engine-interface SystemApi used by the resource manager
    /// (actor_api.rs, field_api.rs, object_api.rs).  Any call may fail for reasons of its own (costing,
    /// limits, substate locks, ownership): an `Err` changes nothing (the transaction is aborted anyway).
    /// `field_read_typed` decodes with `.unwrap()`: reading a field whose value is not of the requested
    /// type is a panic, hence a precondition.
    pub trait SystemApi<E: SystemApiError>: Sized {
        spec fn state(&self) -> State;

        fn actor_open_field(&mut self, object_handle: ActorStateHandle, field: FieldIndex, flags: LockFlags) -> (r: Result<FieldHandle, E>)
            requires object_handle == ACTOR_STATE_SELF || object_handle == ACTOR_STATE_OUTER_OBJECT
            ensures
                r matches Ok(h) ==> !old(self).state().handles.contains_key(h)
                    && final(self).state() == (State { handles: old(self).state().handles.insert(h, ((object_handle, field), is_mutable(flags))), ..old(self).state() }),
                r is Err ==> final(self).state() == old(self).state(),
                r matches Err(e) ==> !e.is_application_error();

        fn field_read_typed<S: VerifPayload>(&mut self, handle: FieldHandle) -> (r: Result<S, E>)
            requires
                old(self).state().handles.contains_key(handle),
                old(self).state().fields.contains_key(old(self).state().handles[handle].0),
                S::accepts(old(self).state().fields[old(self).state().handles[handle].0]),
            ensures
                final(self).state() == old(self).state(),
                r matches Ok(s) ==> s.ghost() == old(self).state().fields[old(self).state().handles[handle].0],
                r matches Err(e) ==> !e.is_application_error();

        fn field_write_typed<S: VerifPayload>(&mut self, handle: FieldHandle, substate: &S) -> (r: Result<(), E>)
            requires
                old(self).state().handles.contains_key(handle),
                old(self).state().handles[handle].1,
            ensures
                r is Ok ==> final(self).state() == (State { fields: old(self).state().fields.insert(old(self).state().handles[handle].0, substate.ghost()), ..old(self).state() }),
                r is Err ==> final(self).state() == old(self).state(),
                r matches Err(e) ==> !e.is_application_error();

        fn field_close(&mut self, handle: FieldHandle) -> (r: Result<(), E>)
            requires old(self).state().handles.contains_key(handle)
            ensures
                r is Ok ==> final(self).state() == (State { handles: old(self).state().handles.remove(handle), ..old(self).state() }),
                r is Err ==> final(self).state() == old(self).state(),
                r matches Err(e) ==> !e.is_application_error();

        /// is the named feature one the actor / its outer object (the resource manager) was instantiated with
        fn actor_is_feature_enabled(&mut self, object_handle: ActorStateHandle, feature: &str) -> (r: Result<bool, E>)
            requires object_handle == ACTOR_STATE_SELF || object_handle == ACTOR_STATE_OUTER_OBJECT
            ensures
                final(self).state() == old(self).state(),
                r matches Ok(b) ==> b == old(self).state().features.contains((object_handle, feature_of(feature@))),
                r matches Err(e) ==> !e.is_application_error();

        /// creates a new object of an inner blueprint of this package with the given fields; its id is fresh
        fn new_simple_object(&mut self, blueprint_ident: &str, fields: IndexMap<FieldIndex, FieldValue>) -> (r: Result<NodeId, E>)
            ensures
                r matches Ok(id) ==> !old(self).state().objects.contains_key(id)
                    && final(self).state() == (State { objects: old(self).state().objects.insert(id,
                            ObjG { blueprint: blueprint_ident@, fields: ghost_fields(fields@) }), ..old(self).state() }),
                r is Err ==> final(self).state() == old(self).state(),
                r matches Err(e) ==> !e.is_application_error();

        /// drops a live object (system.rs: only if it is an inner object of the actor's outer object, i.e. a
        /// bucket of THIS resource manager) and returns its encoded fields
        fn drop_object(&mut self, node_id: &NodeId) -> (r: Result<Vec<Vec<u8>>, E>)
            ensures
                r matches Ok(raw) ==> old(self).state().objects.contains_key(*node_id)
                    && raw_fields(raw) == old(self).state().objects[*node_id].fields
                    && final(self).state() == (State { objects: old(self).state().objects.remove(*node_id), ..old(self).state() }),
                r is Err ==> final(self).state() == old(self).state(),
                r matches Err(e) ==> !e.is_application_error();
    }

    // ---- versioned payload wrappers (macro generated in /repo): a payload is its latest-version content ----
    pub struct FungibleResourceManagerDivisibilityFieldPayload { pub content: u8 }
    impl VerifPayload for FungibleResourceManagerDivisibilityFieldPayload {
        open spec fn accepts(v: GhostVal) -> bool { v is Divisibility }
        open spec fn ghost(&self) -> GhostVal { GhostVal::Divisibility(self.content) }
    }
    impl FungibleResourceManagerDivisibilityFieldPayload {
        pub fn fully_update_and_into_latest_version(self) -> (r: u8) ensures r == self.content { self.content }
        pub fn from_content_source(c: u8) -> (r: Self) ensures r.content == c { Self { content: c } }
    }
    pub struct FungibleResourceManagerTotalSupplyFieldPayload { pub content: Decimal }
    impl VerifPayload for FungibleResourceManagerTotalSupplyFieldPayload {
        open spec fn accepts(v: GhostVal) -> bool { v is Supply }
        open spec fn ghost(&self) -> GhostVal { GhostVal::Supply(self.content) }
    }
    impl FungibleResourceManagerTotalSupplyFieldPayload {
        pub fn fully_update_and_into_latest_version(self) -> (r: Decimal) ensures r == self.content { self.content }
        pub fn from_content_source(c: Decimal) -> (r: Self) ensures r.content == c { Self { content: c } }
    }

    pub struct FungibleVaultBalanceFieldPayload { pub content: LiquidFungibleResource }
    impl VerifPayload for FungibleVaultBalanceFieldPayload {
        open spec fn accepts(v: GhostVal) -> bool { v is Liquid }
        open spec fn ghost(&self) -> GhostVal { GhostVal::Liquid(self.content.amount) }
    }
    impl FungibleVaultBalanceFieldPayload {
        pub fn fully_update_and_into_latest_version(self) -> (r: LiquidFungibleResource) ensures r == self.content { self.content }
        pub fn from_content_source(c: LiquidFungibleResource) -> (r: Self) ensures r.content == c { Self { content: c } }
    }
    pub struct FungibleVaultLockedBalanceFieldPayload { pub content: LockedFungibleResource }
    impl VerifPayload for FungibleVaultLockedBalanceFieldPayload {
        open spec fn accepts(v: GhostVal) -> bool { v is Locked }
        open spec fn ghost(&self) -> GhostVal { GhostVal::Locked(self.content.amounts@) }
    }
    impl FungibleVaultLockedBalanceFieldPayload {
        pub fn fully_update_and_into_latest_version(self) -> (r: LockedFungibleResource) ensures r == self.content { self.content }
        pub fn from_content_source(c: LockedFungibleResource) -> (r: Self) ensures r.content == c { Self { content: c } }
    }
    pub struct FungibleVaultFreezeStatusFieldPayload { pub content: VaultFrozenFlag }
    impl VerifPayload for FungibleVaultFreezeStatusFieldPayload {
        open spec fn accepts(v: GhostVal) -> bool { v is Frozen }
        open spec fn ghost(&self) -> GhostVal { GhostVal::Frozen(self.content) }
    }
    impl FungibleVaultFreezeStatusFieldPayload {
        pub fn fully_update_and_into_latest_version(self) -> (r: VaultFrozenFlag) ensures r == self.content { self.content }
    }

    /// radix-native-sdk Runtime::emit_event -> api.actor_emit_event: appends to the event log, touches nothing else
    pub struct Runtime;
    impl Runtime {
        #[verifier::external_body]
        pub fn emit_event<Y: SystemApi<E>, E: SystemApiError, T: EventGhost>(api: &mut Y, event: T) -> (r: Result<(), E>)
            ensures
                r is Ok ==> final(api).state() == (State { events: old(api).state().events.push(event.ghost()), ..old(api).state() }),
                r is Err ==> final(api).state() == old(api).state(),
                r matches Err(e) ==> !e.is_application_error(),
        { unimplemented!() }
    }

    /// bucket_common.rs `impl From<Vec<Vec<u8>>> for DroppedFungibleBucket`: `scrypto_decode(&val[i]).unwrap()`
    /// of the Liquid and Locked fields.  It PANICS on fields of any other shape; a trait impl cannot carry a
    /// precondition, so the contract is conditional and callers under contract establish the condition
    /// (`is_fungible_bucket`) from their own precondition.
    impl From<Vec<Vec<u8>>> for DroppedFungibleBucket {
        #[verifier::external_body]
        fn from(val: Vec<Vec<u8>>) -> (r: DroppedFungibleBucket)
            ensures
                (raw_fields(val).contains_key(I_LIQUID()) && raw_fields(val)[I_LIQUID()] is Liquid
                    && raw_fields(val).contains_key(I_LOCKED()) && raw_fields(val)[I_LOCKED()] is Locked)
                ==> (r.liquid.amount == raw_fields(val)[I_LIQUID()]->Liquid_0
                    && r.locked.amounts@ == raw_fields(val)[I_LOCKED()]->Locked_0)
        { unimplemented!() }
    }

    /// `lazy_static!{ static ref MAX_MINT_AMOUNT: Decimal = Decimal::from_attos(I192::from(2).pow(152)); }`
    /// ASSUMED copy of the initialiser (a macro invocation: not reachable by the item extractor): 2^152 attos.
    pub open spec fn max_mint_attos() -> int { 0x1_0000_0000_0000_0000int * 0x1_0000_0000_0000_0000 * 0x100_0000 }
    pub struct MaxMintAmountLazy;
    impl core::ops::Deref for MaxMintAmountLazy {
        type Target = Decimal;
        #[verifier::external_body]
        fn deref(&self) -> (r: &Decimal) ensures r.v() == max_mint_attos() { unimplemented!() }
    }
    #[allow(non_upper_case_globals)]
    pub const MAX_MINT_AMOUNT: MaxMintAmountLazy = MaxMintAmountLazy;
}

pub mod unit {
    use vstd::prelude::*;
    use super::rt::*;
    use super::decimal::*;
    use super::decimal::Decimal;
    use super::maps::*;
    use super::sets::*;
    use super::decimal_attos::*;
    use super::env::*;
    use vstd::arithmetic::power::pow;
    use core::ops::AddAssign;
    broadcast use {group_decimal, group_sets, group_i192, super::try_from::axiom_question_mark_calls_from};

    /*@item radix-engine-interface/src/blueprints/resource/resource.rs :: enum ResourceError
    @derive
    @*/
    /*@item radix-engine/src/blueprints/resource/bucket_common.rs :: enum BucketError
    @derive
    @*/
    /*@item radix-engine/src/blueprints/resource/vault_common.rs :: enum VaultError
    @derive
    @*/
    /*@item radix-common/src/math/rounding_mode.rs :: enum RoundingMode
    @derive Clone, Copy
    @*/
    /*@item radix-engine-interface/src/blueprints/resource/mod.rs :: enum WithdrawStrategy
    @derive Clone, Copy
    @*/
    /*@item radix-engine-interface/src/blueprints/resource/resource.rs :: struct VaultFrozenFlag
    @derive
    @*/
    // `Result::unwrap` (the R5 image of `.expect(..)`) needs `E: Debug`; formatting is not under contract.
    #[verifier::external]
    impl core::fmt::Debug for ResourceError {
        fn fmt(&self, f: &mut core::fmt::Formatter<'_>) -> core::fmt::Result { f.write_str("ResourceError") }
    }
    impl From<BucketError> for RuntimeError {
        /*@fn radix-engine/src/blueprints/resource/bucket_common.rs :: impl From<BucketError> for RuntimeError :: fn from
        @sig
            ensures ret == RuntimeError::ApplicationError(ApplicationError::BucketError(bucket_error))
        @*/
    }
    impl vstd::std_specs::convert::FromSpecImpl<BucketError> for RuntimeError {
        open spec fn obeys_from_spec() -> bool { true }
        open spec fn from_spec(e: BucketError) -> RuntimeError { RuntimeError::ApplicationError(ApplicationError::BucketError(e)) }
    }
    /*@item radix-engine-interface/src/blueprints/resource/resource.rs :: struct LiquidFungibleResource
    @derive
    @*/
    /*@item radix-engine-interface/src/blueprints/resource/resource.rs :: struct LockedFungibleResource
    @derive
    @*/
    /*@item radix-engine/src/blueprints/resource/bucket_common.rs :: struct DroppedFungibleBucket
    @derive
    @*/
    /*@item radix-engine/src/blueprints/resource/fungible/fungible_resource_manager.rs :: enum FungibleResourceManagerError
    @derive
    @*/
    /*@item radix-engine-interface/src/blueprints/resource/bucket.rs :: struct Bucket
    @derive
    @*/
    /*@item radix-engine/src/blueprints/resource/events/resource_manager.rs :: struct MintFungibleResourceEvent
    @derive
    @*/
    /*@item radix-engine/src/blueprints/resource/events/resource_manager.rs :: struct BurnFungibleResourceEvent
    @derive
    @*/
    /*@item radix-engine-interface/src/blueprints/resource/resource_type.rs :: enum ResourceType
    @derive
    @*/
    /*@item radix-engine/src/blueprints/resource/fungible/fungible_resource_manager.rs :: const DIVISIBILITY_MAXIMUM
    @*/
    // (Verus needs the explicit 'static; the value is re-read from /repo on every run)
    pub const FUNGIBLE_BUCKET_BLUEPRINT: &'static str = /*@expr-after radix-engine-interface/src/blueprints/resource/fungible/fungible_bucket.rs :: const FUNGIBLE_BUCKET_BLUEPRINT :: <<&str =>> @*/;
    pub struct FungibleResourceManagerBlueprint;
    pub struct FungibleVaultBlueprint;
    pub struct FungibleBucketBlueprint;
    /// opaque: only carried inside ResourceType::NonFungible, which is never built here
    pub struct NonFungibleIdType;

    // ==========================================================================================
    // ORACLE (from the property statement)
    // ==========================================================================================
    /// an amount a resource of divisibility `d` can hold: non-negative and a whole number of 10^(18-d) attos
    pub open spec fn respects_divisibility(attos: int, d: int) -> bool {
        attos >= 0 && attos % pow(10, (18 - d) as nat) == 0
    }
    /// what may be minted in one call
    pub open spec fn mintable_amount(attos: int, d: int) -> bool {
        respects_divisibility(attos, d) && attos <= max_mint_attos()
    }
    pub open spec fn mint_enabled(s: State) -> bool { s.features.contains((ACTOR_STATE_SELF, FungibleResourceManagerFeature::Mint)) }
    pub open spec fn burn_enabled(s: State) -> bool { s.features.contains((ACTOR_STATE_SELF, FungibleResourceManagerFeature::Burn)) }
    /// the resource tracks its total supply
    pub open spec fn tracks(s: State) -> bool { s.features.contains((ACTOR_STATE_SELF, FungibleResourceManagerFeature::TrackTotalSupply)) }
    /// well-formed resource manager (established by create_object): a legal divisibility, and the
    /// TotalSupply field exists when the supply is tracked
    pub open spec fn wf(s: State) -> bool {
        &&& s.fields.contains_key(F_DIV()) && s.fields[F_DIV()] is Divisibility
        &&& s.fields[F_DIV()]->Divisibility_0 <= 18
        &&& (tracks(s) ==> s.fields.contains_key(F_SUPPLY()) && s.fields[F_SUPPLY()] is Supply)
    }
    pub open spec fn divisibility(s: State) -> int { s.fields[F_DIV()]->Divisibility_0 as int }
    /// the recorded total supply, in attos (meaningful when `tracks`)
    pub open spec fn supply(s: State) -> int { s.fields[F_SUPPLY()]->Supply_0.v() }
    /// every field except TotalSupply is untouched
    pub open spec fn frame_supply(f0: Map<FieldRef, GhostVal>, f1: Map<FieldRef, GhostVal>) -> bool {
        f1.remove(F_SUPPLY()) =~= f0.remove(F_SUPPLY())
    }
    /// handles that were open stay open (with the same field / mode)
    pub open spec fn handles_kept(h0: Map<FieldHandle, (FieldRef, bool)>, h1: Map<FieldHandle, (FieldRef, bool)>) -> bool {
        forall|h: FieldHandle| h0.contains_key(h) ==> h1.contains_key(h) && h1[h] == h0[h]
    }
    pub open spec fn is_fungible_bucket(o: ObjG) -> bool {
        &&& o.fields.contains_key(I_LIQUID()) && o.fields[I_LIQUID()] is Liquid
        &&& o.fields.contains_key(I_LOCKED()) && o.fields[I_LOCKED()] is Locked
    }
    pub open spec fn bucket_amount(o: ObjG) -> int { o.fields[I_LIQUID()]->Liquid_0.v() }
    pub open spec fn bucket_locks(o: ObjG) -> Map<Decimal, usize> { o.fields[I_LOCKED()]->Locked_0 }
    /// a freshly created fungible bucket holding `a`: nothing locked
    pub open spec fn is_new_bucket(o: ObjG, a: Decimal) -> bool {
        &&& o.blueprint == FUNGIBLE_BUCKET_BLUEPRINT@
        &&& o.fields.dom() =~= set![I_LIQUID(), I_LOCKED()]
        &&& o.fields[I_LIQUID()] == GhostVal::Liquid(a)
        &&& o.fields[I_LOCKED()] == GhostVal::Locked(Map::<Decimal, usize>::empty())
    }
    // ---- the contracts' state relations, as spec fns shared by the `ensures` of the real functions and by the
    // ---- C04 step lemmas below (so that the lemmas' hypotheses cannot drift away from what is proved of the code)
    /// create_bucket(amount) == Ok(b): one fresh bucket `b` holding exactly `amount`, nothing else changes
    pub open spec fn create_bucket_post(s0: State, s1: State, amount: Decimal, b: NodeId) -> bool {
        &&& !s0.objects.contains_key(b)
        &&& s1.objects.contains_key(b) && is_new_bucket(s1.objects[b], amount)
        &&& s1 == (State { objects: s0.objects.insert(b, s1.objects[b]), ..s0 })
    }
    /// create_empty_bucket() == Ok(b): one fresh bucket holding 0
    pub open spec fn create_empty_bucket_post(s0: State, s1: State, b: NodeId) -> bool {
        &&& !s0.objects.contains_key(b)
        &&& s1.objects.contains_key(b) && is_fungible_bucket(s1.objects[b])
        &&& bucket_amount(s1.objects[b]) == 0
        &&& bucket_locks(s1.objects[b]) == Map::<Decimal, usize>::empty()
        &&& s1 == (State { objects: s0.objects.insert(b, s1.objects[b]), ..s0 })
    }
    /// mint(amount) == Ok(b)
    pub open spec fn mint_post(s0: State, s1: State, amount: Decimal, b: NodeId) -> bool {
        // only a mintable resource, only a legal amount
        &&& mint_enabled(s0)
        &&& mintable_amount(amount.v(), divisibility(s0))
        // exactly `amount` enters circulation: one new bucket holding it, nothing locked ..
        &&& !s0.objects.contains_key(b)
        &&& s1.objects.contains_key(b) && is_new_bucket(s1.objects[b], amount)
        &&& s1.objects == s0.objects.insert(b, s1.objects[b])
        // .. the recorded supply grows by exactly that ..
        &&& (tracks(s0) ==> wf(s1) && supply(s1) == supply(s0) + amount.v() && frame_supply(s0.fields, s1.fields))
        &&& (!tracks(s0) ==> s1.fields == s0.fields)
        // .. and exactly one Mint event reports it
        &&& s1.events == s0.events.push(EventG::Mint(amount))
        &&& s1.features == s0.features
    }
    /// a refused mint changes neither fields nor objects nor events
    pub open spec fn mint_refused(s0: State, s1: State) -> bool {
        s1.fields == s0.fields && s1.objects == s0.objects && s1.events == s0.events
    }
    /// drop_fungible_bucket(node) == Ok(b): the bucket existed, backed no proof, is removed, and `b` carries its content
    pub open spec fn drop_fungible_post(s0: State, s1: State, node: NodeId, b: DroppedFungibleBucket) -> bool {
        &&& s0.objects.contains_key(node)
        &&& b.liquid.amount.v() == bucket_amount(s0.objects[node])
        // a bucket with live proofs cannot be dropped
        &&& bucket_locks(s0.objects[node]).dom().len() == 0
        &&& b.locked.amounts@ == bucket_locks(s0.objects[node])
        &&& s1 == (State { objects: s0.objects.remove(node), ..s0 })
    }
    /// drop_empty_bucket(node) is Ok: only a bucket holding nothing (and backing no proof) can be dropped without burning
    pub open spec fn drop_empty_post(s0: State, s1: State, node: NodeId) -> bool {
        &&& s0.objects.contains_key(node)
        &&& bucket_amount(s0.objects[node]) == 0
        &&& bucket_locks(s0.objects[node]).dom().len() == 0
        &&& s1 == (State { objects: s0.objects.remove(node), ..s0 })
    }
    /// the blueprint-level error a mint of `a` fails with
    pub open spec fn mint_app_error(s: State, a: Decimal) -> FungibleResourceManagerError {
        if !mint_enabled(s) { FungibleResourceManagerError::NotMintable }
        else if !respects_divisibility(a.v(), divisibility(s)) { FungibleResourceManagerError::InvalidAmount(a, s.fields[F_DIV()]->Divisibility_0) }
        else if a.v() > max_mint_attos() { FungibleResourceManagerError::MaxMintAmountExceeded }
        else { FungibleResourceManagerError::UnexpectedDecimalComputationError }
    }
    /// C03 for a burn of bucket `node`: on success exactly the bucket's amount leaves circulation (the bucket
    /// is consumed) and the recorded supply shrinks by exactly that; whatever happens, no other object, no other
    /// field and no feature changes
    pub open spec fn burn_ok(s0: State, s1: State, node: NodeId, ok: bool) -> bool {
        &&& ok ==> {
            &&& burn_enabled(s0)
            &&& s0.objects.contains_key(node)
            // a bucket backing a live proof cannot be burnt
            &&& bucket_locks(s0.objects[node]).dom().len() == 0
            &&& s1.objects == s0.objects.remove(node)
            &&& (tracks(s0) ==> wf(s1) && supply(s1) == supply(s0) - bucket_amount(s0.objects[node]) && frame_supply(s0.fields, s1.fields))
            &&& (!tracks(s0) ==> s1.fields == s0.fields)
            &&& s1.events == s0.events.push(EventG::Burn(s0.objects[node].fields[I_LIQUID()]->Liquid_0))
            &&& s1.handles =~= s0.handles
        }
        // a resource that is not burnable: refused, nothing changes
        &&& (!burn_enabled(s0) ==> !ok && s1 == s0)
        // a supply that would leave the Decimal range is refused (never wraps)
        &&& (burn_enabled(s0) && tracks(s0) && s0.objects.contains_key(node)
                && !in_dec(supply(s0) - bucket_amount(s0.objects[node])) ==> !ok && s1.fields == s0.fields)
        &&& s1.features == s0.features
        &&& s1.objects.remove(node) =~= s0.objects.remove(node)
        &&& handles_kept(s0.handles, s1.handles)
    }
    /// the blueprint-level errors of a burn
    pub open spec fn burn_app_error(s0: State, node: NodeId, e: RuntimeError) -> bool {
        if !burn_enabled(s0) { e == frm_err(FungibleResourceManagerError::NotBurnable) }
        else {
            ||| (e is ApplicationError && e->ApplicationError_0 is BucketError)
            ||| (e == frm_err(FungibleResourceManagerError::UnexpectedDecimalComputationError)
                 && tracks(s0) && s0.objects.contains_key(node) && !in_dec(supply(s0) - bucket_amount(s0.objects[node])))
        }
    }
    pub open spec fn frm_err(e: FungibleResourceManagerError) -> RuntimeError {
        RuntimeError::ApplicationError(ApplicationError::FungibleResourceManagerError(e))
    }

    // ---- vault / bucket as the actor --------------------------------------------------------------------
    /// what can be taken out of a container holding `bal`
    pub open spec fn take_ok(bal: int, amt: int) -> bool { amt <= bal && in_dec(bal - amt) }
    /// a fungible container (vault or bucket) of a well-formed resource: a liquid balance, and the resource
    /// manager's divisibility visible as outer object
    pub open spec fn wf_container(s: State) -> bool {
        &&& s.fields.contains_key(C_BAL()) && s.fields[C_BAL()] is Liquid
        &&& s.fields.contains_key(O_DIV()) && s.fields[O_DIV()] is Divisibility && s.fields[O_DIV()]->Divisibility_0 <= 18
    }
    pub open spec fn freezable(s: State) -> bool { s.features.contains((ACTOR_STATE_OUTER_OBJECT, FungibleResourceManagerFeature::VaultFreeze)) }
    pub open spec fn wf_vault(s: State) -> bool {
        wf_container(s) && (freezable(s) ==> s.fields.contains_key(V_FREEZE()) && s.fields[V_FREEZE()] is Frozen)
    }
    /// the vault is frozen for (some of) the given operations
    pub open spec fn frozen_for(s: State, flags: VaultFreezeFlags) -> bool {
        freezable(s) && (s.fields[V_FREEZE()]->Frozen_0.frozen.bits & flags.bits) != 0
    }
    /// the container's liquid balance in attos
    pub open spec fn balance(s: State) -> int { s.fields[C_BAL()]->Liquid_0.v() }
    pub open spec fn outer_divisibility(s: State) -> int { s.fields[O_DIV()]->Divisibility_0 as int }
    /// every field except the liquid balance is untouched
    pub open spec fn frame_balance(f0: Map<FieldRef, GhostVal>, f1: Map<FieldRef, GhostVal>) -> bool {
        f1.remove(C_BAL()) =~= f0.remove(C_BAL())
    }
    /// internal_take(amount) is Ok: exactly `amount` leaves the liquid balance (and is returned BY VALUE)
    pub open spec fn internal_take_post(s0: State, s1: State, amount: Decimal) -> bool {
        &&& take_ok(balance(s0), amount.v())
        &&& s1.fields.contains_key(C_BAL()) && s1.fields[C_BAL()] is Liquid
        &&& balance(s1) == balance(s0) - amount.v()
        &&& frame_balance(s0.fields, s1.fields)
    }
    /// internal_put(resource) is Ok: exactly the resource's amount (passed BY VALUE) is added to the liquid balance
    pub open spec fn internal_put_post(s0: State, s1: State, amount: Decimal) -> bool {
        &&& s1.fields.contains_key(C_BAL()) && s1.fields[C_BAL()] is Liquid
        &&& balance(s1) == balance(s0) + amount.v()
        &&& frame_balance(s0.fields, s1.fields)
        // (the same frame, in the form that composes through a tail call)
        &&& s1.fields =~= s0.fields.insert(C_BAL(), s1.fields[C_BAL()])
    }
    /// C03 for a withdrawal: a NEW bucket `b` appears holding exactly what left the container's balance
    pub open spec fn withdrawn(s0: State, s1: State, b: NodeId, requested: Decimal, strategy: WithdrawStrategy) -> bool {
        &&& !s0.objects.contains_key(b) && s1.objects.contains_key(b)
        &&& is_new_bucket(s1.objects[b], s1.objects[b].fields[I_LIQUID()]->Liquid_0)
        &&& s1.objects == s0.objects.insert(b, s1.objects[b])
        // conservation: bucket amount == balance decrease
        &&& balance(s1) == balance(s0) - bucket_amount(s1.objects[b])
        // never negative, never more than there is, always a legal amount of the resource
        &&& respects_divisibility(bucket_amount(s1.objects[b]), outer_divisibility(s0))
        &&& bucket_amount(s1.objects[b]) <= balance(s0)
        &&& (strategy is Exact ==> bucket_amount(s1.objects[b]) == requested.v())
        &&& s1.fields.contains_key(C_BAL()) && s1.fields[C_BAL()] is Liquid
        &&& frame_balance(s0.fields, s1.fields)
        &&& s1.handles =~= s0.handles
        &&& s1.features == s0.features
    }
    /// C03 for a deposit: bucket `b` is consumed and exactly its amount is added to the container's balance
    pub open spec fn deposited(s0: State, s1: State, b: NodeId) -> bool {
        &&& s0.objects.contains_key(b)
        &&& bucket_locks(s0.objects[b]).dom().len() == 0
        &&& s1.objects == s0.objects.remove(b)
        &&& balance(s1) == balance(s0) + bucket_amount(s0.objects[b])
        &&& s1.fields.contains_key(C_BAL()) && s1.fields[C_BAL()] is Liquid
        &&& frame_balance(s0.fields, s1.fields)
        &&& s1.handles =~= s0.handles
        &&& s1.features == s0.features
    }

    // ---- proofs lock part of a container (lock accounting as in unit c10_vault_locks) ----------------------
    /// m is max(keys U {0})
    pub open spec fn is_max_locked(keys: Set<Decimal>, m: int) -> bool {
        &&& m >= 0
        &&& forall|k: Decimal| keys.contains(k) ==> k.v() <= m
        &&& (m == 0 || exists|k: Decimal| keys.contains(k) && k.v() == m)
    }
    pub proof fn lemma_max_of(s: Set<Decimal>)
        ensures is_max_locked(s, max_of(s))
        decreases s.len()
    {
        if s.len() == 0 {
            assert forall|k: Decimal| s.contains(k) implies k.v() <= 0 by {
                assert(s =~= Set::<Decimal>::empty());
            }
        } else {
            let x = s.choose();
            let t = s.remove(x);
            lemma_max_of(t);
            let r = max_of(t);
            let m = if x.v() > r { x.v() } else { r };
            assert forall|k: Decimal| s.contains(k) implies k.v() <= m by {
                if k != x { assert(t.contains(k)); }
            }
            if m != 0 {
                if x.v() > r { assert(s.contains(x)); }
                else {
                    let k = choose|k: Decimal| t.contains(k) && k.v() == r;
                    assert(s.contains(k));
                }
            }
        }
    }
    pub proof fn lemma_max_unique(keys: Set<Decimal>, m1: int, m2: int)
        requires is_max_locked(keys, m1), is_max_locked(keys, m2)
        ensures m1 == m2
    {}
    /// one more lock of amount `a`: the held amount becomes max(held, a)
    pub proof fn lemma_max_insert(s: Set<Decimal>, a: Decimal)
        ensures max_of(s.insert(a)) == (if a.v() > max_of(s) { a.v() } else { max_of(s) })
    {
        lemma_max_of(s);
        lemma_max_of(s.insert(a));
        let m = if a.v() > max_of(s) { a.v() } else { max_of(s) };
        assert(is_max_locked(s.insert(a), m)) by {
            if m != 0 {
                if a.v() > max_of(s) { assert(s.insert(a).contains(a)); }
                else {
                    let k = choose|k: Decimal| s.contains(k) && k.v() == max_of(s);
                    assert(s.insert(a).contains(k));
                }
            }
        }
        lemma_max_unique(s.insert(a), m, max_of(s.insert(a)));
    }
    /// fewer locks never hold more
    pub proof fn lemma_max_subset(s1: Set<Decimal>, s2: Set<Decimal>)
        requires s1.subset_of(s2)
        ensures 0 <= max_of(s1) <= max_of(s2)
    {
        lemma_max_of(s1);
        lemma_max_of(s2);
        if max_of(s1) != 0 {
            let k = choose|k: Decimal| s1.contains(k) && k.v() == max_of(s1);
            assert(s2.contains(k));
        }
    }
    /// lock table after one more / one fewer proof of `a`
    pub open spec fn locks_inc(l: Map<Decimal, usize>, a: Decimal) -> Map<Decimal, usize> {
        l.insert(a, ((if l.contains_key(a) { l[a] as int } else { 0int }) + 1) as usize)
    }
    pub open spec fn locks_dec(l: Map<Decimal, usize>, a: Decimal) -> Map<Decimal, usize> {
        if l[a] > 1 { l.insert(a, (l[a] - 1) as usize) } else { l.remove(a) }
    }
    pub open spec fn pos(i: int) -> int { if i > 0 { i } else { 0 } }
    /// amount held behind the live proofs of the acting container
    pub open spec fn self_held(s: State) -> int { max_of(self_locks(s).dom()) }
    /// every field except the liquid balance and the lock table is untouched
    pub open spec fn frame_cont(f0: Map<FieldRef, GhostVal>, f1: Map<FieldRef, GhostVal>) -> bool {
        f1.remove(C_BAL()).remove(C_LOCKED()) =~= f0.remove(C_BAL()).remove(C_LOCKED())
    }
    /// lock_amount(amount) is Ok: one more proof of `amount`; only what no other proof already holds leaves the
    /// liquid balance; the container's TOTAL (liquid + locked) is unchanged
    pub open spec fn lock_post(s0: State, s1: State, amount: Decimal) -> bool {
        &&& has_cont_fields(s1) && balance(s1) >= 0
        &&& self_locks(s1) == locks_inc(self_locks(s0), amount)
        &&& balance(s1) == balance(s0) - pos(amount.v() - self_held(s0))
        &&& self_held(s1) == (if amount.v() > self_held(s0) { amount.v() } else { self_held(s0) })
        &&& fields_total(s1) == fields_total(s0)
        &&& frame_cont(s0.fields, s1.fields)
        &&& s1.objects == s0.objects && s1.events == s0.events && s1.features == s0.features
    }
    /// unlock_amount(amount) is Ok: one proof of `amount` fewer; what is no longer held returns to the liquid
    /// balance; the container's TOTAL is unchanged
    pub open spec fn unlock_post(s0: State, s1: State, amount: Decimal) -> bool {
        &&& has_cont_fields(s1) && balance(s1) >= 0
        &&& self_locks(s1) == locks_dec(self_locks(s0), amount)
        &&& balance(s1) == balance(s0) + (self_held(s0) - self_held(s1))
        &&& self_held(s1) <= self_held(s0)
        &&& fields_total(s1) == fields_total(s0)
        &&& frame_cont(s0.fields, s1.fields)
        &&& s1.objects == s0.objects && s1.events == s0.events && s1.features == s0.features
    }

    pub proof fn lemma_pow10_bounds(k: nat)
        requires k <= 18
        ensures 1 <= pow(10, k) <= 1_000_000_000_000_000_000
    {
        vstd::arithmetic::power::lemma_pow_positive(10, k);
        vstd::arithmetic::power::lemma_pow_increases(10, k, 18);
        assert(pow(10, 18) == 1_000_000_000_000_000_000) by { reveal_with_fuel(vstd::arithmetic::power::pow, 20); }
    }

    // ==========================================================================================
    // containers / helpers (same contracts as unit c03_resource_containers, re-proved)
    // ==========================================================================================
    impl LiquidFungibleResource {
        /*@fn radix-engine-interface/src/blueprints/resource/resource.rs :: impl LiquidFungibleResource :: fn new
        @sig
            ensures ret.amount == amount
        @*/
        /*@fn radix-engine-interface/src/blueprints/resource/resource.rs :: impl LiquidFungibleResource :: fn amount
        @sig
            ensures ret == self.amount
        @*/
        /*@fn radix-engine-interface/src/blueprints/resource/resource.rs :: impl LiquidFungibleResource :: fn is_empty
        @sig
            ensures ret == (self.amount.v() == 0)
        @*/
        /*@fn radix-engine-interface/src/blueprints/resource/resource.rs :: impl LiquidFungibleResource :: fn put
        @sig
            requires in_dec(old(self).amount.v() + other.amount.v())
            ensures final(self).amount.v() == old(self).amount.v() + other.amount.v()
        @*/
        /*@fn radix-engine-interface/src/blueprints/resource/resource.rs :: impl LiquidFungibleResource :: fn take_by_amount
        @sig
            ensures
                take_ok(old(self).amount.v(), amount_to_take.v()) ==> ret is Ok,
                ret matches Ok(r) ==> take_ok(old(self).amount.v(), amount_to_take.v())
                    && r.amount == amount_to_take
                    && final(self).amount.v() == old(self).amount.v() - amount_to_take.v(),
                ret matches Err(e) ==> *final(self) == *old(self),
        @*/
    }
    impl LockedFungibleResource {
        /*@fn radix-engine-interface/src/blueprints/resource/resource.rs :: impl LockedFungibleResource :: fn is_locked
        @sig
            ensures ret == (self.amounts@.dom().len() > 0)
        @*/
    }
    impl LockedFungibleResource {
        /*@fn radix-engine-interface/src/blueprints/resource/resource.rs :: impl LockedFungibleResource :: fn amount
        @sig
            ensures ret.v() == max_of(self.amounts@.dom())
        @loop 1 iter it
            invariant
                max.v() >= 0,
                forall|i: int| 0 <= i < it.index@ ==> self.amounts.key_order()[i].v() <= max.v(),
                max.v() == 0 || exists|i: int| 0 <= i < it.index@ && self.amounts.key_order()[i] == max,
        @before <<max>> #4
            proof {
                let ks = self.amounts.key_order();
                assert forall|k: Decimal| self.amounts@.dom().contains(k) implies k.v() <= max.v() by {
                    assert(ks.to_set().contains(k));
                    let i = choose|i: int| 0 <= i < ks.len() && ks[i] == k;
                }
                if max.v() != 0 {
                    let i = choose|i: int| 0 <= i < ks.len() && ks[i] == max;
                    assert(ks.contains(max));
                    assert(ks.to_set().contains(max));
                }
                assert(is_max_locked(self.amounts@.dom(), max.v()));
                lemma_max_of(self.amounts@.dom());
                lemma_max_unique(self.amounts@.dom(), max.v(), max_of(self.amounts@.dom()));
            }
        @*/
    }
    impl Default for LockedFungibleResource {
        /*@fn radix-engine-interface/src/blueprints/resource/resource.rs :: impl Default for LockedFungibleResource :: fn default
        @sig
            ensures ret.amounts@ == Map::<Decimal, usize>::empty()
        @*/
    }
    impl VerifPayload for LiquidFungibleResource {
        open spec fn accepts(v: GhostVal) -> bool { v is Liquid }
        open spec fn ghost(&self) -> GhostVal { GhostVal::Liquid(self.amount) }
    }
    impl VerifPayload for LockedFungibleResource {
        open spec fn accepts(v: GhostVal) -> bool { v is Locked }
        open spec fn ghost(&self) -> GhostVal { GhostVal::Locked(self.amounts@) }
    }

    /*@fn radix-engine-interface/src/blueprints/resource/mod.rs :: fn check_fungible_amount
    @sig
        requires divisibility <= 18
        ensures ret == respects_divisibility(amount.v(), divisibility as int)
    @entry
        proof {
            let b = pow(10, (18 - divisibility) as nat);
            lemma_pow10_bounds((18 - divisibility) as nat);
            if amount.v() >= 0 {
                // truncated remainder == mathematical remainder on a non-negative dividend
                vstd::arithmetic::div_mod::lemma_fundamental_div_mod(amount.v(), b);
                assert(trem(amount.v(), b) == amount.v() % b);
            }
        }
    @*/

    /*@fn radix-engine/src/blueprints/resource/fungible/fungible_resource_manager.rs :: fn verify_divisibility
    @sig
        ensures
            ret is Ok <==> divisibility <= 18,
            ret matches Err(e) ==> e == frm_err(FungibleResourceManagerError::InvalidDivisibility(divisibility)),
    @*/

    /*@fn radix-engine/src/blueprints/resource/fungible/fungible_resource_manager.rs :: fn check_mint_amount
    @sig
        requires divisibility <= 18
        ensures
            ret is Ok <==> mintable_amount(amount.v(), divisibility as int),
            ret matches Err(e) ==> e == frm_err(
                if !respects_divisibility(amount.v(), divisibility as int) { FungibleResourceManagerError::InvalidAmount(amount, divisibility) }
                else { FungibleResourceManagerError::MaxMintAmountExceeded }),
    @*/

    /*@fn radix-engine/src/blueprints/resource/bucket_common.rs :: fn drop_fungible_bucket
    @sig
        requires
            old(api).state().objects.contains_key(*bucket_node_id) ==> is_fungible_bucket(old(api).state().objects[*bucket_node_id]),
        ensures
            ret matches Ok(b) ==> drop_fungible_post(old(api).state(), final(api).state(), *bucket_node_id, b),
            // the resource manager's own state is never touched
            final(api).state().fields == old(api).state().fields,
            final(api).state().handles == old(api).state().handles,
            final(api).state().features == old(api).state().features,
            final(api).state().events == old(api).state().events,
            // no other object either (a locked bucket is dropped before the lock is noticed: the Err aborts the transaction)
            final(api).state().objects.remove(*bucket_node_id) =~= old(api).state().objects.remove(*bucket_node_id),
            ret matches Err(e) ==> (e.is_application_error() ==> e is ApplicationError && e->ApplicationError_0 is BucketError),
    @*/

    // ==========================================================================================
    // FungibleResourceManagerBlueprint
    // ==========================================================================================
    impl FungibleResourceManagerBlueprint {
        /*@fn radix-engine/src/blueprints/resource/fungible/fungible_resource_manager.rs :: impl FungibleResourceManagerBlueprint :: fn assert_mintable
        @sig
            ensures
                final(api).state() == old(api).state(),
                ret is Ok ==> mint_enabled(old(api).state()),
                !mint_enabled(old(api).state()) ==> ret is Err,
                ret matches Err(e) ==> (e.is_application_error() ==> !mint_enabled(old(api).state()) && e == frm_err(FungibleResourceManagerError::NotMintable)),
        @*/
        /*@fn radix-engine/src/blueprints/resource/fungible/fungible_resource_manager.rs :: impl FungibleResourceManagerBlueprint :: fn assert_burnable
        @sig
            ensures
                final(api).state() == old(api).state(),
                ret is Ok ==> burn_enabled(old(api).state()),
                !burn_enabled(old(api).state()) ==> ret is Err,
                ret matches Err(e) ==> (e.is_application_error() ==> !burn_enabled(old(api).state()) && e == frm_err(FungibleResourceManagerError::NotBurnable)),
        @*/

        /*@fn radix-engine/src/blueprints/resource/fungible/fungible_resource_manager.rs :: impl FungibleResourceManagerBlueprint :: fn create_bucket
        @sig
            ensures
                ret matches Ok(b) ==> create_bucket_post(old(api).state(), final(api).state(), amount, b.0.0),
                ret is Err ==> final(api).state() == old(api).state(),
                ret matches Err(e) ==> !e.is_application_error(),
        @*/

        /*@fn radix-engine/src/blueprints/resource/fungible/fungible_resource_manager.rs :: impl FungibleResourceManagerBlueprint :: fn create_empty_bucket
        @sig
            ensures
                ret matches Ok(b) ==> create_empty_bucket_post(old(api).state(), final(api).state(), b.0.0),
                ret is Err ==> final(api).state() == old(api).state(),
        @*/

        // ------------------------------------------------------------------------------ MINT --
        /*@fn radix-engine/src/blueprints/resource/fungible/fungible_resource_manager.rs :: impl FungibleResourceManagerBlueprint :: fn mint
        @sig
            requires wf(old(api).state())
            ensures
                ret matches Ok(b) ==> mint_post(old(api).state(), final(api).state(), amount, b.0.0),
                // an illegal mint is refused and changes nothing
                !(mint_enabled(old(api).state()) && mintable_amount(amount.v(), divisibility(old(api).state())))
                    ==> ret is Err && mint_refused(old(api).state(), final(api).state()),
                // a supply that would leave the Decimal range is refused (never wraps)
                tracks(old(api).state()) && !in_dec(supply(old(api).state()) + amount.v()) ==> ret is Err
                        && final(api).state().fields == old(api).state().fields,
                // the blueprint's own errors, exactly
                ret matches Err(e) ==> (e.is_application_error() ==> e == frm_err(mint_app_error(old(api).state(), amount))
                    && (mint_enabled(old(api).state()) && mintable_amount(amount.v(), divisibility(old(api).state()))
                        ==> tracks(old(api).state()) && !in_dec(supply(old(api).state()) + amount.v()))),
                handles_kept(old(api).state().handles, final(api).state().handles),
        @*/

        // ------------------------------------------------------------------------------ BURN --
        /*@fn radix-engine/src/blueprints/resource/fungible/fungible_resource_manager.rs :: impl FungibleResourceManagerBlueprint :: fn burn_internal
        @sig
            requires
                wf(old(api).state()),
                old(api).state().objects.contains_key(bucket.0.0) ==> is_fungible_bucket(old(api).state().objects[bucket.0.0]),
            ensures
                burn_ok(old(api).state(), final(api).state(), bucket.0.0, ret is Ok),
                ret matches Err(e) ==> (e.is_application_error() ==> burn_app_error(old(api).state(), bucket.0.0, e)),
        @*/
        /*@fn radix-engine/src/blueprints/resource/fungible/fungible_resource_manager.rs :: impl FungibleResourceManagerBlueprint :: fn burn
        @sig
            requires
                wf(old(api).state()),
                old(api).state().objects.contains_key(bucket.0.0) ==> is_fungible_bucket(old(api).state().objects[bucket.0.0]),
            ensures
                burn_ok(old(api).state(), final(api).state(), bucket.0.0, ret is Ok),
                ret matches Err(e) ==> (e.is_application_error() ==> burn_app_error(old(api).state(), bucket.0.0, e)),
        @*/
        /*@fn radix-engine/src/blueprints/resource/fungible/fungible_resource_manager.rs :: impl FungibleResourceManagerBlueprint :: fn package_burn
        @sig
            requires
                wf(old(api).state()),
                old(api).state().objects.contains_key(bucket.0.0) ==> is_fungible_bucket(old(api).state().objects[bucket.0.0]),
            ensures
                burn_ok(old(api).state(), final(api).state(), bucket.0.0, ret is Ok),
                ret matches Err(e) ==> (e.is_application_error() ==> burn_app_error(old(api).state(), bucket.0.0, e)),
        @*/

        /*@fn radix-engine/src/blueprints/resource/fungible/fungible_resource_manager.rs :: impl FungibleResourceManagerBlueprint :: fn drop_empty_bucket
        @sig
            requires
                old(api).state().objects.contains_key(bucket.0.0) ==> is_fungible_bucket(old(api).state().objects[bucket.0.0]),
            ensures
                // only a bucket holding nothing (and backing no proof) can be dropped without burning
                ret is Ok ==> drop_empty_post(old(api).state(), final(api).state(), bucket.0.0),
                // supply, events, features, handles are never touched
                final(api).state().fields == old(api).state().fields,
                final(api).state().handles == old(api).state().handles,
                final(api).state().features == old(api).state().features,
                final(api).state().events == old(api).state().events,
                ret matches Err(e) ==> (e.is_application_error() ==>
                    e == frm_err(FungibleResourceManagerError::DropNonEmptyBucket)
                    || (e is ApplicationError && e->ApplicationError_0 is BucketError)),
        @*/

        // ------------------------------------------------------------------------------ READS --
        /*@fn radix-engine/src/blueprints/resource/fungible/fungible_resource_manager.rs :: impl FungibleResourceManagerBlueprint :: fn get_total_supply
        @sig
            requires wf(old(api).state())
            ensures
                final(api).state().fields == old(api).state().fields,
                final(api).state().objects == old(api).state().objects,
                final(api).state().events == old(api).state().events,
                final(api).state().features == old(api).state().features,
                handles_kept(old(api).state().handles, final(api).state().handles),
                ret matches Ok(r) ==> (tracks(old(api).state()) ==> (r matches Some(t) && t.v() == supply(old(api).state())))
                    && (!tracks(old(api).state()) ==> r is None),
                ret matches Err(e) ==> !e.is_application_error(),
        @*/
        /*@fn radix-engine/src/blueprints/resource/fungible/fungible_resource_manager.rs :: impl FungibleResourceManagerBlueprint :: fn get_resource_type
        @sig
            requires wf(old(api).state())
            ensures
                final(api).state().fields == old(api).state().fields,
                final(api).state().objects == old(api).state().objects,
                final(api).state().events == old(api).state().events,
                handles_kept(old(api).state().handles, final(api).state().handles),
                ret matches Ok(r) ==> r == (ResourceType::Fungible { divisibility: old(api).state().fields[F_DIV()]->Divisibility_0 }),
                ret matches Err(e) ==> !e.is_application_error(),
        @*/
    }

    // ==========================================================================================
    // FungibleVaultBlueprint: take / put (the vault is the actor, the resource manager its outer object)
    // ==========================================================================================
    impl FungibleVaultBlueprint {
        /*@fn radix-engine/src/blueprints/resource/fungible/fungible_vault.rs :: impl FungibleVaultBlueprint :: fn get_divisibility
        @sig
            requires wf_container(old(api).state())
            ensures
                ret matches Ok(d) ==> d as int == outer_divisibility(old(api).state())
                    && final(api).state() == (State { handles: final(api).state().handles, ..old(api).state() })
                    && final(api).state().handles =~= old(api).state().handles,
                ret is Err ==> final(api).state().fields == old(api).state().fields && final(api).state().objects == old(api).state().objects
                    && final(api).state().events == old(api).state().events && final(api).state().features == old(api).state().features,
                handles_kept(old(api).state().handles, final(api).state().handles),
                ret matches Err(e) ==> !e.is_application_error(),
        @*/
        /*@fn radix-engine/src/blueprints/resource/fungible/fungible_vault.rs :: impl FungibleVaultBlueprint :: fn assert_not_frozen
        @sig
            requires wf_vault(old(api).state())
            ensures
                ret is Ok ==> !frozen_for(old(api).state(), flags) && final(api).state().handles =~= old(api).state().handles,
                frozen_for(old(api).state(), flags) ==> ret is Err,
                // the blueprint itself refuses ONLY a vault that really is frozen for the operation
                ret matches Err(e) ==> (e.is_application_error() ==> frozen_for(old(api).state(), flags)
                    && e == RuntimeError::ApplicationError(ApplicationError::VaultError(VaultError::VaultIsFrozen))),
                final(api).state().fields == old(api).state().fields, final(api).state().objects == old(api).state().objects,
                final(api).state().events == old(api).state().events, final(api).state().features == old(api).state().features,
                handles_kept(old(api).state().handles, final(api).state().handles),
        @*/
        /*@fn radix-engine/src/blueprints/resource/fungible/fungible_vault.rs :: impl FungibleVaultBlueprint :: fn internal_take
        @sig
            requires old(api).state().fields.contains_key(C_BAL()), old(api).state().fields[C_BAL()] is Liquid
            ensures
                !take_ok(balance(old(api).state()), amount.v()) ==> ret is Err && final(api).state().fields == old(api).state().fields,
                ret matches Ok(r) ==> r.amount == amount
                    && internal_take_post(old(api).state(), final(api).state(), amount)
                    && final(api).state().handles =~= old(api).state().handles,
                final(api).state().objects == old(api).state().objects, final(api).state().events == old(api).state().events,
                final(api).state().features == old(api).state().features,
                handles_kept(old(api).state().handles, final(api).state().handles),
        @closure 1 := |e: ResourceError| -> (r: RuntimeError) ensures true
        @*/
        /*@fn radix-engine/src/blueprints/resource/fungible/fungible_vault.rs :: impl FungibleVaultBlueprint :: fn internal_put
        @sig
            requires
                old(api).state().fields.contains_key(C_BAL()), old(api).state().fields[C_BAL()] is Liquid,
                in_dec(balance(old(api).state()) + resource.amount.v()),
            ensures
                ret is Ok ==> internal_put_post(old(api).state(), final(api).state(), resource.amount)
                    && final(api).state().handles =~= old(api).state().handles,
                final(api).state().objects == old(api).state().objects, final(api).state().events == old(api).state().events,
                final(api).state().features == old(api).state().features,
                handles_kept(old(api).state().handles, final(api).state().handles),
        @*/

        /*@fn radix-engine/src/blueprints/resource/fungible/fungible_vault.rs :: impl FungibleVaultBlueprint :: fn take_advanced
        @sig
            requires wf_vault(old(api).state())
            ensures
                ret matches Ok(b) ==> !frozen_for(old(api).state(), VaultFreezeFlags::WITHDRAW)
                    && withdrawn(old(api).state(), final(api).state(), b.0.0, *amount, withdraw_strategy)
                    && final(api).state().events == old(api).state().events.push(EventG::Withdraw(final(api).state().objects[b.0.0].fields[I_LIQUID()]->Liquid_0)),
                // a vault frozen for withdrawals gives nothing
                frozen_for(old(api).state(), VaultFreezeFlags::WITHDRAW) ==> ret is Err
                    && final(api).state().fields == old(api).state().fields && final(api).state().objects == old(api).state().objects,
        @*/
        /*@fn radix-engine/src/blueprints/resource/fungible/fungible_vault.rs :: impl FungibleVaultBlueprint :: fn take
        @sig
            requires wf_vault(old(api).state())
            ensures
                ret matches Ok(b) ==> !frozen_for(old(api).state(), VaultFreezeFlags::WITHDRAW)
                    && withdrawn(old(api).state(), final(api).state(), b.0.0, *amount, WithdrawStrategy::Exact)
                    && final(api).state().events == old(api).state().events.push(EventG::Withdraw(*amount)),
                frozen_for(old(api).state(), VaultFreezeFlags::WITHDRAW) ==> ret is Err
                    && final(api).state().fields == old(api).state().fields && final(api).state().objects == old(api).state().objects,
        @*/
        /*@fn radix-engine/src/blueprints/resource/fungible/fungible_vault.rs :: impl FungibleVaultBlueprint :: fn put
        @sig
            requires
                wf_vault(old(api).state()),
                old(api).state().objects.contains_key(bucket.0.0) ==> is_fungible_bucket(old(api).state().objects[bucket.0.0])
                    && in_dec(balance(old(api).state()) + bucket_amount(old(api).state().objects[bucket.0.0])),
            ensures
                ret is Ok ==> !frozen_for(old(api).state(), VaultFreezeFlags::DEPOSIT)
                    && deposited(old(api).state(), final(api).state(), bucket.0.0)
                    && final(api).state().events == old(api).state().events.push(EventG::Deposit(old(api).state().objects[bucket.0.0].fields[I_LIQUID()]->Liquid_0)),
                // a vault frozen for deposits takes nothing
                frozen_for(old(api).state(), VaultFreezeFlags::DEPOSIT) ==> ret is Err
                    && final(api).state().fields == old(api).state().fields && final(api).state().objects == old(api).state().objects,
        @*/

        // ------------------------------------------------------------------------------ PROOF LOCKS --
        /*@fn radix-engine/src/blueprints/resource/fungible/fungible_vault.rs :: impl FungibleVaultBlueprint :: fn lock_amount
        @sig
            requires
                has_cont_fields(old(api).state()), balance(old(api).state()) >= 0,
                // the lock counter of `amount` does not overflow
                self_locks(old(api).state()).contains_key(amount) ==> self_locks(old(api).state())[amount] < usize::MAX,
            ensures
                // more than the container's total cannot be locked
                amount.v() > fields_total(old(api).state()) ==> ret is Err,
                ret is Ok ==> lock_post(old(api).state(), final(api).state(), amount),
                final(api).state().objects == old(api).state().objects,
        @entry
            proof { lemma_max_insert(self_locks(api.state()).dom(), amount); lemma_max_of(self_locks(api.state()).dom()); }
        @before <<Ok(())>> #1
            proof {
                assert(self_locks(api.state()) == locks_inc(self_locks(old(api).state()), amount));
                assert(self_locks(api.state()).dom() =~= self_locks(old(api).state()).dom().insert(amount));
            }
        @*/
        /*@fn radix-engine/src/blueprints/resource/fungible/fungible_vault.rs :: impl FungibleVaultBlueprint :: fn unlock_amount
        @sig
            requires
                has_cont_fields(old(api).state()), balance(old(api).state()) >= 0,
                // the `expect`: only an amount that is locked can be unlocked
                self_locks(old(api).state()).contains_key(amount),
                // the container's total is a representable amount
                in_dec(fields_total(old(api).state())),
            ensures
                ret is Ok ==> unlock_post(old(api).state(), final(api).state(), amount),
                final(api).state().objects == old(api).state().objects,
        @before <<let locked_amount>> #1
            proof {
                assert(locked.amounts@ == locks_dec(self_locks(old(api).state()), amount));
                assert(locked.amounts@.dom().subset_of(self_locks(old(api).state()).dom()));
                lemma_max_subset(locked.amounts@.dom(), self_locks(old(api).state()).dom());
            }
        @*/
    }

    // ==========================================================================================
    // FungibleBucketBlueprint: take / put (the bucket is the actor)
    // ==========================================================================================
    impl FungibleBucketBlueprint {
        /*@fn radix-engine/src/blueprints/resource/fungible/fungible_bucket.rs :: impl FungibleBucketBlueprint :: fn get_divisibility
        @sig
            requires wf_container(old(api).state())
            ensures
                ret matches Ok(d) ==> d as int == outer_divisibility(old(api).state())
                    && final(api).state() == (State { handles: final(api).state().handles, ..old(api).state() })
                    && final(api).state().handles =~= old(api).state().handles,
                ret is Err ==> final(api).state().fields == old(api).state().fields && final(api).state().objects == old(api).state().objects
                    && final(api).state().events == old(api).state().events && final(api).state().features == old(api).state().features,
                handles_kept(old(api).state().handles, final(api).state().handles),
                ret matches Err(e) ==> !e.is_application_error(),
        @*/
        /*@fn radix-engine/src/blueprints/resource/fungible/fungible_bucket.rs :: impl FungibleBucketBlueprint :: fn internal_take
        @sig
            requires old(api).state().fields.contains_key(C_BAL()), old(api).state().fields[C_BAL()] is Liquid
            ensures
                !take_ok(balance(old(api).state()), amount.v()) ==> ret is Err && final(api).state().fields == old(api).state().fields,
                ret matches Ok(r) ==> r.amount == amount
                    && internal_take_post(old(api).state(), final(api).state(), amount)
                    && final(api).state().handles =~= old(api).state().handles,
                final(api).state().objects == old(api).state().objects, final(api).state().events == old(api).state().events,
                final(api).state().features == old(api).state().features,
                handles_kept(old(api).state().handles, final(api).state().handles),
        @closure 1 := |e: ResourceError| -> (r: RuntimeError) ensures true
        @*/
        /*@fn radix-engine/src/blueprints/resource/fungible/fungible_bucket.rs :: impl FungibleBucketBlueprint :: fn take_advanced
        @sig
            requires wf_container(old(api).state())
            ensures
                ret matches Ok(b) ==> withdrawn(old(api).state(), final(api).state(), b.0.0, amount, withdraw_strategy)
                    && final(api).state().events == old(api).state().events,
        @*/
        /*@fn radix-engine/src/blueprints/resource/fungible/fungible_bucket.rs :: impl FungibleBucketBlueprint :: fn take
        @sig
            requires wf_container(old(api).state())
            ensures
                ret matches Ok(b) ==> withdrawn(old(api).state(), final(api).state(), b.0.0, amount, WithdrawStrategy::Exact)
                    && final(api).state().events == old(api).state().events,
        @*/
        /*@fn radix-engine/src/blueprints/resource/fungible/fungible_bucket.rs :: impl FungibleBucketBlueprint :: fn put
        @sig
            requires
                wf_container(old(api).state()),
                old(api).state().objects.contains_key(bucket.0.0) ==> is_fungible_bucket(old(api).state().objects[bucket.0.0])
                    && in_dec(balance(old(api).state()) + bucket_amount(old(api).state().objects[bucket.0.0])),
            ensures
                ret is Ok ==> deposited(old(api).state(), final(api).state(), bucket.0.0)
                    && final(api).state().events == old(api).state().events,
        @*/
        /*@fn radix-engine/src/blueprints/resource/fungible/fungible_bucket.rs :: impl FungibleBucketBlueprint :: fn internal_put
        @sig
            requires
                old(api).state().fields.contains_key(C_BAL()), old(api).state().fields[C_BAL()] is Liquid,
                in_dec(balance(old(api).state()) + resource.amount.v()),
            ensures
                ret is Ok ==> internal_put_post(old(api).state(), final(api).state(), resource.amount)
                    && final(api).state().handles =~= old(api).state().handles,
                final(api).state().objects == old(api).state().objects, final(api).state().events == old(api).state().events,
                final(api).state().features == old(api).state().features,
                handles_kept(old(api).state().handles, final(api).state().handles),
        @*/

        // ------------------------------------------------------------------------------ PROOF LOCKS --
        /*@fn radix-engine/src/blueprints/resource/fungible/fungible_bucket.rs :: impl FungibleBucketBlueprint :: fn lock_amount
        @sig
            requires
                has_cont_fields(old(api).state()), balance(old(api).state()) >= 0,
                // the lock counter of `amount` does not overflow
                self_locks(old(api).state()).contains_key(amount) ==> self_locks(old(api).state())[amount] < usize::MAX,
            ensures
                // more than the container's total cannot be locked
                amount.v() > fields_total(old(api).state()) ==> ret is Err,
                ret is Ok ==> lock_post(old(api).state(), final(api).state(), amount),
                final(api).state().objects == old(api).state().objects,
        @entry
            proof { lemma_max_insert(self_locks(api.state()).dom(), amount); lemma_max_of(self_locks(api.state()).dom()); }
        @before <<Ok(())>> #1
            proof {
                assert(self_locks(api.state()) == locks_inc(self_locks(old(api).state()), amount));
                assert(self_locks(api.state()).dom() =~= self_locks(old(api).state()).dom().insert(amount));
            }
        @*/
        /*@fn radix-engine/src/blueprints/resource/fungible/fungible_bucket.rs :: impl FungibleBucketBlueprint :: fn unlock_amount
        @sig
            requires
                has_cont_fields(old(api).state()), balance(old(api).state()) >= 0,
                // the `expect`: only an amount that is locked can be unlocked
                self_locks(old(api).state()).contains_key(amount),
                // the container's total is a representable amount
                in_dec(fields_total(old(api).state())),
            ensures
                ret is Ok ==> unlock_post(old(api).state(), final(api).state(), amount),
                final(api).state().objects == old(api).state().objects,
        @before <<let delta>> #1
            proof {
                assert(locked.amounts@ == locks_dec(self_locks(old(api).state()), amount));
                assert(locked.amounts@.dom().subset_of(self_locks(old(api).state()).dom()));
                lemma_max_subset(locked.amounts@.dom(), self_locks(old(api).state()).dom());
            }
        @*/
    }

    // ==========================================================================================
    // C04  "total supply == sum of everything held", step cases over the contracts above
    // ==========================================================================================
    // The functions above run against the view ONE actor has of the ledger (`State`: its own fields, its outer
    // object's fields, the live buckets of its resource).  C04 speaks about the whole ledger, so the unit adds
    //   * a ghost WORLD: every resource manager (tracks? / recorded supply), every fungible vault and every live
    //     fungible bucket, each container with its resource, liquid amount and lock table;
    //   * `views(w, a, s)`: State `s` is what actor `a` sees of world `w` (MODEL of the kernel's actor addressing:
    //     SELF fields = the actor node's substates, droppable / creatable objects = the buckets of the actor's
    //     resource manager);
    //   * `writeback(w, a, s1)`: the world after the call = `w` with exactly the viewed part replaced by `s1`
    //     (the same lifting for every function: no per-operation world transition is written by hand);
    //   * the measure `held`, the invariant `inv`, and for every state-changing function a lemma whose
    //     hypothesis is that function's postcondition relation (the SAME spec fn its `ensures` uses).

    /// a fungible container (vault or bucket) of the world
    pub ghost struct Cont { pub res: NodeId, pub liquid: int, pub locks: Map<Decimal, usize> }
    /// a fungible resource manager of the world
    pub ghost struct Mgr { pub tracks: bool, pub supply: int }
    pub ghost struct World {
        /// resource address (node id of the manager) -> manager
        pub mgrs: Map<NodeId, Mgr>,
        pub vaults: Map<NodeId, Cont>,
        /// live buckets (all call frames, worktop included)
        pub buckets: Map<NodeId, Cont>,
    }
    pub ghost enum Actor { Manager(NodeId), Vault(NodeId), Bucket(NodeId) }

    /// the amount held behind live proofs: the MAXIMUM of the locked amounts, 0 if none (LockedFungibleResource::amount)
    pub open spec fn max_of(s: Set<Decimal>) -> int
        decreases s.len()
    {
        if s.len() == 0 { 0 } else {
            let x = s.choose();
            let r = max_of(s.remove(x));
            if x.v() > r { x.v() } else { r }
        }
    }
    /// what a container holds: liquid + locked
    pub open spec fn total(c: Cont) -> int { c.liquid + max_of(c.locks.dom()) }
    /// .. counted for resource `r`
    pub open spec fn amt(c: Cont, r: NodeId) -> int { if c.res == r { total(c) } else { 0 } }
    /// sum over a (finite) container map of what its containers hold of resource `r`
    pub open spec fn csum(m: Map<NodeId, Cont>, r: NodeId) -> int
        decreases m.dom().len()
    {
        if m.dom().len() == 0 { 0 } else {
            let k = m.dom().choose();
            amt(m[k], r) + csum(m.remove(k), r)
        }
    }
    /// THE MEASURE: everything held of resource `r`, in all vaults and all live buckets (liquid + locked)
    pub open spec fn held(w: World, r: NodeId) -> int { csum(w.vaults, r) + csum(w.buckets, r) }
    pub open spec fn tracked_supply(w: World, r: NodeId) -> int { w.mgrs[r].supply }
    /// THE INVARIANT (C04): a resource that tracks its supply records exactly what is held
    pub open spec fn inv(w: World, r: NodeId) -> bool {
        w.mgrs.contains_key(r) && w.mgrs[r].tracks ==> tracked_supply(w, r) == held(w, r)
    }
    /// second half of C04: no balance is negative
    pub open spec fn nonneg(w: World) -> bool {
        &&& forall|k: NodeId| #[trigger] w.vaults.contains_key(k) ==> w.vaults[k].liquid >= 0
        &&& forall|k: NodeId| #[trigger] w.buckets.contains_key(k) ==> w.buckets[k].liquid >= 0
    }

    // ---- sums over finite maps --------------------------------------------------------------------------
    pub proof fn lemma_csum_remove(m: Map<NodeId, Cont>, k: NodeId, r: NodeId)
        requires m.contains_key(k)
        ensures csum(m, r) == amt(m[k], r) + csum(m.remove(k), r)
        decreases m.dom().len()
    {
        assert(m.dom().contains(k));
        let c = m.dom().choose();
        if c != k {
            lemma_csum_remove(m.remove(c), k, r);
            lemma_csum_remove(m.remove(k), c, r);
            assert(m.remove(c).remove(k) =~= m.remove(k).remove(c));
        }
    }
    pub open spec fn amt_at(m: Map<NodeId, Cont>, k: NodeId, r: NodeId) -> int { if m.contains_key(k) { amt(m[k], r) } else { 0 } }
    /// writing container `c` at `k` (new or not)
    pub proof fn lemma_csum_insert(m: Map<NodeId, Cont>, k: NodeId, c: Cont, r: NodeId)
        ensures csum(m.insert(k, c), r) == csum(m, r) - amt_at(m, k, r) + amt(c, r)
    {
        lemma_csum_remove(m.insert(k, c), k, r);
        assert(m.insert(k, c).remove(k) =~= m.remove(k));
        if m.contains_key(k) { lemma_csum_remove(m, k, r); } else { assert(m.remove(k) =~= m); }
    }
    pub proof fn lemma_csum_delete(m: Map<NodeId, Cont>, k: NodeId, r: NodeId)
        ensures csum(m.remove(k), r) == csum(m, r) - amt_at(m, k, r)
    {
        if m.contains_key(k) { lemma_csum_remove(m, k, r); } else { assert(m.remove(k) =~= m); }
    }
    /// a map without containers of `r` contributes nothing
    pub proof fn lemma_csum_none(m: Map<NodeId, Cont>, r: NodeId)
        requires forall|k: NodeId| #[trigger] m.contains_key(k) ==> m[k].res != r
        ensures csum(m, r) == 0
        decreases m.dom().len()
    {
        if m.dom().len() != 0 {
            let k = m.dom().choose();
            assert(m.contains_key(k));
            lemma_csum_none(m.remove(k), r);
        }
    }
    /// sum of the LIQUID balances only (what the database checker adds up)
    pub open spec fn lsum(m: Map<NodeId, Cont>, r: NodeId) -> int
        decreases m.dom().len()
    {
        if m.dom().len() == 0 { 0 } else {
            let k = m.dom().choose();
            (if m[k].res == r { m[k].liquid } else { 0 }) + lsum(m.remove(k), r)
        }
    }
    /// with no live proof on any container of `r`, everything held is liquid
    pub proof fn lemma_csum_unlocked(m: Map<NodeId, Cont>, r: NodeId)
        requires forall|k: NodeId| #[trigger] m.contains_key(k) && m[k].res == r ==> m[k].locks.dom().len() == 0
        ensures csum(m, r) == lsum(m, r)
        decreases m.dom().len()
    {
        if m.dom().len() != 0 {
            let k = m.dom().choose();
            assert(m.contains_key(k));
            lemma_csum_unlocked(m.remove(k), r);
        }
    }

    // ---- the lifting: actor view <-> world ---------------------------------------------------------------
    pub open spec fn res_of(w: World, a: Actor) -> NodeId {
        match a { Actor::Manager(r) => r, Actor::Vault(v) => w.vaults[v].res, Actor::Bucket(b) => w.buckets[b].res }
    }
    pub open spec fn actor_ok(w: World, a: Actor) -> bool {
        &&& match a { Actor::Manager(r) => true, Actor::Vault(v) => w.vaults.contains_key(v), Actor::Bucket(b) => w.buckets.contains_key(b) }
        &&& w.mgrs.contains_key(res_of(w, a))
    }
    /// the buckets the actor can see as droppable objects: the live buckets of its resource manager, except itself
    pub open spec fn in_view(w: World, a: Actor, k: NodeId) -> bool {
        w.buckets.contains_key(k) && w.buckets[k].res == res_of(w, a) && a != Actor::Bucket(k)
    }
    pub open spec fn obj_matches(o: ObjG, c: Cont) -> bool {
        is_fungible_bucket(o) && bucket_amount(o) == c.liquid && bucket_locks(o) == c.locks
    }
    /// the SELF fields of a vault / bucket actor
    pub open spec fn has_cont_fields(s: State) -> bool {
        &&& s.fields.contains_key(C_BAL()) && s.fields[C_BAL()] is Liquid
        &&& s.fields.contains_key(C_LOCKED()) && s.fields[C_LOCKED()] is Locked
    }
    pub open spec fn self_locks(s: State) -> Map<Decimal, usize> { s.fields[C_LOCKED()]->Locked_0 }
    /// State `s` is what actor `a` sees of world `w`
    pub open spec fn views(w: World, a: Actor, s: State) -> bool {
        &&& actor_ok(w, a)
        &&& forall|k: NodeId| #[trigger] s.objects.contains_key(k) <==> in_view(w, a, k)
        &&& forall|k: NodeId| #[trigger] s.objects.contains_key(k) ==> obj_matches(s.objects[k], w.buckets[k])
        &&& match a {
            Actor::Manager(r) => tracks(s) == w.mgrs[r].tracks
                && (tracks(s) ==> s.fields.contains_key(F_SUPPLY()) && s.fields[F_SUPPLY()] is Supply && supply(s) == w.mgrs[r].supply),
            Actor::Vault(v) => has_cont_fields(s) && balance(s) == w.vaults[v].liquid && self_locks(s) == w.vaults[v].locks,
            Actor::Bucket(b) => has_cont_fields(s) && balance(s) == w.buckets[b].liquid && self_locks(s) == w.buckets[b].locks,
        }
    }
    pub open spec fn cont_of_obj(r: NodeId, o: ObjG) -> Cont { Cont { res: r, liquid: bucket_amount(o), locks: bucket_locks(o) } }
    pub open spec fn cont_of_fields(r: NodeId, s: State) -> Cont { Cont { res: r, liquid: balance(s), locks: self_locks(s) } }
    /// the buckets of the world after the call: those outside the view stay, those inside are what the call left
    pub open spec fn wb_buckets(w0: World, a: Actor, s1: State) -> Map<NodeId, Cont> {
        let r = res_of(w0, a);
        Map::new(
            w0.buckets.dom().filter(|k: NodeId| !in_view(w0, a, k)).union(s1.objects.dom()),
            |k: NodeId| if s1.objects.contains_key(k) { cont_of_obj(r, s1.objects[k]) }
                        else if a == Actor::Bucket(k) { cont_of_fields(r, s1) }
                        else { w0.buckets[k] })
    }
    /// THE WORLD AFTER THE CALL: `w0` with exactly the part the actor sees replaced by the final view `s1`
    pub open spec fn writeback(w0: World, a: Actor, s1: State) -> World {
        let r = res_of(w0, a);
        World {
            mgrs: match a {
                Actor::Manager(_) => if w0.mgrs[r].tracks { w0.mgrs.insert(r, Mgr { tracks: true, supply: supply(s1) }) } else { w0.mgrs },
                _ => w0.mgrs },
            vaults: match a { Actor::Vault(v) => w0.vaults.insert(v, cont_of_fields(r, s1)), _ => w0.vaults },
            buckets: wb_buckets(w0, a, s1),
        }
    }
    /// ENVIRONMENT ASSUMPTION (kernel id allocator): a node id that is new in the actor's view is new in the world
    pub open spec fn fresh_ok(w0: World, s0: State, s1: State) -> bool {
        forall|k: NodeId| #[trigger] s1.objects.contains_key(k) && !s0.objects.contains_key(k) ==> !w0.buckets.contains_key(k)
    }

    /// how a call changed the set of live buckets it sees
    pub ghost enum ObjChange { Same, Added(NodeId), Removed(NodeId) }
    pub open spec fn objs_change(s0: State, s1: State, ch: ObjChange) -> bool {
        match ch {
            ObjChange::Same => s1.objects == s0.objects,
            ObjChange::Added(b) => !s0.objects.contains_key(b) && s1.objects.contains_key(b) && s1.objects == s0.objects.insert(b, s1.objects[b]),
            ObjChange::Removed(b) => s0.objects.contains_key(b) && s1.objects == s0.objects.remove(b),
        }
    }
    pub open spec fn obj_total(o: ObjG) -> int { bucket_amount(o) + max_of(bucket_locks(o).dom()) }
    pub open spec fn obj_delta(s0: State, s1: State, ch: ObjChange) -> int {
        match ch { ObjChange::Same => 0, ObjChange::Added(b) => obj_total(s1.objects[b]), ObjChange::Removed(b) => -obj_total(s0.objects[b]) }
    }
    pub open spec fn fields_total(s: State) -> int { balance(s) + max_of(self_locks(s).dom()) }
    pub open spec fn self_delta(a: Actor, s0: State, s1: State) -> int {
        match a { Actor::Manager(_) => 0, _ => fields_total(s1) - fields_total(s0) }
    }
    pub open spec fn wb_base(w0: World, a: Actor, s1: State) -> Map<NodeId, Cont> {
        match a { Actor::Bucket(b0) => w0.buckets.insert(b0, cont_of_fields(res_of(w0, a), s1)), _ => w0.buckets }
    }
    /// the bulk write-back is a point update of the bucket map
    pub proof fn lemma_wb_buckets(w0: World, a: Actor, s0: State, s1: State, ch: ObjChange)
        requires views(w0, a, s0), objs_change(s0, s1, ch), fresh_ok(w0, s0, s1)
        ensures wb_buckets(w0, a, s1) == (match ch {
            ObjChange::Same => wb_base(w0, a, s1),
            ObjChange::Added(b) => wb_base(w0, a, s1).insert(b, cont_of_obj(res_of(w0, a), s1.objects[b])),
            ObjChange::Removed(b) => wb_base(w0, a, s1).remove(b) }),
            ch matches ObjChange::Added(b) ==> !wb_base(w0, a, s1).contains_key(b),
            ch matches ObjChange::Removed(b) ==> wb_base(w0, a, s1).contains_key(b) && wb_base(w0, a, s1)[b] == w0.buckets[b]
                && w0.buckets[b] == cont_of_obj(res_of(w0, a), s0.objects[b]),
    {
        let r = res_of(w0, a);
        let base = wb_base(w0, a, s1);
        let wb = wb_buckets(w0, a, s1);
        assert forall|k: NodeId| #[trigger] wb.contains_key(k) <==> ((w0.buckets.contains_key(k) && !in_view(w0, a, k)) || s1.objects.contains_key(k)) by {}
        match ch {
            ObjChange::Same => {
                assert forall|k: NodeId| wb.contains_key(k) <==> #[trigger] base.contains_key(k) by {
                    if s1.objects.contains_key(k) { assert(in_view(w0, a, k)); }
                }
                assert forall|k: NodeId| #[trigger] wb.contains_key(k) implies wb[k] == base[k] by {
                    if s1.objects.contains_key(k) { assert(obj_matches(s0.objects[k], w0.buckets[k])); assert(in_view(w0, a, k)); }
                }
                assert(wb =~= base);
            }
            ObjChange::Added(b) => {
                let t = base.insert(b, cont_of_obj(r, s1.objects[b]));
                assert(!w0.buckets.contains_key(b));
                assert forall|k: NodeId| wb.contains_key(k) <==> #[trigger] t.contains_key(k) by {
                    if k != b && s1.objects.contains_key(k) { assert(s0.objects.contains_key(k)); assert(in_view(w0, a, k)); }
                }
                assert forall|k: NodeId| #[trigger] wb.contains_key(k) implies wb[k] == t[k] by {
                    if k != b && s1.objects.contains_key(k) { assert(s0.objects.contains_key(k)); assert(obj_matches(s0.objects[k], w0.buckets[k])); assert(in_view(w0, a, k)); }
                }
                assert(wb =~= t);
            }
            ObjChange::Removed(b) => {
                let t = base.remove(b);
                assert(in_view(w0, a, b));
                assert(obj_matches(s0.objects[b], w0.buckets[b]));
                assert forall|k: NodeId| wb.contains_key(k) <==> #[trigger] t.contains_key(k) by {
                    if s1.objects.contains_key(k) { assert(s0.objects.contains_key(k)); assert(in_view(w0, a, k)); }
                    if k != b && in_view(w0, a, k) { assert(s0.objects.contains_key(k)); }
                }
                assert forall|k: NodeId| #[trigger] wb.contains_key(k) implies wb[k] == t[k] by {
                    if s1.objects.contains_key(k) { assert(s0.objects.contains_key(k)); assert(obj_matches(s0.objects[k], w0.buckets[k])); assert(in_view(w0, a, k)); }
                }
                assert(wb =~= t);
            }
        }
    }

    /// CORE STEP LEMMA: what a call changes of the measure is exactly what it changed in its own view --
    /// the bucket it created / consumed plus the change of its own (vault / bucket) total; nothing of any other resource.
    pub proof fn lemma_held_step(w0: World, a: Actor, s0: State, s1: State, ch: ObjChange, q: NodeId)
        requires views(w0, a, s0), objs_change(s0, s1, ch), fresh_ok(w0, s0, s1)
        ensures held(writeback(w0, a, s1), q) == held(w0, q)
            + (if q == res_of(w0, a) { obj_delta(s0, s1, ch) + self_delta(a, s0, s1) } else { 0 })
    {
        let r = res_of(w0, a);
        let w1 = writeback(w0, a, s1);
        let base = wb_base(w0, a, s1);
        lemma_wb_buckets(w0, a, s0, s1, ch);
        match a {
            Actor::Manager(_) => {}
            Actor::Vault(v) => { lemma_csum_insert(w0.vaults, v, cont_of_fields(r, s1), q); }
            Actor::Bucket(b0) => { lemma_csum_insert(w0.buckets, b0, cont_of_fields(r, s1), q); }
        }
        match ch {
            ObjChange::Same => {}
            ObjChange::Added(b) => { lemma_csum_insert(base, b, cont_of_obj(r, s1.objects[b]), q); }
            ObjChange::Removed(b) => { lemma_csum_delete(base, b, q); }
        }
    }

    /// the world's managers after a call by the manager of `r`: only `r`'s recorded supply may differ
    pub proof fn lemma_mgrs_step(w0: World, a: Actor, s1: State, q: NodeId)
        requires actor_ok(w0, a)
        ensures ({
            let w1 = writeback(w0, a, s1);
            &&& w1.mgrs.contains_key(q) == w0.mgrs.contains_key(q)
            &&& (w0.mgrs.contains_key(q) ==> w1.mgrs[q].tracks == w0.mgrs[q].tracks)
            &&& (!(a is Manager && q == res_of(w0, a)) ==> w1.mgrs[q] == w0.mgrs[q])
            &&& (a is Manager && w0.mgrs[res_of(w0, a)].tracks ==> tracked_supply(w1, res_of(w0, a)) == supply(s1))
        })
    {}
    /// no balance becomes negative if the call left none negative in its view
    pub proof fn lemma_nonneg_step(w0: World, a: Actor, s0: State, s1: State, ch: ObjChange)
        requires
            views(w0, a, s0), objs_change(s0, s1, ch), fresh_ok(w0, s0, s1), nonneg(w0),
            !(a is Manager) ==> balance(s1) >= 0,
            ch matches ObjChange::Added(b) ==> bucket_amount(s1.objects[b]) >= 0,
        ensures nonneg(writeback(w0, a, s1))
    {
        lemma_wb_buckets(w0, a, s0, s1, ch);
        let w1 = writeback(w0, a, s1);
        assert forall|k: NodeId| #[trigger] w1.buckets.contains_key(k) implies w1.buckets[k].liquid >= 0 by {
            if w0.buckets.contains_key(k) { assert(w0.buckets[k].liquid >= 0); }
        }
        assert forall|k: NodeId| #[trigger] w1.vaults.contains_key(k) implies w1.vaults[k].liquid >= 0 by {
            if w0.vaults.contains_key(k) { assert(w0.vaults[k].liquid >= 0); }
        }
    }
    /// a call that left fields and objects alone (every refusal stated in the contracts) leaves the world alone
    pub proof fn lemma_world_unchanged(w0: World, a: Actor, s0: State, s1: State)
        requires views(w0, a, s0), s1.fields == s0.fields, s1.objects == s0.objects
        ensures writeback(w0, a, s1) == w0
    {
        lemma_wb_buckets(w0, a, s0, s1, ObjChange::Same);
        let w1 = writeback(w0, a, s1);
        let r = res_of(w0, a);
        assert(w1.buckets =~= w0.buckets);
        assert(w1.vaults =~= w0.vaults);
        assert(w1.mgrs =~= w0.mgrs);
    }
    pub proof fn lemma_locks_kept(s0: State, s1: State)
        requires frame_balance(s0.fields, s1.fields)
        ensures s1.fields.contains_key(C_LOCKED()) == s0.fields.contains_key(C_LOCKED()), s1.fields[C_LOCKED()] == s0.fields[C_LOCKED()],
    {
        assert(s1.fields.remove(C_BAL()).contains_key(C_LOCKED()) == s0.fields.remove(C_BAL()).contains_key(C_LOCKED()));
        assert(s1.fields.remove(C_BAL())[C_LOCKED()] == s0.fields.remove(C_BAL())[C_LOCKED()]);
    }
    pub proof fn lemma_max_of_empty(l: Map<Decimal, usize>)
        requires l.dom().len() == 0
        ensures max_of(l.dom()) == 0
    {}

    // ==========================================================================================
    // STEP CASES, one per state-changing function under contract.  Hypotheses: the actor's view of the old
    // world, the id-freshness assumption where a node is created, and the function's OWN postcondition relation.
    // Conclusion: inv is preserved for EVERY resource q (and the exact change of measure and recorded supply).
    // ==========================================================================================

    // ---- resource manager as actor ----
    /// FungibleResourceManagerBlueprint::mint == Ok(b): supply +amount, a fresh bucket holding +amount
    pub proof fn lemma_mint_preserves_inv(w0: World, r: NodeId, s0: State, s1: State, amount: Decimal, b: NodeId, q: NodeId)
        requires views(w0, Actor::Manager(r), s0), fresh_ok(w0, s0, s1), mint_post(s0, s1, amount, b)
        ensures ({
            let w1 = writeback(w0, Actor::Manager(r), s1);
            &&& (inv(w0, q) ==> inv(w1, q))
            &&& held(w1, r) == held(w0, r) + amount.v()
            &&& (w0.mgrs[r].tracks ==> tracked_supply(w1, r) == tracked_supply(w0, r) + amount.v())
            &&& (nonneg(w0) ==> nonneg(w1))
        })
    {
        let a = Actor::Manager(r);
        lemma_max_of_empty(bucket_locks(s1.objects[b]));
        lemma_held_step(w0, a, s0, s1, ObjChange::Added(b), q);
        lemma_held_step(w0, a, s0, s1, ObjChange::Added(b), r);
        lemma_mgrs_step(w0, a, s1, q);
        lemma_mgrs_step(w0, a, s1, r);
        if nonneg(w0) { lemma_nonneg_step(w0, a, s0, s1, ObjChange::Added(b)); }
    }
    /// a refused mint (not mintable / illegal amount) leaves the world as it was
    pub proof fn lemma_mint_refused_world_unchanged(w0: World, r: NodeId, s0: State, s1: State)
        requires views(w0, Actor::Manager(r), s0), mint_refused(s0, s1)
        ensures writeback(w0, Actor::Manager(r), s1) == w0
    { lemma_world_unchanged(w0, Actor::Manager(r), s0, s1); }

    /// burn / package_burn / burn_internal is Ok (they share `burn_ok`): supply -amount, the bucket (holding amount) consumed
    pub proof fn lemma_burn_preserves_inv(w0: World, r: NodeId, s0: State, s1: State, node: NodeId, q: NodeId)
        requires views(w0, Actor::Manager(r), s0), burn_ok(s0, s1, node, true)
        ensures ({
            let w1 = writeback(w0, Actor::Manager(r), s1);
            &&& (inv(w0, q) ==> inv(w1, q))
            &&& held(w1, r) == held(w0, r) - bucket_amount(s0.objects[node])
            &&& (w0.mgrs[r].tracks ==> tracked_supply(w1, r) == tracked_supply(w0, r) - bucket_amount(s0.objects[node]))
            &&& (nonneg(w0) ==> nonneg(w1))
        })
    {
        let a = Actor::Manager(r);
        lemma_max_of_empty(bucket_locks(s0.objects[node]));
        lemma_held_step(w0, a, s0, s1, ObjChange::Removed(node), q);
        lemma_held_step(w0, a, s0, s1, ObjChange::Removed(node), r);
        lemma_mgrs_step(w0, a, s1, q);
        lemma_mgrs_step(w0, a, s1, r);
        if nonneg(w0) { lemma_nonneg_step(w0, a, s0, s1, ObjChange::Removed(node)); }
    }
    pub proof fn lemma_package_burn_preserves_inv(w0: World, r: NodeId, s0: State, s1: State, node: NodeId, q: NodeId)
        requires views(w0, Actor::Manager(r), s0), burn_ok(s0, s1, node, true)
        ensures inv(w0, q) ==> inv(writeback(w0, Actor::Manager(r), s1), q)
    { lemma_burn_preserves_inv(w0, r, s0, s1, node, q); }
    pub proof fn lemma_burn_internal_preserves_inv(w0: World, r: NodeId, s0: State, s1: State, node: NodeId, q: NodeId)
        requires views(w0, Actor::Manager(r), s0), burn_ok(s0, s1, node, true)
        ensures inv(w0, q) ==> inv(writeback(w0, Actor::Manager(r), s1), q)
    { lemma_burn_preserves_inv(w0, r, s0, s1, node, q); }
    /// a burn of a non-burnable resource is refused and leaves the world as it was
    pub proof fn lemma_burn_refused_world_unchanged(w0: World, r: NodeId, s0: State, s1: State, node: NodeId, ok: bool)
        requires views(w0, Actor::Manager(r), s0), burn_ok(s0, s1, node, ok), !burn_enabled(s0)
        ensures !ok, writeback(w0, Actor::Manager(r), s1) == w0
    { lemma_world_unchanged(w0, Actor::Manager(r), s0, s1); }

    /// create_empty_bucket == Ok(b): a fresh bucket holding 0
    pub proof fn lemma_create_empty_bucket_preserves_inv(w0: World, r: NodeId, s0: State, s1: State, b: NodeId, q: NodeId)
        requires views(w0, Actor::Manager(r), s0), fresh_ok(w0, s0, s1), create_empty_bucket_post(s0, s1, b)
        ensures ({
            let w1 = writeback(w0, Actor::Manager(r), s1);
            &&& (inv(w0, q) ==> inv(w1, q))
            &&& held(w1, q) == held(w0, q)
            &&& (nonneg(w0) ==> nonneg(w1))
        })
    {
        let a = Actor::Manager(r);
        lemma_max_of_empty(bucket_locks(s1.objects[b]));
        lemma_held_step(w0, a, s0, s1, ObjChange::Added(b), q);
        lemma_mgrs_step(w0, a, s1, q);
        if nonneg(w0) { lemma_nonneg_step(w0, a, s0, s1, ObjChange::Added(b)); }
    }
    /// drop_empty_bucket is Ok: the dropped bucket held nothing, so nothing leaves the measure
    pub proof fn lemma_drop_empty_bucket_preserves_inv(w0: World, r: NodeId, s0: State, s1: State, node: NodeId, q: NodeId)
        requires views(w0, Actor::Manager(r), s0), drop_empty_post(s0, s1, node)
        ensures ({
            let w1 = writeback(w0, Actor::Manager(r), s1);
            &&& (inv(w0, q) ==> inv(w1, q))
            &&& held(w1, q) == held(w0, q)
            &&& (nonneg(w0) ==> nonneg(w1))
        })
    {
        let a = Actor::Manager(r);
        lemma_max_of_empty(bucket_locks(s0.objects[node]));
        lemma_held_step(w0, a, s0, s1, ObjChange::Removed(node), q);
        lemma_mgrs_step(w0, a, s1, q);
        if nonneg(w0) { lemma_nonneg_step(w0, a, s0, s1, ObjChange::Removed(node)); }
    }
    // The two helpers below are NOT inv-preserving on their own: the amount travels by value between them and
    // their caller.  Their exact effect on the measure is what the callers' lemmas rely on.
    /// helper create_bucket(amount) == Ok(b): +amount held, recorded supply untouched
    pub proof fn lemma_create_bucket_delta(w0: World, a: Actor, s0: State, s1: State, amount: Decimal, b: NodeId, q: NodeId)
        requires views(w0, a, s0), fresh_ok(w0, s0, s1), create_bucket_post(s0, s1, amount, b)
        ensures ({
            let w1 = writeback(w0, a, s1);
            &&& held(w1, q) == held(w0, q) + (if q == res_of(w0, a) { amount.v() } else { 0 })
            &&& w1.mgrs == w0.mgrs
        })
    {
        lemma_max_of_empty(bucket_locks(s1.objects[b]));
        lemma_held_step(w0, a, s0, s1, ObjChange::Added(b), q);
        let w1 = writeback(w0, a, s1);
        assert(w1.mgrs =~= w0.mgrs);
    }
    /// helper drop_fungible_bucket(node) == Ok(d): -amount(d) held (the content is returned by value)
    pub proof fn lemma_drop_fungible_bucket_delta(w0: World, r: NodeId, s0: State, s1: State, node: NodeId, d: DroppedFungibleBucket, q: NodeId)
        requires views(w0, Actor::Manager(r), s0), drop_fungible_post(s0, s1, node, d)
        ensures ({
            let w1 = writeback(w0, Actor::Manager(r), s1);
            &&& held(w1, q) == held(w0, q) - (if q == r { d.liquid.amount.v() } else { 0 })
            &&& w1.mgrs == w0.mgrs
        })
    {
        let a = Actor::Manager(r);
        lemma_max_of_empty(bucket_locks(s0.objects[node]));
        lemma_held_step(w0, a, s0, s1, ObjChange::Removed(node), q);
        let w1 = writeback(w0, a, s1);
        assert(w1.mgrs =~= w0.mgrs);
    }

    // ---- vault / bucket as actor ----
    /// `withdrawn` (vault take / take_advanced, bucket take / take_advanced): the container -x, a fresh bucket +x
    pub proof fn lemma_withdrawn_preserves_inv(w0: World, a: Actor, s0: State, s1: State, b: NodeId, requested: Decimal, strategy: WithdrawStrategy, q: NodeId)
        requires !(a is Manager), views(w0, a, s0), fresh_ok(w0, s0, s1), withdrawn(s0, s1, b, requested, strategy)
        ensures ({
            let w1 = writeback(w0, a, s1);
            &&& (inv(w0, q) ==> inv(w1, q))
            &&& held(w1, q) == held(w0, q)
            &&& w1.mgrs == w0.mgrs
            &&& (nonneg(w0) ==> nonneg(w1))
        })
    {
        lemma_locks_kept(s0, s1);
        lemma_max_of_empty(bucket_locks(s1.objects[b]));
        lemma_held_step(w0, a, s0, s1, ObjChange::Added(b), q);
        let w1 = writeback(w0, a, s1);
        assert(w1.mgrs =~= w0.mgrs);
        if nonneg(w0) { lemma_nonneg_step(w0, a, s0, s1, ObjChange::Added(b)); }
    }
    /// `deposited` (vault put, bucket put): the bucket consumed, the container +x
    pub proof fn lemma_deposited_preserves_inv(w0: World, a: Actor, s0: State, s1: State, b: NodeId, q: NodeId)
        requires !(a is Manager), views(w0, a, s0), deposited(s0, s1, b)
        ensures ({
            let w1 = writeback(w0, a, s1);
            &&& (inv(w0, q) ==> inv(w1, q))
            &&& held(w1, q) == held(w0, q)
            &&& w1.mgrs == w0.mgrs
            &&& (nonneg(w0) ==> nonneg(w1))
        })
    {
        lemma_locks_kept(s0, s1);
        lemma_max_of_empty(bucket_locks(s0.objects[b]));
        lemma_held_step(w0, a, s0, s1, ObjChange::Removed(b), q);
        let w1 = writeback(w0, a, s1);
        assert(w1.mgrs =~= w0.mgrs);
        if nonneg(w0) {
            assert(in_view(w0, a, b));
            assert(obj_matches(s0.objects[b], w0.buckets[b]));
            assert(w0.buckets[b].liquid >= 0);
            match a { Actor::Vault(v) => { assert(w0.vaults.contains_key(v)); } Actor::Bucket(b0) => { assert(w0.buckets.contains_key(b0)); } _ => {} }
            lemma_nonneg_step(w0, a, s0, s1, ObjChange::Removed(b));
        }
    }
    pub proof fn lemma_vault_take_advanced_preserves_inv(w0: World, v: NodeId, s0: State, s1: State, b: NodeId, requested: Decimal, strategy: WithdrawStrategy, q: NodeId)
        requires views(w0, Actor::Vault(v), s0), fresh_ok(w0, s0, s1), withdrawn(s0, s1, b, requested, strategy)
        ensures inv(w0, q) ==> inv(writeback(w0, Actor::Vault(v), s1), q)
    { lemma_withdrawn_preserves_inv(w0, Actor::Vault(v), s0, s1, b, requested, strategy, q); }
    pub proof fn lemma_vault_take_preserves_inv(w0: World, v: NodeId, s0: State, s1: State, b: NodeId, requested: Decimal, q: NodeId)
        requires views(w0, Actor::Vault(v), s0), fresh_ok(w0, s0, s1), withdrawn(s0, s1, b, requested, WithdrawStrategy::Exact)
        ensures inv(w0, q) ==> inv(writeback(w0, Actor::Vault(v), s1), q)
    { lemma_withdrawn_preserves_inv(w0, Actor::Vault(v), s0, s1, b, requested, WithdrawStrategy::Exact, q); }
    pub proof fn lemma_vault_put_preserves_inv(w0: World, v: NodeId, s0: State, s1: State, b: NodeId, q: NodeId)
        requires views(w0, Actor::Vault(v), s0), deposited(s0, s1, b)
        ensures inv(w0, q) ==> inv(writeback(w0, Actor::Vault(v), s1), q)
    { lemma_deposited_preserves_inv(w0, Actor::Vault(v), s0, s1, b, q); }
    pub proof fn lemma_bucket_take_advanced_preserves_inv(w0: World, b0: NodeId, s0: State, s1: State, b: NodeId, requested: Decimal, strategy: WithdrawStrategy, q: NodeId)
        requires views(w0, Actor::Bucket(b0), s0), fresh_ok(w0, s0, s1), withdrawn(s0, s1, b, requested, strategy)
        ensures inv(w0, q) ==> inv(writeback(w0, Actor::Bucket(b0), s1), q)
    { lemma_withdrawn_preserves_inv(w0, Actor::Bucket(b0), s0, s1, b, requested, strategy, q); }
    pub proof fn lemma_bucket_take_preserves_inv(w0: World, b0: NodeId, s0: State, s1: State, b: NodeId, requested: Decimal, q: NodeId)
        requires views(w0, Actor::Bucket(b0), s0), fresh_ok(w0, s0, s1), withdrawn(s0, s1, b, requested, WithdrawStrategy::Exact)
        ensures inv(w0, q) ==> inv(writeback(w0, Actor::Bucket(b0), s1), q)
    { lemma_withdrawn_preserves_inv(w0, Actor::Bucket(b0), s0, s1, b, requested, WithdrawStrategy::Exact, q); }
    pub proof fn lemma_bucket_put_preserves_inv(w0: World, b0: NodeId, s0: State, s1: State, b: NodeId, q: NodeId)
        requires views(w0, Actor::Bucket(b0), s0), deposited(s0, s1, b)
        ensures inv(w0, q) ==> inv(writeback(w0, Actor::Bucket(b0), s1), q)
    { lemma_deposited_preserves_inv(w0, Actor::Bucket(b0), s0, s1, b, q); }
    /// `lock_post` (vault / bucket lock_amount): moves between liquid and locked of the SAME container
    pub proof fn lemma_locked_preserves_inv(w0: World, a: Actor, s0: State, s1: State, amount: Decimal, q: NodeId)
        requires !(a is Manager), views(w0, a, s0), lock_post(s0, s1, amount)
        ensures ({
            let w1 = writeback(w0, a, s1);
            &&& (inv(w0, q) ==> inv(w1, q))
            &&& held(w1, q) == held(w0, q)
            &&& w1.mgrs == w0.mgrs
            &&& (nonneg(w0) ==> nonneg(w1))
        })
    {
        lemma_held_step(w0, a, s0, s1, ObjChange::Same, q);
        let w1 = writeback(w0, a, s1);
        assert(w1.mgrs =~= w0.mgrs);
        if nonneg(w0) { lemma_nonneg_step(w0, a, s0, s1, ObjChange::Same); }
    }
    /// `unlock_post` (vault / bucket unlock_amount): likewise
    pub proof fn lemma_unlocked_preserves_inv(w0: World, a: Actor, s0: State, s1: State, amount: Decimal, q: NodeId)
        requires !(a is Manager), views(w0, a, s0), unlock_post(s0, s1, amount)
        ensures ({
            let w1 = writeback(w0, a, s1);
            &&& (inv(w0, q) ==> inv(w1, q))
            &&& held(w1, q) == held(w0, q)
            &&& w1.mgrs == w0.mgrs
            &&& (nonneg(w0) ==> nonneg(w1))
        })
    {
        lemma_held_step(w0, a, s0, s1, ObjChange::Same, q);
        let w1 = writeback(w0, a, s1);
        assert(w1.mgrs =~= w0.mgrs);
        if nonneg(w0) { lemma_nonneg_step(w0, a, s0, s1, ObjChange::Same); }
    }
    pub proof fn lemma_vault_lock_amount_preserves_inv(w0: World, v: NodeId, s0: State, s1: State, amount: Decimal, q: NodeId)
        requires views(w0, Actor::Vault(v), s0), lock_post(s0, s1, amount)
        ensures inv(w0, q) ==> inv(writeback(w0, Actor::Vault(v), s1), q)
    { lemma_locked_preserves_inv(w0, Actor::Vault(v), s0, s1, amount, q); }
    pub proof fn lemma_vault_unlock_amount_preserves_inv(w0: World, v: NodeId, s0: State, s1: State, amount: Decimal, q: NodeId)
        requires views(w0, Actor::Vault(v), s0), unlock_post(s0, s1, amount)
        ensures inv(w0, q) ==> inv(writeback(w0, Actor::Vault(v), s1), q)
    { lemma_unlocked_preserves_inv(w0, Actor::Vault(v), s0, s1, amount, q); }
    pub proof fn lemma_bucket_lock_amount_preserves_inv(w0: World, b0: NodeId, s0: State, s1: State, amount: Decimal, q: NodeId)
        requires views(w0, Actor::Bucket(b0), s0), lock_post(s0, s1, amount)
        ensures inv(w0, q) ==> inv(writeback(w0, Actor::Bucket(b0), s1), q)
    { lemma_locked_preserves_inv(w0, Actor::Bucket(b0), s0, s1, amount, q); }
    pub proof fn lemma_bucket_unlock_amount_preserves_inv(w0: World, b0: NodeId, s0: State, s1: State, amount: Decimal, q: NodeId)
        requires views(w0, Actor::Bucket(b0), s0), unlock_post(s0, s1, amount)
        ensures inv(w0, q) ==> inv(writeback(w0, Actor::Bucket(b0), s1), q)
    { lemma_unlocked_preserves_inv(w0, Actor::Bucket(b0), s0, s1, amount, q); }
    /// a frozen vault's refusal (take* / put: fields and objects untouched) leaves the world as it was
    pub proof fn lemma_vault_frozen_world_unchanged(w0: World, v: NodeId, s0: State, s1: State)
        requires views(w0, Actor::Vault(v), s0), s1.fields == s0.fields, s1.objects == s0.objects
        ensures writeback(w0, Actor::Vault(v), s1) == w0
    { lemma_world_unchanged(w0, Actor::Vault(v), s0, s1); }
    /// helper internal_take(amount) is Ok (vault and bucket): -amount held, returned by value
    pub proof fn lemma_internal_take_delta(w0: World, a: Actor, s0: State, s1: State, amount: Decimal, q: NodeId)
        requires !(a is Manager), views(w0, a, s0), s1.objects == s0.objects, internal_take_post(s0, s1, amount)
        ensures ({
            let w1 = writeback(w0, a, s1);
            &&& held(w1, q) == held(w0, q) - (if q == res_of(w0, a) { amount.v() } else { 0 })
            &&& w1.mgrs == w0.mgrs
        })
    {
        lemma_locks_kept(s0, s1);
        lemma_held_step(w0, a, s0, s1, ObjChange::Same, q);
        let w1 = writeback(w0, a, s1);
        assert(w1.mgrs =~= w0.mgrs);
    }
    /// helper internal_put(resource) is Ok (vault): +amount held, passed by value
    pub proof fn lemma_internal_put_delta(w0: World, a: Actor, s0: State, s1: State, amount: Decimal, q: NodeId)
        requires !(a is Manager), views(w0, a, s0), s1.objects == s0.objects, internal_put_post(s0, s1, amount)
        ensures ({
            let w1 = writeback(w0, a, s1);
            &&& held(w1, q) == held(w0, q) + (if q == res_of(w0, a) { amount.v() } else { 0 })
            &&& w1.mgrs == w0.mgrs
        })
    {
        lemma_locks_kept(s0, s1);
        lemma_held_step(w0, a, s0, s1, ObjChange::Same, q);
        let w1 = writeback(w0, a, s1);
        assert(w1.mgrs =~= w0.mgrs);
    }

    // ==========================================================================================
    // HISTORIES
    // ==========================================================================================
    /// one successful (or refused) call of a public operation under contract
    pub ghost enum Op {
        Mint { amount: Decimal, b: NodeId },
        /// burn, package_burn, burn_internal
        Burn { node: NodeId },
        CreateEmptyBucket { b: NodeId },
        DropEmptyBucket { node: NodeId },
        /// vault / bucket take, take_advanced
        Take { b: NodeId, requested: Decimal, strategy: WithdrawStrategy },
        /// vault / bucket put
        Put { b: NodeId },
        /// vault / bucket lock_amount, unlock_amount (creation / drop of a proof)
        Lock { amount: Decimal },
        Unlock { amount: Decimal },
        /// any refusal for which the contracts state "fields and objects unchanged"
        Refused,
    }
    /// the postcondition relation of the real function(s) behind `op`
    pub open spec fn op_post(op: Op, a: Actor, s0: State, s1: State) -> bool {
        match op {
            Op::Mint { amount, b } => a is Manager && mint_post(s0, s1, amount, b),
            Op::Burn { node } => a is Manager && burn_ok(s0, s1, node, true),
            Op::CreateEmptyBucket { b } => a is Manager && create_empty_bucket_post(s0, s1, b),
            Op::DropEmptyBucket { node } => a is Manager && drop_empty_post(s0, s1, node),
            Op::Take { b, requested, strategy } => !(a is Manager) && withdrawn(s0, s1, b, requested, strategy),
            Op::Put { b } => !(a is Manager) && deposited(s0, s1, b),
            Op::Lock { amount } => !(a is Manager) && lock_post(s0, s1, amount),
            Op::Unlock { amount } => !(a is Manager) && unlock_post(s0, s1, amount),
            Op::Refused => s1.fields == s0.fields && s1.objects == s0.objects,
        }
    }
    pub ghost struct Step { pub a: Actor, pub s0: State, pub s1: State, pub op: Op }
    /// world `w1` is world `w0` after step `st`
    pub open spec fn step(w0: World, st: Step, w1: World) -> bool {
        &&& views(w0, st.a, st.s0)
        &&& fresh_ok(w0, st.s0, st.s1)
        &&& op_post(st.op, st.a, st.s0, st.s1)
        &&& w1 == writeback(w0, st.a, st.s1)
    }
    pub proof fn lemma_step_preserves_inv(w0: World, st: Step, w1: World, q: NodeId)
        requires step(w0, st, w1)
        ensures inv(w0, q) ==> inv(w1, q), nonneg(w0) ==> nonneg(w1)
    {
        let a = st.a; let s0 = st.s0; let s1 = st.s1;
        match st.op {
            Op::Mint { amount, b } => { lemma_mint_preserves_inv(w0, a->Manager_0, s0, s1, amount, b, q); }
            Op::Burn { node } => { lemma_burn_preserves_inv(w0, a->Manager_0, s0, s1, node, q); }
            Op::CreateEmptyBucket { b } => { lemma_create_empty_bucket_preserves_inv(w0, a->Manager_0, s0, s1, b, q); }
            Op::DropEmptyBucket { node } => { lemma_drop_empty_bucket_preserves_inv(w0, a->Manager_0, s0, s1, node, q); }
            Op::Take { b, requested, strategy } => { lemma_withdrawn_preserves_inv(w0, a, s0, s1, b, requested, strategy, q); }
            Op::Put { b } => { lemma_deposited_preserves_inv(w0, a, s0, s1, b, q); }
            Op::Lock { amount } => { lemma_locked_preserves_inv(w0, a, s0, s1, amount, q); }
            Op::Unlock { amount } => { lemma_unlocked_preserves_inv(w0, a, s0, s1, amount, q); }
            Op::Refused => { lemma_world_unchanged(w0, a, s0, s1); }
        }
    }
    /// a finite history: worlds ws[0] .. ws[n], steps sts[0] .. sts[n-1]
    pub open spec fn history(ws: Seq<World>, sts: Seq<Step>) -> bool {
        &&& ws.len() == sts.len() + 1
        &&& forall|i: int| 0 <= i < sts.len() ==> step(ws[i], #[trigger] sts[i], ws[i + 1])
    }
    /// THEOREM: over any finite sequence of such steps (any actors, any resources, any interleaving) the
    /// invariant of every resource is preserved, and no balance becomes negative.
    pub proof fn theorem_history(ws: Seq<World>, sts: Seq<Step>, q: NodeId)
        requires history(ws, sts)
        ensures
            inv(ws[0], q) ==> inv(ws[ws.len() - 1], q),
            nonneg(ws[0]) ==> nonneg(ws[ws.len() - 1]),
        decreases sts.len()
    {
        if sts.len() > 0 {
            let n = sts.len() as int;
            let ws0 = ws.drop_last(); let sts0 = sts.drop_last();
            assert forall|i: int| 0 <= i < sts0.len() implies step(ws0[i], #[trigger] sts0[i], ws0[i + 1]) by {
                assert(sts0[i] == sts[i]);
                assert(step(ws[i], sts[i], ws[i + 1]));
            }
            theorem_history(ws0, sts0, q);
            assert(ws0[ws0.len() - 1] == ws[n - 1]);
            assert(step(ws[n - 1], sts[n - 1], ws[n]));
            lemma_step_preserves_inv(ws[n - 1], sts[n - 1], ws[n], q);
        }
    }
    /// END OF TRANSACTION.  A bucket can leave the world only by put, burn or drop_empty_bucket, and the last
    /// needs amount == 0 (lemma_drop_empty_bucket_preserves_inv).  Once no bucket of `r` is live and no proof
    /// locks a vault of `r` (both enforced by the kernel at the end of a transaction -- not under contract here),
    /// the invariant is the database checker's statement: recorded supply == sum of the vault balances.
    pub proof fn lemma_at_commit(w: World, r: NodeId)
        requires
            inv(w, r), w.mgrs.contains_key(r), w.mgrs[r].tracks,
            forall|k: NodeId| #[trigger] w.buckets.contains_key(k) ==> w.buckets[k].res != r,
            forall|k: NodeId| #[trigger] w.vaults.contains_key(k) && w.vaults[k].res == r ==> w.vaults[k].locks.dom().len() == 0,
        ensures tracked_supply(w, r) == lsum(w.vaults, r)
    {
        lemma_csum_none(w.buckets, r);
        lemma_csum_unlocked(w.vaults, r);
    }

    // ---- non-vacuity: the hypotheses of a step are satisfiable ------------------------------------------------
    /// a world with one supply-tracking resource `r` whose whole supply `x` sits in one vault `v`
    pub open spec fn witness_world(r: NodeId, v: NodeId, x: Decimal) -> World {
        World {
            mgrs: Map::<NodeId, Mgr>::empty().insert(r, Mgr { tracks: true, supply: x.v() }),
            vaults: Map::<NodeId, Cont>::empty().insert(v, Cont { res: r, liquid: x.v(), locks: Map::<Decimal, usize>::empty() }),
            buckets: Map::<NodeId, Cont>::empty(),
        }
    }
    /// the manager's view of it before and after `mint(a) == Ok(b)`
    pub open spec fn witness_step(r: NodeId, b: NodeId, x: Decimal, a: Decimal) -> Step {
        let s0 = State {
            fields: Map::<FieldRef, GhostVal>::empty().insert(F_DIV(), GhostVal::Divisibility(18u8)).insert(F_SUPPLY(), GhostVal::Supply(x)),
            handles: Map::<FieldHandle, (FieldRef, bool)>::empty(),
            features: Set::<(ActorStateHandle, FungibleResourceManagerFeature)>::empty()
                .insert((ACTOR_STATE_SELF, FungibleResourceManagerFeature::Mint)).insert((ACTOR_STATE_SELF, FungibleResourceManagerFeature::TrackTotalSupply)),
            objects: Map::<NodeId, ObjG>::empty(),
            events: Seq::<EventG>::empty(),
        };
        let nb = ObjG { blueprint: FUNGIBLE_BUCKET_BLUEPRINT@,
            fields: Map::<FieldIndex, GhostVal>::empty().insert(I_LIQUID(), GhostVal::Liquid(a)).insert(I_LOCKED(), GhostVal::Locked(Map::<Decimal, usize>::empty())) };
        let s1 = State {
            fields: s0.fields.insert(F_SUPPLY(), GhostVal::Supply(Decimal::of(x.v() + a.v()))),
            objects: s0.objects.insert(b, nb),
            events: s0.events.push(EventG::Mint(a)),
            ..s0
        };
        Step { a: Actor::Manager(r), s0, s1, op: Op::Mint { amount: a, b } }
    }
    /// the Mint step has a model: its hypotheses hold of a concrete world and the conclusion is what C04 says
    pub proof fn lemma_mint_step_witness(r: NodeId, v: NodeId, b: NodeId, x: Decimal, a: Decimal)
        requires mintable_amount(a.v(), 18), in_dec(x.v() + a.v())
        ensures ({
            let w0 = witness_world(r, v, x); let st = witness_step(r, b, x, a); let w1 = writeback(w0, st.a, st.s1);
            &&& step(w0, st, w1)
            &&& inv(w0, r) && held(w0, r) == x.v()
            &&& inv(w1, r) && held(w1, r) == x.v() + a.v() && tracked_supply(w1, r) == x.v() + a.v()
        })
    {
        let w0 = witness_world(r, v, x); let st = witness_step(r, b, x, a); let w1 = writeback(w0, st.a, st.s1);
        let c = Cont { res: r, liquid: x.v(), locks: Map::<Decimal, usize>::empty() };
        lemma_csum_insert(Map::<NodeId, Cont>::empty(), v, c, r);
        lemma_max_of_empty(Map::<Decimal, usize>::empty());
        assert(csum(Map::<NodeId, Cont>::empty(), r) == 0);
        assert(held(w0, r) == x.v());
        assert(st.s1.fields.remove(F_SUPPLY()) =~= st.s0.fields.remove(F_SUPPLY()));
        assert(st.s1.objects[b].fields.dom() =~= set![I_LIQUID(), I_LOCKED()]);
        assert(mint_post(st.s0, st.s1, a, b));
        assert(views(w0, st.a, st.s0));
        assert(step(w0, st, w1));
        lemma_mint_preserves_inv(w0, r, st.s0, st.s1, a, b, r);
    }
}
} // verus!
fn main() {}
