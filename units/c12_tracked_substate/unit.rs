// Unit c12_tracked_substate -- properties C12 "The transaction state cache reads back its own writes"
// and C02 "Failed, rejected and aborted transactions change nothing but fees" (per-substate mechanism).
// Real code: radix-engine/src/track/state_updates.rs (RuntimeSubstate::new, Write::into_value, every
// method of TrackedSubstateValue, TrackedSubstate::size) and the per-substate `match` of
// radix-engine/src/track/track.rs :: TrackedSubstates::to_state_updates (sliced out with @expr-after,
// the surrounding iterator-adapter chain is NOT verified).
use vstd::prelude::*;
verus! {
/*@include shims/rt.rs @*/

pub mod env {
    use vstd::prelude::*;
    /// radix-engine-interface IndexedScryptoValue: opaque here. Trusted: `clone` is the identity on the
    /// abstract value, `len()` is some fixed function of the value, `into()` (real code: `From<IndexedScryptoValue>
    /// for Vec<u8>`, reached through the blanket `Into`) yields the value's byte string.
    #[verifier::external_body]
    pub struct IndexedScryptoValue { b: Vec<u8> }
    impl IndexedScryptoValue {
        pub uninterp spec fn spec_len(&self) -> usize;
        pub uninterp spec fn bytes(&self) -> Seq<u8>;
        #[verifier::external_body]
        pub fn len(&self) -> (r: usize) ensures r == self.spec_len() { unimplemented!() }
        #[verifier::external_body]
        pub fn into(self) -> (r: Vec<u8>) ensures r@ == self.bytes() { unimplemented!() }
    }
    impl Clone for IndexedScryptoValue {
        #[verifier::external_body]
        fn clone(&self) -> (r: Self) ensures r == *self { unimplemented!() }
    }
    /// radix-common SubstateKey: opaque, only moved.
    #[verifier::external_body]
    pub struct SubstateKey { x: Vec<u8> }
    pub type DbSubstateValue = Vec<u8>;

    pub assume_specification<T> [core::mem::replace] (dest: &mut T, src: T) -> (r: T)
        ensures r == *old(dest), *final(dest) == src;
}

pub mod unit {
    use vstd::prelude::*;
    use core::mem;
    use super::rt::*;
    use super::env::*;

    /*@item radix-engine/src/track/state_updates.rs :: struct RuntimeSubstate
    @derive
    @*/
    /*@item radix-engine/src/track/state_updates.rs :: enum ReadOnly
    @derive
    @*/
    /*@item radix-engine/src/track/state_updates.rs :: enum Write
    @derive
    @*/
    /*@item radix-engine/src/track/state_updates.rs :: struct TrackedSubstate
    @derive
    @*/
    /*@item radix-engine/src/track/state_updates.rs :: enum TrackedSubstateValue
    @derive
    @*/
    /*@item radix-common/src/state/state_updates.rs :: enum DatabaseUpdate
    @derive
    @*/

    // ------------------------------------------------------------------------------------------
    // Oracle (from the property statement): a tracked substate is an overlay cell
    //   base    : what the database is KNOWN to hold (None = never read, Some(x) = read as x)
    //   cur     : what a read through the cache returns now
    //   written : does the cell contribute an update at the end of the transaction
    //   fresh   : created by this transaction inside a new node (absent from the database by construction)
    // ------------------------------------------------------------------------------------------
    pub type V = IndexedScryptoValue;

    pub open spec fn cur(t: TrackedSubstateValue) -> Option<V> {
        match t {
            TrackedSubstateValue::New(s) => Some(s.value),
            TrackedSubstateValue::ReadOnly(ReadOnly::NonExistent) => None,
            TrackedSubstateValue::ReadOnly(ReadOnly::Existent(s)) => Some(s.value),
            TrackedSubstateValue::ReadExistAndWrite(_, Write::Update(s)) => Some(s.value),
            TrackedSubstateValue::ReadExistAndWrite(_, Write::Delete) => None,
            TrackedSubstateValue::ReadNonExistAndWrite(s) => Some(s.value),
            TrackedSubstateValue::WriteOnly(Write::Update(s)) => Some(s.value),
            TrackedSubstateValue::WriteOnly(Write::Delete) => None,
            TrackedSubstateValue::Garbage => None,
        }
    }
    pub open spec fn base(t: TrackedSubstateValue) -> Option<Option<V>> {
        match t {
            TrackedSubstateValue::ReadOnly(ReadOnly::NonExistent) => Some(None),
            TrackedSubstateValue::ReadOnly(ReadOnly::Existent(s)) => Some(Some(s.value)),
            TrackedSubstateValue::ReadExistAndWrite(r, _) => Some(Some(r)),
            TrackedSubstateValue::ReadNonExistAndWrite(_) => Some(None),
            _ => None,
        }
    }
    pub open spec fn written(t: TrackedSubstateValue) -> bool {
        !(t is ReadOnly) && !(t is Garbage)
    }
    pub open spec fn fresh(t: TrackedSubstateValue) -> bool { t is New }

    /// the update a cell must contribute: nothing if not written, else Set(cur) / Delete
    pub open spec fn emitted(t: TrackedSubstateValue) -> Option<Option<V>> {
        if !written(t) { None } else { Some(cur(t)) }
    }


    /// bytes held by a cell: the current value, plus the retained database value once it is shadowed by a write
    pub open spec fn opt_len(o: Option<V>) -> int { match o { Some(v) => v.spec_len() as int, None => 0 } }
    pub open spec fn size_spec(t: TrackedSubstateValue) -> int {
        opt_len(cur(t)) + (match base(t) { Some(b) if written(t) => opt_len(b), _ => 0 })
    }

    /// C12 "the state changes produced at the end are exactly the overlaid differences": applying the
    /// emitted update to any database value `d` compatible with what was read gives back `cur`.
    /// (Garbage is excluded: it stands for "removed again / reverted", its database value is not
    /// determined by the per-substate state.)
    pub open spec fn apply(u: Option<Option<V>>, d: Option<V>) -> Option<V> {
        match u { None => d, Some(x) => x }
    }
    pub proof fn lemma_emitted_is_overlay_diff(t: TrackedSubstateValue, d: Option<V>)
        requires !(t is Garbage), base(t) matches Some(b) ==> d == b,
        ensures apply(emitted(t), d) == cur(t),
                emitted(t) is None <==> !written(t),
    {}

    impl RuntimeSubstate {
        /*@fn radix-engine/src/track/state_updates.rs :: impl RuntimeSubstate :: fn new
        @sig
            ensures ret.value == value
        @*/
    }

    impl Write {
        /*@fn radix-engine/src/track/state_updates.rs :: impl Write :: fn into_value
        @sig
            ensures ret == (match self { Write::Update(s) => Some(s.value), Write::Delete => None })
        @*/
    }

    impl TrackedSubstateValue {
        /*@fn radix-engine/src/track/state_updates.rs :: impl TrackedSubstateValue :: fn get
        @sig
            ensures match ret { Some(v) => cur(*self) == Some(*v), None => cur(*self) is None }
        @*/

        /*@fn radix-engine/src/track/state_updates.rs :: impl TrackedSubstateValue :: fn into_value
        @sig
            ensures ret == cur(self)
        @*/

        /*@fn radix-engine/src/track/state_updates.rs :: impl TrackedSubstateValue :: fn take
        @sig
            ensures
                ret == cur(*old(self)),
                cur(*final(self)) is None,
                base(*final(self)) == base(*old(self)),
                !fresh(*final(self)),
                // after a removal a Delete is owed exactly when the database may hold a value:
                // never for a fresh cell or one read as absent, always for one read as present,
                // and for a never-read cell iff something had been written before
                written(*final(self)) == (if fresh(*old(self)) { false } else {
                    match base(*old(self)) { Some(None) => false, Some(Some(_)) => true, None => written(*old(self)) } }),
        @*/

        /*@fn radix-engine/src/track/state_updates.rs :: impl TrackedSubstateValue :: fn revert_writes
        @sig
            ensures
                !written(*final(self)),
                emitted(*final(self)) is None,
                base(*final(self)) == base(*old(self)),
                cur(*final(self)) == (match base(*old(self)) { Some(b) => b, None => None }),
        @*/

        /*@fn radix-engine/src/track/state_updates.rs :: impl TrackedSubstateValue :: fn set
        @split-arm <<TrackedSubstateValue::New(substate)>> #1
        @split-arm <<TrackedSubstateValue::ReadExistAndWrite(_, write @ Write::Delete)>> #1
        @sig
            ensures
                cur(*final(self)) == Some(value),
                base(*final(self)) == base(*old(self)),
                written(*final(self)),
                fresh(*final(self)) == fresh(*old(self)),
        @*/

        /*@fn radix-engine/src/track/state_updates.rs :: impl TrackedSubstateValue :: fn get_runtime_substate_mut
        @split-arm <<TrackedSubstateValue::New(substate)>> #1
        @sig
            ensures match ret {
                Some(r) => cur(*old(self)) == Some(r.value)
                    && cur(*final(self)) == Some(final(r).value)
                    && written(*final(self)) == written(*old(self))
                    && fresh(*final(self)) == fresh(*old(self))
                    && base(*final(self)) == (if *old(self) is ReadOnly { Some(Some(final(r).value)) } else { base(*old(self)) }),
                None => cur(*old(self)) is None && *final(self) == *old(self),
            }
        @*/

        /*@fn radix-engine/src/track/state_updates.rs :: impl TrackedSubstateValue :: fn size
        @sig
            requires size_spec(*self) <= usize::MAX
            ensures ret == size_spec(*self)
        @*/
    }

    impl TrackedSubstate {
        /*@fn radix-engine/src/track/state_updates.rs :: impl TrackedSubstate :: fn size
        @sig
            requires size_spec(self.substate_value) <= usize::MAX
            ensures ret == size_spec(self.substate_value)
        @*/
    }

    /// R8 (closure lifting, done by hand because the extractor has no closure-to-fn lifting): the
    /// per-substate mapping of `TrackedSubstates::to_state_updates` is the closure
    ///     |tracked| { let update = <MATCH>; Some((tracked.substate_key, update)) }
    /// passed to `filter_map`. <MATCH> is extracted verbatim from /repo (expr-after); the two lines
    /// around it are re-typed here. The enclosing loops / `into_values().filter_map(..).collect()`
    /// chain and `mut_update_substates` are dropped and NOT verified. (`tracked` is a Verus keyword, hence
    /// the raw identifier `r#tracked` for the closure parameter; inside expressions it is the same name.)
    pub fn to_state_updates_closure_1(r#tracked: TrackedSubstate) -> (ret: Option<(SubstateKey, DatabaseUpdate)>)
        ensures match emitted(tracked.substate_value) {
            None => ret is None,
            Some(None) => ret matches Some((k, u)) && k == tracked.substate_key && u is Delete,
            Some(Some(v)) => ret matches Some((k, DatabaseUpdate::Set(b))) && k == tracked.substate_key && b@ == v.bytes(),
        }
    {
        let update = /*@expr-after radix-engine/src/track/track.rs :: impl TrackedSubstates :: fn to_state_updates :: <<let update =>> @*/;
        Some((tracked.substate_key, update))
    }

    // ---- compositions of the contracts above (hand-written callers, no repo code) -------------
    /// C12 read-your-writes: a read after `set(v)` returns `v`; a read after `take()` returns nothing.
    pub fn read_after_set(t: &mut TrackedSubstateValue, v: IndexedScryptoValue)
        ensures cur(*final(t)) == Some(v), base(*final(t)) == base(*old(t)),
    {
        t.set(v);
        let g = t.get();
        assert(g is Some && *g->Some_0 == v);
    }
    pub fn read_after_take(t: &mut TrackedSubstateValue) -> (ret: Option<IndexedScryptoValue>)
        ensures ret == cur(*old(t)),
    {
        let r = t.take();
        let g = t.get();
        assert(g is None);
        r
    }
    /// C02: a reverted substate contributes no update (revert_writes ; to_state_updates closure == None).
    pub fn revert_then_update(r#tracked: TrackedSubstate) -> (ret: Option<(SubstateKey, DatabaseUpdate)>)
        ensures ret is None
    {
        let mut t = r#tracked;
        t.substate_value.revert_writes();
        to_state_updates_closure_1(t)
    }
}
} // verus!
fn main() {}
