// Unit c13_substate_locks -- property C13 "Substate locks are exclusive for writers"
// Real code: radix-engine/src/kernel/substate_locks.rs (every function of the file).
use vstd::prelude::*;
verus! {
/*@include shims/rt.rs @*/
/*@include shims/maps.rs @*/

pub mod env {
    use vstd::prelude::*;
    // Environment types of the unit: only equality / Copy / Clone of the key components matter.
    #[verifier::external_body]
    #[derive(Clone, Copy)]
    pub struct NodeId { x: [u8; 30] }
    #[verifier::external_body]
    #[derive(Clone, Copy)]
    pub struct PartitionNumber { x: u8 }
    #[verifier::external_body]
    pub struct SubstateKey { x: Vec<u8> }
    impl Clone for SubstateKey {
        #[verifier::external_body]
        fn clone(&self) -> (r: Self) ensures r == *self { unimplemented!() }
    }
}

pub mod unit {
    use vstd::prelude::*;
    use super::rt::*;
    use super::maps::*;
    use super::env::*;

    /*@item radix-engine/src/kernel/substate_locks.rs :: struct SubstateLockError
    @*/

    /*@item radix-engine/src/kernel/substate_locks.rs :: enum SubstateLockState
    @derive Copy, Clone, PartialEq, Eq
    @*/

    // ------------------------------------------------------------------------------------------
    // Oracle (written from the property statement): handles are the abstract state; per key the
    // lock state must be Write with exactly one handle, or Read(n) with exactly n handles.
    // ------------------------------------------------------------------------------------------
    pub type Key = (NodeId, PartitionNumber, SubstateKey);
    pub type Ent<D> = (NodeId, PartitionNumber, SubstateKey, D);

    pub open spec fn key_of<D>(e: Ent<D>) -> Key { (e.0, e.1, e.2) }

    pub open spec fn handles_on<D>(m: Map<u32, Ent<D>>, k: Key) -> Set<u32> {
        m.dom().filter(|h: u32| key_of(m[h]) == k)
    }
    pub open spec fn handles_on_node<D>(m: Map<u32, Ent<D>>, nd: NodeId) -> Set<u32> {
        m.dom().filter(|h: u32| m[h].0 == nd)
    }
    pub open spec fn state_ok(s: Option<SubstateLockState>, n: nat) -> bool {
        match s {
            None => n == 0,
            Some(SubstateLockState::Read(c)) => n == c,
            Some(SubstateLockState::Write) => n == 1,
        }
    }
    pub open spec fn lookup<K, V>(m: Map<K, V>, k: K) -> Option<V> {
        if m.contains_key(k) { Some(m[k]) } else { None }
    }
    pub open spec fn count_ok(c: Option<usize>, n: nat) -> bool {
        match c { None => n == 0, Some(x) => n == x }
    }

    impl<D> SubstateLocks<D> {
        pub open spec fn wf(&self) -> bool {
            &&& forall|h: u32| self.locks@.contains_key(h) ==> h < self.next_lock_id
            &&& forall|k: Key| state_ok(lookup(self.substate_lock_states@, k), #[trigger] handles_on(self.locks@, k).len())
            &&& forall|nd: NodeId| count_ok(lookup(self.node_num_locked@, nd), #[trigger] handles_on_node(self.locks@, nd).len())
        }
        /// is some handle on `k` a writer?  (the ghost "mode" of the handles on k)
        pub open spec fn write_locked(&self, k: Key) -> bool {
            lookup(self.substate_lock_states@, k) == Some(SubstateLockState::Write)
        }
    }

    pub proof fn lemma_insert<D>(m: Map<u32, Ent<D>>, h: u32, e: Ent<D>)
        requires !m.contains_key(h)
        ensures
            forall|k: Key| #[trigger] handles_on(m.insert(h, e), k).len()
                == handles_on(m, k).len() + (if k == key_of(e) { 1nat } else { 0nat }),
            forall|nd: NodeId| #[trigger] handles_on_node(m.insert(h, e), nd).len()
                == handles_on_node(m, nd).len() + (if nd == e.0 { 1nat } else { 0nat }),
            handles_on(m.insert(h, e), key_of(e)) == handles_on(m, key_of(e)).insert(h),
    {
        let m2 = m.insert(h, e);
        assert forall|k: Key| #[trigger] handles_on(m2, k).len()
                == handles_on(m, k).len() + (if k == key_of(e) { 1nat } else { 0nat }) by {
            if k == key_of(e) {
                assert(handles_on(m2, k) =~= handles_on(m, k).insert(h));
            } else {
                assert(handles_on(m2, k) =~= handles_on(m, k));
            }
        }
        assert forall|nd: NodeId| #[trigger] handles_on_node(m2, nd).len()
                == handles_on_node(m, nd).len() + (if nd == e.0 { 1nat } else { 0nat }) by {
            if nd == e.0 {
                assert(handles_on_node(m2, nd) =~= handles_on_node(m, nd).insert(h));
            } else {
                assert(handles_on_node(m2, nd) =~= handles_on_node(m, nd));
            }
        }
        assert(handles_on(m2, key_of(e)) =~= handles_on(m, key_of(e)).insert(h));
    }

    pub proof fn lemma_remove<D>(m: Map<u32, Ent<D>>, h: u32)
        requires m.contains_key(h)
        ensures
            forall|k: Key| #[trigger] handles_on(m.remove(h), k).len()
                == handles_on(m, k).len() - (if k == key_of(m[h]) { 1nat } else { 0nat }),
            forall|nd: NodeId| #[trigger] handles_on_node(m.remove(h), nd).len()
                == handles_on_node(m, nd).len() - (if nd == m[h].0 { 1nat } else { 0nat }),
            handles_on(m, key_of(m[h])).len() >= 1,
            handles_on_node(m, m[h].0).len() >= 1,
    {
        let m2 = m.remove(h);
        let e = m[h];
        assert forall|k: Key| #[trigger] handles_on(m2, k).len()
                == handles_on(m, k).len() - (if k == key_of(e) { 1nat } else { 0nat }) by {
            if k == key_of(e) {
                assert(handles_on(m, k).contains(h));
                assert(handles_on(m2, k) =~= handles_on(m, k).remove(h));
            } else {
                assert(handles_on(m2, k) =~= handles_on(m, k));
            }
        }
        assert forall|nd: NodeId| #[trigger] handles_on_node(m2, nd).len()
                == handles_on_node(m, nd).len() - (if nd == e.0 { 1nat } else { 0nat }) by {
            if nd == e.0 {
                assert(handles_on_node(m, nd).contains(h));
                assert(handles_on_node(m2, nd) =~= handles_on_node(m, nd).remove(h));
            } else {
                assert(handles_on_node(m2, nd) =~= handles_on_node(m, nd));
            }
        }
        assert(handles_on(m, key_of(e)).contains(h));
        assert(handles_on_node(m, e.0).contains(h));
    }

    /// C13, stated over the model: while a key is write-locked it has exactly one handle, and a
    /// key with any handle on it is never granted to a writer (see `lock`'s postcondition).
    pub proof fn lemma_writer_exclusive<D>(s: SubstateLocks<D>, k: Key)
        requires s.wf(), s.write_locked(k)
        ensures handles_on(s.locks@, k).len() == 1
    {
        assert(state_ok(lookup(s.substate_lock_states@, k), handles_on(s.locks@, k).len()));
    }

    impl SubstateLockState {
        /*@fn radix-engine/src/kernel/substate_locks.rs :: impl SubstateLockState :: fn no_lock
        @sig
            ensures ret == SubstateLockState::Read(0)
        @*/

        /*@fn radix-engine/src/kernel/substate_locks.rs :: impl SubstateLockState :: fn is_locked
        @sig
            ensures ret == (*self != SubstateLockState::Read(0))
        @*/

        /*@fn radix-engine/src/kernel/substate_locks.rs :: impl SubstateLockState :: fn try_lock
        @sig
            requires *old(self) matches SubstateLockState::Read(n) ==> n < usize::MAX,
            ensures
                ret is Ok <==> (if read_only { *old(self) is Read } else { *old(self) == SubstateLockState::Read(0) }),
                ret is Ok && read_only ==> *final(self) == SubstateLockState::Read((old(self)->Read_0 + 1) as usize),
                ret is Ok && !read_only ==> *final(self) == SubstateLockState::Write,
                ret is Err ==> *final(self) == *old(self),
        @*/

        /*@fn radix-engine/src/kernel/substate_locks.rs :: impl SubstateLockState :: fn unlock
        @sig
            requires *old(self) matches SubstateLockState::Read(n) ==> n > 0,
            ensures
                *old(self) matches SubstateLockState::Read(n) ==> *final(self) == SubstateLockState::Read((n - 1) as usize),
                *old(self) is Write ==> *final(self) == SubstateLockState::Read(0),
        @*/
    }

    #[verifier::reject_recursive_types(D)]
    /*@item radix-engine/src/kernel/substate_locks.rs :: struct SubstateLocks
    @*/

    impl<D> SubstateLocks<D> {
        /*@fn radix-engine/src/kernel/substate_locks.rs :: impl<D> SubstateLocks<D> :: fn new
        @sig
            ensures ret.wf(), ret.locks@ == Map::<u32, Ent<D>>::empty(),
        @entry
            proof {
                let e = Map::<u32, Ent<D>>::empty();
                assert forall|k: Key| #[trigger] handles_on(e, k).len() == 0 by { assert(handles_on(e, k) =~= Set::empty()); }
                assert forall|nd: NodeId| #[trigger] handles_on_node(e, nd).len() == 0 by { assert(handles_on_node(e, nd) =~= Set::empty()); }
            }
        @*/

        /*@fn radix-engine/src/kernel/substate_locks.rs :: impl<D> SubstateLocks<D> :: fn new_lock_handle
        @sig
            requires
                old(self).next_lock_id < u32::MAX,
                forall|h: u32| old(self).locks@.contains_key(h) ==> h < old(self).next_lock_id,
            ensures
                ret == old(self).next_lock_id,
                !old(self).locks@.contains_key(ret),
                final(self).locks@ == old(self).locks@.insert(ret, (*node_id, partition_num, *substate_key, data)),
                final(self).next_lock_id == old(self).next_lock_id + 1,
                final(self).substate_lock_states == old(self).substate_lock_states,
                final(self).node_num_locked == old(self).node_num_locked,
        @*/

        /*@fn radix-engine/src/kernel/substate_locks.rs :: impl<D> SubstateLocks<D> :: fn node_is_locked
        @sig
            requires self.wf()
            ensures ret == (handles_on_node(self.locks@, *node_id).len() > 0)
        @closure 1 := |e: &usize| -> (r: bool) ensures r == (*e > 0)
        @entry
            proof { assert(count_ok(lookup(self.node_num_locked@, *node_id), handles_on_node(self.locks@, *node_id).len())); }
        @*/

        /*@fn radix-engine/src/kernel/substate_locks.rs :: impl<D> SubstateLocks<D> :: fn is_locked
        @sig
            requires self.wf()
            ensures ret == (handles_on(self.locks@, (*node_id, partition_num, *substate_key)).len() > 0)
        @entry
            proof { assert(state_ok(lookup(self.substate_lock_states@, (*node_id, partition_num, *substate_key)), handles_on(self.locks@, (*node_id, partition_num, *substate_key)).len())); }
        @*/

        /*@fn radix-engine/src/kernel/substate_locks.rs :: impl<D> SubstateLocks<D> :: fn lock
        @sig
            requires
                old(self).wf(),
                old(self).next_lock_id < u32::MAX,
                handles_on(old(self).locks@, (*node_id, partition_num, *substate_key)).len() < usize::MAX,
                handles_on_node(old(self).locks@, *node_id).len() < usize::MAX,
            ensures
                final(self).wf(),
                // granted exactly when: reader and no writer holds the key / writer and nobody holds it
                ret is Some <==> (if read_only { !old(self).write_locked((*node_id, partition_num, *substate_key)) }
                                  else { handles_on(old(self).locks@, (*node_id, partition_num, *substate_key)).len() == 0 }),
                // whole model: exactly one fresh handle is added, or nothing changes
                match ret {
                    Some(h) => !old(self).locks@.contains_key(h)
                        && final(self).locks@ == old(self).locks@.insert(h, (*node_id, partition_num, *substate_key, data))
                        && (final(self).write_locked((*node_id, partition_num, *substate_key)) <==> !read_only),
                    None => final(self).locks@ == old(self).locks@
                        && (forall|k: Key| final(self).write_locked(k) == old(self).write_locked(k)),
                },
                // other keys keep their mode
                forall|k: Key| k != (*node_id, partition_num, *substate_key) ==> final(self).write_locked(k) == old(self).write_locked(k),
        @entry
            let ghost k0: Key = (*node_id, partition_num, *substate_key);
            proof {
                assert(state_ok(lookup(old(self).substate_lock_states@, k0), handles_on(old(self).locks@, k0).len()));
                assert(count_ok(lookup(old(self).node_num_locked@, *node_id), handles_on_node(old(self).locks@, *node_id).len()));
            }
        @before <<return None>> #1
            proof {
                assert(self.substate_lock_states@ =~= old(self).substate_lock_states@.insert(k0, *lock_state));
                assert forall|k: Key| state_ok(lookup(self.substate_lock_states@, k), #[trigger] handles_on(self.locks@, k).len()) by {
                    assert(state_ok(lookup(old(self).substate_lock_states@, k), handles_on(old(self).locks@, k).len()));
                }
            }
        @after <<self.new_lock_handle(>> #1
            proof {
                lemma_insert(old(self).locks@, handle, (*node_id, partition_num, *substate_key, data));
                assert forall|k: Key| state_ok(lookup(self.substate_lock_states@, k), #[trigger] handles_on(self.locks@, k).len()) by {
                    assert(state_ok(lookup(old(self).substate_lock_states@, k), handles_on(old(self).locks@, k).len()));
                }
                assert forall|nd: NodeId| count_ok(lookup(self.node_num_locked@, nd), #[trigger] handles_on_node(self.locks@, nd).len()) by {
                    assert(count_ok(lookup(old(self).node_num_locked@, nd), handles_on_node(old(self).locks@, nd).len()));
                }
            }
        @*/

        /*@fn radix-engine/src/kernel/substate_locks.rs :: impl<D> SubstateLocks<D> :: fn get
        @sig
            requires self.locks@.contains_key(handle)
            ensures *ret == self.locks@[handle]
        @*/

        /*@fn radix-engine/src/kernel/substate_locks.rs :: impl<D> SubstateLocks<D> :: fn get_mut
        @sig
            requires old(self).locks@.contains_key(handle)
            ensures *ret == old(self).locks@[handle],
                    final(self).locks@ == old(self).locks@.insert(handle, *final(ret)),
                    final(self).substate_lock_states == old(self).substate_lock_states,
                    final(self).node_num_locked == old(self).node_num_locked,
                    final(self).next_lock_id == old(self).next_lock_id,
        @*/

        /*@fn radix-engine/src/kernel/substate_locks.rs :: impl<D> SubstateLocks<D> :: fn unlock
        @sig
            requires old(self).wf(), old(self).locks@.contains_key(handle)
            ensures
                final(self).wf(),
                ret == old(self).locks@[handle],
                final(self).locks@ == old(self).locks@.remove(handle),
                // a released writer leaves the key unlocked; other keys keep their mode
                old(self).write_locked(key_of(ret)) ==> handles_on(final(self).locks@, key_of(ret)).len() == 0,
                !final(self).write_locked(key_of(ret)),
                forall|k: Key| k != key_of(ret) ==> final(self).write_locked(k) == old(self).write_locked(k),
        @after <<let full_key>> #1
            proof {
                lemma_remove(old(self).locks@, handle);
                assert(state_ok(lookup(old(self).substate_lock_states@, full_key), handles_on(old(self).locks@, full_key).len()));
                assert(count_ok(lookup(old(self).node_num_locked@, node_id), handles_on_node(old(self).locks@, node_id).len()));
            }
        @before <<( full_key.0>> #1
            proof {
                assert forall|k: Key| state_ok(lookup(self.substate_lock_states@, k), #[trigger] handles_on(self.locks@, k).len()) by {
                    assert(state_ok(lookup(old(self).substate_lock_states@, k), handles_on(old(self).locks@, k).len()));
                }
                assert forall|nd: NodeId| count_ok(lookup(self.node_num_locked@, nd), #[trigger] handles_on_node(self.locks@, nd).len()) by {
                    assert(count_ok(lookup(old(self).node_num_locked@, nd), handles_on_node(old(self).locks@, nd).len()));
                }
            }
        @*/
    }
}
} // verus!
fn main() {}
