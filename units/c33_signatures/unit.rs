// Unit c33_signatures -- property C33 "Only valid signatures authorize a transaction"
// The cryptographic primitives (ed25519_dalek, secp256k1: third-party, C/assembly) are an ASSUMED ORACLE:
//   uninterpreted valid_ed / valid_secp / recovered + "a recovered key verifies" (env).  Everything below is
//   decided RELATIVE to that oracle.
// Real code under contract (bodies verbatim, radix-transactions/src/validation/signature_validator.rs):
//   verify_and_recover, verify,
//   PendingIntentSignatureValidations::{intent_signature_validations, notary_signature_validations},
//   PendingSubintentSignatureValidations::for_subintent,
//   AllPendingSignatureValidations::{new_with_root, add_non_root, validate_all, validate_signatures},
//   SignedIntentTreeStructure::construct_pending_signature_validations (trait default method),
//   + TransactionValidationConfig::allow_notary_to_duplicate_signer, TransactionValidationErrorLocation::for_root,
//     SignatureValidationError::located, <PublicKey as From<Secp256k1PublicKey / Ed25519PublicKey>>::from.
// Not covered: the primitives themselves; transaction preparation and hash computation (so the "altering any
//   byte" clause of C33); the callers that fill in PendingIntentSignatureValidations (validate_notarized_v1 and
//   the root_signatures / non_root_subintent_signatures impls for the Prepared*V2 types, whose structs are
//   macro-generated); what the callers do with the returned signer keys.
use vstd::prelude::*;
verus! {
/*@include shims/rt.rs @*/
/*@include shims/maps.rs @*/
/*@include shims/sets.rs @*/
/*@include shims/vec_into_iter_map_c33.rs @*/
/*@include shims/exact_iter_zip_c33.rs @*/

pub mod env {
    use vstd::prelude::*;
    use super::exact_iter::*;

    // ---- key / signature / hash material: fixed-size byte strings whose content is never inspected
    // by the code under contract (all verbatim; only identity (==) and Copy matter here)
    /*@item radix-common/src/crypto/hash.rs :: struct Hash
    @derive Clone, Copy
    @*/
    impl Hash {
        /*@item radix-common/src/crypto/hash.rs :: impl Hash :: const LENGTH
        @*/
    }
    /*@item radix-common/src/crypto/ed25519/public_key.rs :: struct Ed25519PublicKey
    @derive Clone, Copy
    @*/
    impl Ed25519PublicKey {
        /*@item radix-common/src/crypto/ed25519/public_key.rs :: impl Ed25519PublicKey :: const LENGTH
        @*/
    }
    /*@item radix-common/src/crypto/secp256k1/public_key.rs :: struct Secp256k1PublicKey
    @derive Clone, Copy
    @*/
    impl Secp256k1PublicKey {
        /*@item radix-common/src/crypto/secp256k1/public_key.rs :: impl Secp256k1PublicKey :: const LENGTH
        @*/
    }
    /*@item radix-common/src/crypto/ed25519/signature.rs :: struct Ed25519Signature
    @derive Clone, Copy
    @*/
    impl Ed25519Signature {
        /*@item radix-common/src/crypto/ed25519/signature.rs :: impl Ed25519Signature :: const LENGTH
        @*/
    }
    /*@item radix-common/src/crypto/secp256k1/signature.rs :: struct Secp256k1Signature
    @derive Clone, Copy
    @*/
    impl Secp256k1Signature {
        /*@item radix-common/src/crypto/secp256k1/signature.rs :: impl Secp256k1Signature :: const LENGTH
        @*/
    }

    /*@item radix-common/src/crypto/public_key.rs :: enum PublicKey
    @derive Clone, Copy
    @*/
    /*@item radix-transactions/src/model/v1/notary_signature.rs :: enum SignatureV1
    @derive Clone, Copy
    @*/
    /*@item radix-transactions/src/model/v1/intent_signatures.rs :: enum SignatureWithPublicKeyV1
    @derive Clone, Copy
    @*/

    // ---- THE CRYPTO ORACLE (assumed; the primitives are third-party: ed25519_dalek, secp256k1) ----
    /// `sig` is a valid Ed25519 signature of message `h` under key `pk`
    pub uninterp spec fn valid_ed(h: Hash, pk: Ed25519PublicKey, sig: Ed25519Signature) -> bool;
    /// `sig` is a valid ECDSA/secp256k1 signature of digest `h` under key `pk`
    pub uninterp spec fn valid_secp(h: Hash, pk: Secp256k1PublicKey, sig: Secp256k1Signature) -> bool;
    /// the key that public-key recovery yields for (`h`, `sig`), if any
    pub uninterp spec fn recovered(h: Hash, sig: Secp256k1Signature) -> Option<Secp256k1PublicKey>;
    /// ASSUMED: a recovered key is one under which the signature verifies
    pub broadcast axiom fn ax_recovered_is_valid(h: Hash, sig: Secp256k1Signature)
        ensures (#[trigger] recovered(h, sig)) matches Some(pk) ==> valid_secp(h, pk, sig);

    /// radix-common/src/crypto/signature_validator.rs (first parameter is `impl AsRef<[u8]>` there; every
    /// call under contract passes a `&Hash`)
    #[verifier::external_body]
    pub fn verify_ed25519(message: &Hash, public_key: &Ed25519PublicKey, signature: &Ed25519Signature) -> (r: bool)
        ensures r == valid_ed(*message, *public_key, *signature)
    { unimplemented!() }
    #[verifier::external_body]
    pub fn verify_secp256k1(signed_hash: &Hash, public_key: &Secp256k1PublicKey, signature: &Secp256k1Signature) -> (r: bool)
        ensures r == valid_secp(*signed_hash, *public_key, *signature)
    { unimplemented!() }
    #[verifier::external_body]
    pub fn verify_and_recover_secp256k1(signed_hash: &Hash, signature: &Secp256k1Signature) -> (r: Option<Secp256k1PublicKey>)
        ensures r == recovered(*signed_hash, *signature)
    { unimplemented!() }

    /*@item radix-transactions/src/model/v1/intent_signatures.rs :: struct IntentSignatureV1
    @derive None
    @*/

    // ---- typed hashes: generated in /repo by `define_wrapped_hash!(Name)` (radix-common/src/crypto/hash.rs):
    // `pub struct Name(pub Hash);` + `impl IsHash for Name {}`, whose provided method `as_hash(&self) -> &Hash`
    // is `<Self as AsRef<Hash>>::as_ref(self)`, i.e. `&self.0`.  Re-declared by hand (macro output cannot be extracted).
    #[derive(Clone, Copy)]
    pub struct TransactionIntentHash(pub Hash);
    #[derive(Clone, Copy)]
    pub struct SignedTransactionIntentHash(pub Hash);
    #[derive(Clone, Copy)]
    pub struct SubintentHash(pub Hash);
    impl TransactionIntentHash { pub fn as_hash(&self) -> (r: &Hash) ensures *r == self.0 { &self.0 } }
    impl SignedTransactionIntentHash { pub fn as_hash(&self) -> (r: &Hash) ensures *r == self.0 { &self.0 } }
    impl SubintentHash { pub fn as_hash(&self) -> (r: &Hash) ensures *r == self.0 { &self.0 } }
    /*@item radix-transactions/src/model/concepts.rs :: enum IntentHash
    @derive Clone, Copy
    @*/
    /*@item radix-transactions/src/model/execution/executable_transaction.rs :: struct SubintentIndex
    @derive Clone, Copy
    @*/

    // ---- configuration (all verbatim, as in unit c34_tx_validation) --------------------------------
    /*@item radix-transactions/src/manifest/static_manifest_interpreter.rs :: enum InterpreterValidationRulesetSpecifier
    @derive Clone, Copy
    @*/
    /*@item radix-transactions/src/validation/transaction_validation_configuration.rs :: enum ManifestValidationRuleset
    @derive Clone, Copy
    @*/
    /*@item radix-transactions/src/validation/transaction_validation_configuration.rs :: struct MessageValidationConfig
    @derive Clone, Copy
    @*/
    /*@item radix-transactions/src/model/preparation/decoder.rs :: struct PreparationSettingsV1
    @derive Clone, Copy
    @*/
    /*@item radix-transactions/src/validation/transaction_validation_configuration.rs :: struct TransactionValidationConfigV1
    @derive Clone, Copy
    @*/
    // in /repo this alias is generated by `define_single_versioned!`
    pub type TransactionValidationConfig = TransactionValidationConfigV1;
    /*@item radix-transactions/src/validation/transaction_validation_configuration.rs :: enum TransactionVersion
    @derive Clone, Copy
    @*/

    // ---- errors (verbatim); payloads of variants never constructed here are opaque ----------------------
    pub struct EncodeError;
    pub struct PrepareError;
    pub struct SubintentStructureError;
    pub struct IntentValidationError;
    /*@item radix-transactions/src/errors.rs :: enum SignatureValidationError
    @derive None
    @*/
    /*@item radix-transactions/src/errors.rs :: enum TransactionValidationErrorLocation
    @derive None
    @*/
    /*@item radix-transactions/src/errors.rs :: enum TransactionValidationError
    @derive None
    @*/

    // ---- the environment traits (same rewrite as in unit c35_intent_structure) -------------------------
    // Same names and method names as in /repo (model/concepts.rs, validation/transaction_structure_validator.rs).
    // Differences: (1) the opaque `impl ExactSizeIterator<Item = ..>` return type is the shim iterator type of
    // shims/exact_iter_zip_c33.rs (Verus has no return-position impl Trait in traits); (2) methods the function
    // under contract never calls (children, validate_intent) are left out; (3) each method is ASSUMED to be a
    // pure observation of `self`, named by a spec fn (true of the impls in transaction_validator_v2.rs, which
    // read fields / cached hashes of prepared transactions).
    pub trait HasSubintentHash {
        spec fn subintent_hash_spec(&self) -> SubintentHash;
        fn subintent_hash(&self) -> (r: SubintentHash)
            ensures r == self.subintent_hash_spec();
    }
    pub trait IntentStructure {
        spec fn intent_hash_spec(&self) -> IntentHash;
        fn intent_hash(&self) -> (r: IntentHash)
            ensures r == self.intent_hash_spec();
    }
    pub trait IntentTreeStructure {
        type RootIntentStructure: IntentStructure;
        type SubintentStructure: IntentStructure + HasSubintentHash;
        spec fn root_spec(&self) -> Self::RootIntentStructure;
        spec fn subs_spec(&self) -> Seq<Self::SubintentStructure>;
        fn root(&self) -> (r: &Self::RootIntentStructure)
            ensures *r == self.root_spec();
        fn non_root_subintents(&self) -> (r: SeqIter<&Self::SubintentStructure>)
            ensures r.rest().len() == self.subs_spec().len(),
                    forall|i: int| 0 <= i < self.subs_spec().len() ==> *(#[trigger] r.rest()[i]) == self.subs_spec()[i];
    }
}

pub mod unit {
    use vstd::prelude::*;
    use super::rt::*;
    use super::env::*;
    use super::maps::*;
    use super::sets::*;
    use super::vec_into_iter_map::*;
    use super::exact_iter::*;

    impl vstd::std_specs::convert::FromSpecImpl<Secp256k1PublicKey> for PublicKey {
        open spec fn obeys_from_spec() -> bool { true }
        open spec fn from_spec(public_key: Secp256k1PublicKey) -> Self { PublicKey::Secp256k1(public_key) }
    }
    impl From<Secp256k1PublicKey> for PublicKey {
        /*@fn radix-common/src/crypto/public_key.rs :: impl From<Secp256k1PublicKey> for PublicKey :: fn from
        @sig
            ensures ret == PublicKey::Secp256k1(public_key)
        @*/
    }
    impl vstd::std_specs::convert::FromSpecImpl<Ed25519PublicKey> for PublicKey {
        open spec fn obeys_from_spec() -> bool { true }
        open spec fn from_spec(public_key: Ed25519PublicKey) -> Self { PublicKey::Ed25519(public_key) }
    }
    impl From<Ed25519PublicKey> for PublicKey {
        /*@fn radix-common/src/crypto/public_key.rs :: impl From<Ed25519PublicKey> for PublicKey :: fn from
        @sig
            ensures ret == PublicKey::Ed25519(public_key)
        @*/
    }

    // ------------------------------------------------------------------------------------------
    // Oracle (relative to the crypto oracle of `env`)
    // ------------------------------------------------------------------------------------------
    /// the detached signature `sig` verifies over `h` under the key `pk` (a key of the other curve never does)
    pub open spec fn sig_valid(h: Hash, pk: PublicKey, sig: SignatureV1) -> bool {
        match (pk, sig) {
            (PublicKey::Secp256k1(k), SignatureV1::Secp256k1(s)) => valid_secp(h, k, s),
            (PublicKey::Ed25519(k), SignatureV1::Ed25519(s)) => valid_ed(h, k, s),
            _ => false,
        }
    }
    /// the key that an intent signature (signature + key, or recoverable signature) verifies as over `h`
    pub open spec fn signer_of(h: Hash, s: SignatureWithPublicKeyV1) -> Option<PublicKey> {
        match s {
            SignatureWithPublicKeyV1::Secp256k1 { signature } => match recovered(h, signature) {
                Some(k) => Some(PublicKey::Secp256k1(k)),
                None => None,
            },
            SignatureWithPublicKeyV1::Ed25519 { public_key, signature } =>
                if valid_ed(h, public_key, signature) { Some(PublicKey::Ed25519(public_key)) } else { None },
        }
    }
    pub open spec fn detached(s: SignatureWithPublicKeyV1) -> SignatureV1 {
        match s {
            SignatureWithPublicKeyV1::Secp256k1 { signature } => SignatureV1::Secp256k1(signature),
            SignatureWithPublicKeyV1::Ed25519 { signature, .. } => SignatureV1::Ed25519(signature),
        }
    }
    /// a key is reported as signer only if the signature verifies under it over that very hash
    pub proof fn lemma_signer_verifies(h: Hash, s: SignatureWithPublicKeyV1)
        ensures signer_of(h, s) matches Some(pk) ==> sig_valid(h, pk, detached(s))
    {
        broadcast use ax_recovered_is_valid;
    }

    /*@fn radix-transactions/src/validation/signature_validator.rs :: fn verify_and_recover
    @sig
        ensures ret == signer_of(*signed_hash, *signature)
    @subst <<.map(Into::into)>> => <<.map(|k: Secp256k1PublicKey| -> (r: PublicKey) ensures r == PublicKey::Secp256k1(k) { k.into() })>> why: Verus does not accept a path to a trait method (`Into::into`) as a function value; the closure is its eta-expansion
    @*/

    /*@fn radix-transactions/src/validation/signature_validator.rs :: fn verify
    @sig
        ensures ret == sig_valid(*signed_hash, *public_key, *signature)
    @*/

    impl TransactionValidationConfigV1 {
        /*@fn radix-transactions/src/validation/transaction_validation_configuration.rs :: impl TransactionValidationConfig :: fn allow_notary_to_duplicate_signer
        @sig
            ensures ret == allow_dup(*self, version)
        @*/
    }
    impl TransactionValidationErrorLocation {
        /*@fn radix-transactions/src/errors.rs :: impl TransactionValidationErrorLocation :: fn for_root
        @sig
            ensures ret == root_location(intent_hash)
        @*/
    }

    /*@item radix-transactions/src/validation/signature_validator.rs :: enum PendingIntentSignatureValidations
    @derive None
    @*/
    /*@item radix-transactions/src/validation/signature_validator.rs :: enum PendingSubintentSignatureValidations
    @derive None
    @*/
    /*@item radix-transactions/src/validation/signature_validator.rs :: struct AllPendingSignatureValidations
    @derive None
    @*/
    /*@item radix-transactions/src/validation/signature_validator.rs :: struct SignatureValidationSummary
    @derive None
    @*/
    pub type Pending<'a> = PendingIntentSignatureValidations<'a>;
    pub type Cfg = TransactionValidationConfigV1;
    pub type SigErr = SignatureValidationError;

    // ------------------------------------------------------------------------------------------
    // Oracle for one intent, from the property statement
    // ------------------------------------------------------------------------------------------
    /// V1 transactions may (by configuration) have the signatory notary also sign the intent; V2 never
    pub open spec fn allow_dup(cfg: Cfg, version: TransactionVersion) -> bool {
        match version { TransactionVersion::V1 => cfg.v1_transactions_allow_notary_to_duplicate_signer, TransactionVersion::V2 => false }
    }
    pub open spec fn root_location(h: IntentHash) -> TransactionValidationErrorLocation {
        match h {
            IntentHash::Transaction(hash) => TransactionValidationErrorLocation::RootTransactionIntent(hash),
            IntentHash::Subintent(hash) => TransactionValidationErrorLocation::RootSubintent(hash),
        }
    }
    /// what each intent signature of `p` verifies as OVER THE HASH OF THE INTENT IT SIGNS (None = does not
    /// verify).  Preview variants carry declared signer keys instead of signatures: nothing to verify.
    pub open spec fn claims(p: Pending) -> Seq<Option<PublicKey>> {
        match p {
            PendingIntentSignatureValidations::TransactionIntent { intent_signatures, signed_hash, .. } =>
                Seq::new(intent_signatures@.len(), |i: int| signer_of(signed_hash.0, intent_signatures@[i].0)),
            PendingIntentSignatureValidations::PreviewTransactionIntent { intent_public_keys, .. } =>
                Seq::new(intent_public_keys@.len(), |i: int| Some(intent_public_keys@[i])),
            PendingIntentSignatureValidations::Subintent { intent_signatures, signed_hash } =>
                Seq::new(intent_signatures@.len(), |i: int| signer_of(signed_hash.0, intent_signatures@[i].0)),
            PendingIntentSignatureValidations::PreviewSubintent { intent_public_keys } =>
                Seq::new(intent_public_keys@.len(), |i: int| Some(intent_public_keys@[i])),
        }
    }
    pub open spec fn all_verify(c: Seq<Option<PublicKey>>) -> bool { forall|i: int| 0 <= i < c.len() ==> (#[trigger] c[i]) is Some }
    /// the first n verified keys, in signature order
    pub open spec fn keys_upto(c: Seq<Option<PublicKey>>, n: int) -> Seq<PublicKey> { Seq::new(n as nat, |i: int| c[i]->Some_0) }
    pub open spec fn keys(c: Seq<Option<PublicKey>>) -> Seq<PublicKey> { keys_upto(c, c.len() as int) }
    /// the notary signature verifies over the SIGNED-INTENT hash (only a real transaction intent has one)
    pub open spec fn notary_sig_ok(p: Pending) -> bool {
        match p {
            PendingIntentSignatureValidations::TransactionIntent { notary_public_key, notary_signature, notarized_hash, .. } =>
                sig_valid(notarized_hash.0, notary_public_key, notary_signature),
            _ => true,
        }
    }
    /// the notary key, when the header declares the notary a signatory
    pub open spec fn notary_signer(p: Pending) -> Option<PublicKey> {
        match p {
            PendingIntentSignatureValidations::TransactionIntent { notary_is_signatory, notary_public_key, .. } =>
                if notary_is_signatory { Some(notary_public_key) } else { None },
            PendingIntentSignatureValidations::PreviewTransactionIntent { notary_is_signatory, notary_public_key, .. } =>
                if notary_is_signatory { Some(notary_public_key) } else { None },
            _ => None,
        }
    }
    pub open spec fn notary_clash(p: Pending, cfg: Cfg, version: TransactionVersion) -> bool {
        notary_signer(p) matches Some(k) && keys(claims(p)).contains(k) && !allow_dup(cfg, version)
    }
    /// C33: the intent's signatures are accepted iff every one verifies, no key signs twice, the notary
    /// signature verifies, and a signatory notary is not also an intent signer (unless V1 config allows it)
    pub open spec fn sigs_ok(p: Pending, cfg: Cfg, version: TransactionVersion) -> bool {
        &&& all_verify(claims(p))
        &&& keys(claims(p)).no_duplicates()
        &&& notary_sig_ok(p)
        &&& !notary_clash(p, cfg, version)
    }
    /// C33: the signer keys handed on: the verified keys in signature order, then the signatory notary (once)
    pub open spec fn signer_seq(p: Pending) -> Seq<PublicKey> {
        match notary_signer(p) {
            Some(k) => if keys(claims(p)).contains(k) { keys(claims(p)) } else { keys(claims(p)).push(k) },
            None => keys(claims(p)),
        }
    }
    /// entry i does not verify, or verifies as a key that an earlier entry already verified as
    pub open spec fn entry_bad(c: Seq<Option<PublicKey>>, i: int) -> bool {
        c[i] is None || exists|j: int| 0 <= j < i && #[trigger] c[j] == c[i]
    }
    pub open spec fn first_bad(c: Seq<Option<PublicKey>>, i: int) -> bool {
        &&& 0 <= i < c.len()
        &&& entry_bad(c, i)
        &&& forall|j: int| 0 <= j < i ==> !#[trigger] entry_bad(c, j)
    }
    /// the documented error: that of the first failing check (signatures in order, then notary signature, then notary clash)
    pub open spec fn sigs_err(p: Pending, cfg: Cfg, version: TransactionVersion, e: SigErr) -> bool {
        let c = claims(p);
        if exists|i: int| first_bad(c, i) {
            exists|i: int| #[trigger] first_bad(c, i) && e == (if c[i] is None { SignatureValidationError::InvalidIntentSignature } else { SignatureValidationError::DuplicateSigner })
        } else if !notary_sig_ok(p) { e == SignatureValidationError::InvalidNotarySignature }
        else { e == SignatureValidationError::NotaryIsSignatorySoShouldNotAlsoBeASigner }
    }
    /// the complete contract of validating one intent's signatures
    pub open spec fn validated_as(p: Pending, cfg: Cfg, version: TransactionVersion, r: Result<IndexSet<PublicKey>, SigErr>) -> bool {
        &&& r is Ok <==> sigs_ok(p, cfg, version)
        &&& r matches Ok(s) ==> s.order() == signer_seq(p)
        &&& r matches Err(e) ==> sigs_err(p, cfg, version, e)
    }

    // ---- lemmas ---------------------------------------------------------------------------------
    pub proof fn lemma_empty_order<T>(s: &IndexSet<T>)
        requires s@ == Set::<T>::empty()
        ensures s.order() == Seq::<T>::empty()
    {
        broadcast use group_sets;
        if s.order().len() > 0 {
            assert(s.order().to_set().contains(s.order()[0]));
        }
        assert(s.order() =~= Seq::<T>::empty());
    }
    /// membership in the set is membership in its iteration order
    pub proof fn lemma_order_contains<T>(s: &IndexSet<T>, k: T)
        ensures s@.contains(k) <==> s.order().contains(k)
    {
        broadcast use group_sets;
        broadcast use vstd::seq_lib::group_seq_properties;
        assert(s.order().to_set().contains(k) <==> s.order().contains(k));
    }
    /// no bad entry among the first n  ==>  they all verify and their keys are pairwise distinct
    pub proof fn lemma_prefix_good(c: Seq<Option<PublicKey>>, n: int)
        requires 0 <= n <= c.len(), forall|j: int| 0 <= j < n ==> !#[trigger] entry_bad(c, j)
        ensures forall|j: int| 0 <= j < n ==> (#[trigger] c[j]) is Some,
                keys_upto(c, n).no_duplicates(),
    {
        assert forall|j: int| 0 <= j < n implies (#[trigger] c[j]) is Some by { assert(!entry_bad(c, j)); }
        assert forall|i: int, j: int| 0 <= i < n && 0 <= j < n && i != j implies keys_upto(c, n)[i] != keys_upto(c, n)[j] by {
            if keys_upto(c, n)[i] == keys_upto(c, n)[j] {
                assert(!entry_bad(c, i)); assert(!entry_bad(c, j));
                assert(c[i] == c[j]);
                if i < j { assert(entry_bad(c, j)); } else { assert(entry_bad(c, i)); }
            }
        }
    }
    /// a bad entry refutes "all verify and no key twice"
    pub proof fn lemma_bad_refutes(c: Seq<Option<PublicKey>>, i: int)
        requires 0 <= i < c.len(), entry_bad(c, i)
        ensures !(all_verify(c) && keys(c).no_duplicates())
    {
        if all_verify(c) {
            let j = choose|j: int| 0 <= j < i && #[trigger] c[j] == c[i];
            assert(keys(c)[j] == keys(c)[i]);
        }
    }
    /// membership in the first n keys, spelled out
    pub proof fn lemma_keys_contains(c: Seq<Option<PublicKey>>, n: int, k: PublicKey)
        requires 0 <= n <= c.len(), forall|j: int| 0 <= j < n ==> (#[trigger] c[j]) is Some
        ensures keys_upto(c, n).contains(k) <==> exists|j: int| 0 <= j < n && #[trigger] c[j] == Some(k)
    {
        if keys_upto(c, n).contains(k) {
            let j = choose|j: int| 0 <= j < n && keys_upto(c, n)[j] == k;
            assert(c[j] == Some(k));
        }
        if exists|j: int| 0 <= j < n && #[trigger] c[j] == Some(k) {
            let j = choose|j: int| 0 <= j < n && #[trigger] c[j] == Some(k);
            assert(keys_upto(c, n)[j] == k);
        }
    }
    pub proof fn lemma_keys_push(c: Seq<Option<PublicKey>>, n: int)
        requires 0 <= n < c.len()
        ensures keys_upto(c, n + 1) == keys_upto(c, n).push(c[n]->Some_0)
    {
        assert(keys_upto(c, n + 1) =~= keys_upto(c, n).push(c[n]->Some_0));
    }


    pub open spec fn prefix_good(c: Seq<Option<PublicKey>>, n: int) -> bool {
        0 <= n <= c.len() && forall|j: int| 0 <= j < n ==> !#[trigger] entry_bad(c, j)
    }
    /// loop exit: signature n does not verify
    pub proof fn lemma_exit_invalid(p: Pending, cfg: Cfg, version: TransactionVersion, n: int)
        requires prefix_good(claims(p), n), n < claims(p).len(), claims(p)[n] is None
        ensures validated_as(p, cfg, version, Err(SignatureValidationError::InvalidIntentSignature))
    {
        let c = claims(p);
        assert(first_bad(c, n));
        lemma_bad_refutes(c, n);
    }
    /// loop exit: signature n verifies as a key already seen
    pub proof fn lemma_exit_dup(p: Pending, cfg: Cfg, version: TransactionVersion, n: int)
        requires prefix_good(claims(p), n), n < claims(p).len(), claims(p)[n] matches Some(k) && keys_upto(claims(p), n).contains(k)
        ensures validated_as(p, cfg, version, Err(SignatureValidationError::DuplicateSigner))
    {
        let c = claims(p);
        lemma_prefix_good(c, n);
        lemma_keys_contains(c, n, c[n]->Some_0);
        assert(entry_bad(c, n));
        assert(first_bad(c, n));
        lemma_bad_refutes(c, n);
    }
    /// loop step: signature n verifies as a new key
    pub proof fn lemma_step_new(c: Seq<Option<PublicKey>>, n: int)
        requires prefix_good(c, n), n < c.len(), c[n] matches Some(k) && !keys_upto(c, n).contains(k)
        ensures prefix_good(c, n + 1), keys_upto(c, n + 1) == keys_upto(c, n).push(c[n]->Some_0)
    {
        lemma_prefix_good(c, n);
        lemma_keys_contains(c, n, c[n]->Some_0);
        lemma_keys_push(c, n);
        assert(!entry_bad(c, n));
    }
    /// after the loop: everything verified, no key twice, and no "first bad" entry exists
    pub proof fn lemma_all_good(c: Seq<Option<PublicKey>>)
        requires prefix_good(c, c.len() as int)
        ensures all_verify(c), keys(c).no_duplicates(), !(exists|i: int| first_bad(c, i))
    {
        lemma_prefix_good(c, c.len() as int);
    }

    impl<'a> PendingIntentSignatureValidations<'a> {
        /*@fn radix-transactions/src/validation/signature_validator.rs :: impl<'a> PendingIntentSignatureValidations<'a> :: fn intent_signature_validations
        @sig
            ensures ret == claims(*self).len()
        @*/
        /*@fn radix-transactions/src/validation/signature_validator.rs :: impl<'a> PendingIntentSignatureValidations<'a> :: fn notary_signature_validations
        @sig
            ensures ret == notary_count(*self)
        @*/
    }
    /// a (real or previewed) transaction intent carries one notary signature validation, a subintent none
    pub open spec fn notary_count(p: Pending) -> nat {
        match p {
            PendingIntentSignatureValidations::TransactionIntent { .. } => 1,
            PendingIntentSignatureValidations::PreviewTransactionIntent { .. } => 1,
            _ => 0,
        }
    }

    impl<'a> AllPendingSignatureValidations<'a> {
        /*@fn radix-transactions/src/validation/signature_validator.rs :: impl<'a> AllPendingSignatureValidations<'a> :: fn validate_signatures
        @sig
            ensures validated_as(signatures, *config, transaction_version, ret)
        @entry
            broadcast use group_sets;
            let ghost c = claims(signatures);
        @before <<for signature in intent_signatures>> #1
            proof { lemma_empty_order(&intent_public_keys); assert(keys_upto(c, 0) =~= Seq::<PublicKey>::empty()); }
        @loop 1 iter it
            invariant
                c == claims(signatures), c.len() == intent_signatures@.len(),
                forall|i: int| 0 <= i < c.len() ==> #[trigger] c[i] == signer_of(signed_hash.0, intent_signatures@[i].0),
                prefix_good(c, it.index@ as int),
                intent_public_keys.order() == keys_upto(c, it.index@ as int),
        @before <<let public_key = verify_and_recover>> #1
            proof { lemma_order_contains(&intent_public_keys, c[it.index@ as int]->Some_0); if c[it.index@ as int] is None { lemma_exit_invalid(signatures, *config, transaction_version, it.index@ as int); } }
        @before <<return Err(SignatureValidationError::DuplicateSigner)>> #1
            proof { lemma_exit_dup(signatures, *config, transaction_version, it.index@ as int); }
        @after <<intent_public_keys.insert(public_key)>> #1
            proof { lemma_step_new(c, it.index@ as int); }
        @before <<&notary_signature>> #1
            proof { lemma_all_good(c); }
        @before <<for key in intent_public_keys>> #1
            proof { lemma_empty_order(&checked_intent_public_keys); assert(keys_upto(c, 0) =~= Seq::<PublicKey>::empty()); }
        @loop 2 iter it
            invariant
                c == claims(signatures), c.len() == intent_public_keys@.len(),
                forall|i: int| 0 <= i < c.len() ==> #[trigger] c[i] == Some(intent_public_keys@[i]),
                prefix_good(c, it.index@ as int),
                checked_intent_public_keys.order() == keys_upto(c, it.index@ as int),
        @before <<return Err(SignatureValidationError::DuplicateSigner)>> #2
            proof { lemma_exit_dup(signatures, *config, transaction_version, it.index@ as int); }
        @before <<checked_intent_public_keys.insert(*key)>> #1
            proof { lemma_order_contains(&checked_intent_public_keys, *key); }
        @after <<checked_intent_public_keys.insert(*key)>> #1
            proof { lemma_step_new(c, it.index@ as int); }
        @before <<checked_intent_public_keys.insert(notary_public_key)>> #1
            proof { lemma_all_good(c); }
        @before <<for signature in intent_signatures>> #2
            proof { lemma_empty_order(&intent_public_keys); assert(keys_upto(c, 0) =~= Seq::<PublicKey>::empty()); }
        @loop 3 iter it
            invariant
                c == claims(signatures), c.len() == intent_signatures@.len(),
                forall|i: int| 0 <= i < c.len() ==> #[trigger] c[i] == signer_of(signed_hash.0, intent_signatures@[i].0),
                prefix_good(c, it.index@ as int),
                intent_public_keys.order() == keys_upto(c, it.index@ as int),
        @before <<let public_key = verify_and_recover>> #2
            proof { lemma_order_contains(&intent_public_keys, c[it.index@ as int]->Some_0); if c[it.index@ as int] is None { lemma_exit_invalid(signatures, *config, transaction_version, it.index@ as int); } }
        @before <<return Err(SignatureValidationError::DuplicateSigner)>> #3
            proof { lemma_exit_dup(signatures, *config, transaction_version, it.index@ as int); }
        @after <<intent_public_keys.insert(public_key)>> #2
            proof { lemma_step_new(c, it.index@ as int); }
        @before <<for key in intent_public_keys>> #2
            proof { lemma_empty_order(&checked_intent_public_keys); assert(keys_upto(c, 0) =~= Seq::<PublicKey>::empty()); }
        @loop 4 iter it
            invariant
                c == claims(signatures), c.len() == intent_public_keys@.len(),
                forall|i: int| 0 <= i < c.len() ==> #[trigger] c[i] == Some(intent_public_keys@[i]),
                prefix_good(c, it.index@ as int),
                checked_intent_public_keys.order() == keys_upto(c, it.index@ as int),
        @before <<return Err(SignatureValidationError::DuplicateSigner)>> #4
            proof { lemma_exit_dup(signatures, *config, transaction_version, it.index@ as int); }
        @before <<checked_intent_public_keys.insert(*key)>> #2
            proof { lemma_order_contains(&checked_intent_public_keys, *key); }
        @after <<checked_intent_public_keys.insert(*key)>> #2
            proof { lemma_step_new(c, it.index@ as int); }
        @before <<Ok(public_keys)>> #1
            proof { lemma_all_good(c); }
        @*/
    }

    // ------------------------------------------------------------------------------------------
    // All intents of a transaction: counting limits and per-intent validation
    // ------------------------------------------------------------------------------------------
    pub type Loc = TransactionValidationErrorLocation;
    pub type AllPending<'a> = AllPendingSignatureValidations<'a>;
    pub open spec fn located(l: Loc, e: SigErr) -> TransactionValidationError { TransactionValidationError::SignatureValidationError(l, e) }
    pub open spec fn too_many(total: usize, limit: usize) -> SigErr { SignatureValidationError::TooManySignatures { total, limit } }
    /// number of intent-signature validations of all non-root subintents (mathematical integer)
    pub open spec fn sum_counts(s: Seq<(Pending, Loc)>) -> int
        decreases s.len()
    {
        if s.len() == 0 { 0 } else { sum_counts(s.drop_last()) + claims(s.last().0).len() }
    }
    /// the TRUE number of signature validations of the transaction: every intent signature + the notary signature
    pub open spec fn true_total(a: AllPending) -> int {
        claims(a.root.0).len() + notary_count(a.root.0) + sum_counts(a.non_roots@)
    }
    /// the stored counter is the true total, and every intent is within the per-intent limit
    pub open spec fn counted(a: AllPending) -> bool {
        &&& a.total_signature_validations == true_total(a)
        &&& claims(a.root.0).len() <= a.config.max_signer_signatures_per_intent
        &&& forall|i: int| 0 <= i < a.non_roots@.len() ==> claims((#[trigger] a.non_roots@[i]).0).len() <= a.config.max_signer_signatures_per_intent
    }
    pub open spec fn for_subintent_spec<'a>(s: PendingSubintentSignatureValidations<'a>, signed_hash: SubintentHash) -> Pending<'a> {
        match s {
            PendingSubintentSignatureValidations::Subintent { intent_signatures } => PendingIntentSignatureValidations::Subintent { intent_signatures, signed_hash },
            PendingSubintentSignatureValidations::PreviewSubintent { intent_public_keys } => PendingIntentSignatureValidations::PreviewSubintent { intent_public_keys },
        }
    }
    /// one intent validated, the error tagged with the intent's location
    pub open spec fn located_as(nr: (Pending, Loc), cfg: Cfg, version: TransactionVersion, r: Result<IndexSet<PublicKey>, TransactionValidationError>) -> bool {
        &&& r is Ok <==> sigs_ok(nr.0, cfg, version)
        &&& r matches Ok(s) ==> s.order() == signer_seq(nr.0)
        &&& r matches Err(e) ==> exists|se: SigErr| #[trigger] sigs_err(nr.0, cfg, version, se) && e == located(nr.1, se)
    }
    pub open spec fn all_ok(a: AllPending) -> bool {
        &&& a.total_signature_validations <= a.config.max_total_signature_validations
        &&& sigs_ok(a.root.0, *a.config, a.transaction_version)
        &&& forall|i: int| 0 <= i < a.non_roots@.len() ==> sigs_ok((#[trigger] a.non_roots@[i]).0, *a.config, a.transaction_version)
    }
    /// the documented error: total count first, then the root intent, then the first failing subintent (in order)
    pub open spec fn all_err(a: AllPending, e: TransactionValidationError) -> bool {
        let cfg = *a.config; let v = a.transaction_version;
        if a.total_signature_validations > cfg.max_total_signature_validations {
            e == located(TransactionValidationErrorLocation::AcrossTransaction, too_many(a.total_signature_validations, cfg.max_total_signature_validations))
        } else if !sigs_ok(a.root.0, cfg, v) {
            exists|se: SigErr| #[trigger] sigs_err(a.root.0, cfg, v, se) && e == located(a.root.1, se)
        } else {
            exists|j: int, se: SigErr| 0 <= j < a.non_roots@.len()
                && (forall|i: int| 0 <= i < j ==> sigs_ok((#[trigger] a.non_roots@[i]).0, cfg, v))
                && !sigs_ok(a.non_roots@[j].0, cfg, v)
                && #[trigger] sigs_err(a.non_roots@[j].0, cfg, v, se) && e == located(a.non_roots@[j].1, se)
        }
    }
    pub open spec fn summary_of(a: AllPending, s: SignatureValidationSummary) -> bool {
        &&& s.root_signer_keys.order() == signer_seq(a.root.0)
        &&& s.non_root_signer_keys@.len() == a.non_roots@.len()
        &&& forall|i: int| 0 <= i < a.non_roots@.len() ==> (#[trigger] s.non_root_signer_keys@[i]).order() == signer_seq(a.non_roots@[i].0)
        &&& s.total_signature_validations == a.total_signature_validations
    }

    impl<'a> PendingSubintentSignatureValidations<'a> {
        /*@fn radix-transactions/src/validation/signature_validator.rs :: impl<'a> PendingSubintentSignatureValidations<'a> :: fn for_subintent
        @sig
            ensures ret == for_subintent_spec(self, signed_hash)
        @*/
    }

    impl<'a> AllPendingSignatureValidations<'a> {
        /*@fn radix-transactions/src/validation/signature_validator.rs :: impl<'a> AllPendingSignatureValidations<'a> :: fn new_with_root
        @sig
            requires claims(signatures).len() + notary_count(signatures) <= usize::MAX
            ensures
                ret is Ok <==> claims(signatures).len() <= config.max_signer_signatures_per_intent,
                ret matches Ok(a) ==> a.transaction_version == transaction_version && *a.config == *config
                    && a.root == (signatures, root_location(root_intent_hash)) && a.non_roots@ == Seq::<(Pending, Loc)>::empty() && counted(a),
                ret matches Err(e) ==> e == located(root_location(root_intent_hash), too_many(claims(signatures).len() as usize, config.max_signer_signatures_per_intent)),
        @*/

        /*@fn radix-transactions/src/validation/signature_validator.rs :: impl<'a> AllPendingSignatureValidations<'a> :: fn add_non_root
        @sig
            requires old(self).total_signature_validations + claims(signatures).len() <= usize::MAX
            ensures
                ret is Ok <==> claims(signatures).len() <= old(self).config.max_signer_signatures_per_intent,
                ret is Ok ==> final(self).non_roots@ == old(self).non_roots@.push((signatures, TransactionValidationErrorLocation::NonRootSubintent(subintent_index, subintent_hash)))
                    && final(self).total_signature_validations == old(self).total_signature_validations + claims(signatures).len()
                    && final(self).root == old(self).root && final(self).config == old(self).config && final(self).transaction_version == old(self).transaction_version
                    && (counted(*old(self)) ==> counted(*final(self))),
                ret matches Err(e) ==> *final(self) == *old(self)
                    && e == located(TransactionValidationErrorLocation::NonRootSubintent(subintent_index, subintent_hash), too_many(claims(signatures).len() as usize, old(self).config.max_signer_signatures_per_intent)),
        @before <<Ok(())>> #1
            proof {
                let s0 = old(self).non_roots@; let s1 = self.non_roots@;
                assert(s1.drop_last() =~= s0);
                assert(s1.last().0 == signatures);
                assert forall|i: int| 0 <= i < s1.len() && counted(*old(self)) implies claims((#[trigger] s1[i]).0).len() <= self.config.max_signer_signatures_per_intent by {
                    if i < s0.len() { assert(s1[i] == s0[i]); }
                }
            }
        @*/

        /*@fn radix-transactions/src/validation/signature_validator.rs :: impl<'a> AllPendingSignatureValidations<'a> :: fn validate_all
        @sig
            ensures
                ret is Ok <==> all_ok(self),
                ret matches Ok(s) ==> summary_of(self, s),
                ret matches Err(e) ==> all_err(self, e),
        @closure 1 := |err: SignatureValidationError| -> (r: TransactionValidationError) ensures r == located(self.root.1, err)
        @closure 2 := |non_root: (PendingIntentSignatureValidations<'a>, TransactionValidationErrorLocation)| -> (r: Result<IndexSet<PublicKey>, TransactionValidationError>) ensures located_as(non_root, *config, transaction_version, r)
        @closure 3 := |err: SignatureValidationError| -> (r: TransactionValidationError) ensures r == located(non_root.1, err)
        @subst <<.non_roots .into_iter()>> => <<.non_roots .into_iter_shim()>> why: Verus has no iterator adapters and cannot chain them on alloc::vec::IntoIter; into_iter_shim (shims/vec_into_iter_map_c33.rs) is `<Vec<T> as IntoIterator>::into_iter` (the elements in order) as the head of the chain; `.map(closure).collect::<Result<_, _>>()?` stays verbatim against the model in that shim
        @*/
    }

    // ------------------------------------------------------------------------------------------
    // What the contracts add up to (the property statement, relative to the crypto oracle)
    // ------------------------------------------------------------------------------------------
    /// every key reported for a signature-carrying intent verifies the (detached) signature at the same
    /// position over THAT intent's hash
    pub proof fn lemma_intent_signatures_verify(p: Pending, i: int)
        requires 0 <= i < claims(p).len(), claims(p)[i] is Some
        ensures
            p matches PendingIntentSignatureValidations::TransactionIntent { intent_signatures, signed_hash, .. } ==>
                sig_valid(signed_hash.0, claims(p)[i]->Some_0, detached(intent_signatures@[i].0)),
            p matches PendingIntentSignatureValidations::Subintent { intent_signatures, signed_hash } ==>
                sig_valid(signed_hash.0, claims(p)[i]->Some_0, detached(intent_signatures@[i].0)),
    {
        match p {
            PendingIntentSignatureValidations::TransactionIntent { intent_signatures, signed_hash, .. } => { lemma_signer_verifies(signed_hash.0, intent_signatures@[i].0); }
            PendingIntentSignatureValidations::Subintent { intent_signatures, signed_hash } => { lemma_signer_verifies(signed_hash.0, intent_signatures@[i].0); }
            _ => {}
        }
    }
    /// C33 for one accepted intent: all signatures verify, the notary signature verifies over the signed-intent
    /// hash, and the signer keys handed on are duplicate-free and are EXACTLY the keys some signature verified as,
    /// plus the notary key iff the notary is declared a signatory
    pub proof fn lemma_signer_set(p: Pending, cfg: Cfg, version: TransactionVersion)
        requires sigs_ok(p, cfg, version)
        ensures
            all_verify(claims(p)),
            notary_sig_ok(p),
            signer_seq(p).no_duplicates(),
            forall|k: PublicKey| #[trigger] signer_seq(p).contains(k) <==>
                ((exists|i: int| 0 <= i < claims(p).len() && #[trigger] claims(p)[i] == Some(k)) || notary_signer(p) == Some(k)),
    {
        let c = claims(p); let ks = keys(c); let out = signer_seq(p);
        assert forall|k: PublicKey| #[trigger] out.contains(k) <==>
            ((exists|i: int| 0 <= i < c.len() && #[trigger] c[i] == Some(k)) || notary_signer(p) == Some(k)) by {
            lemma_keys_contains(c, c.len() as int, k);
            match notary_signer(p) {
                Some(n) => {
                    lemma_keys_contains(c, c.len() as int, n);
                    if !ks.contains(n) {
                        assert(out == ks.push(n));
                        if out.contains(k) {
                            let j = choose|j: int| 0 <= j < out.len() && out[j] == k;
                            if j < ks.len() { assert(ks[j] == k); }
                        }
                        if ks.contains(k) {
                            let j = choose|j: int| 0 <= j < ks.len() && ks[j] == k;
                            assert(out[j] == k);
                        }
                        if k == n { assert(out[ks.len() as int] == k); }
                    }
                }
                None => {}
            }
        }
        match notary_signer(p) {
            Some(n) => {
                if !ks.contains(n) {
                    assert forall|i: int, j: int| 0 <= i < out.len() && 0 <= j < out.len() && i != j implies out[i] != out[j] by {
                        if i < ks.len() && j < ks.len() { assert(ks[i] != ks[j]); }
                        else if i < ks.len() { assert(ks[i] == out[i]); }
                        else { assert(ks[j] == out[j]); }
                    }
                }
            }
            None => {}
        }
    }
    pub proof fn lemma_sum_counts_nonneg(s: Seq<(Pending, Loc)>)
        ensures sum_counts(s) >= 0
        decreases s.len()
    {
        if s.len() > 0 { lemma_sum_counts_nonneg(s.drop_last()); }
    }
    /// counting limits, exact: a transaction built through new_with_root / add_non_root is accepted by
    /// validate_all only if its TRUE total number of signature validations (intent signatures of every intent
    /// + 1 for the notary) is within max_total_signature_validations, and each intent is within the per-intent limit
    pub proof fn lemma_limits(a: AllPending)
        requires counted(a), all_ok(a)
        ensures true_total(a) <= a.config.max_total_signature_validations,
                claims(a.root.0).len() <= a.config.max_signer_signatures_per_intent,
                forall|i: int| 0 <= i < a.non_roots@.len() ==> claims((#[trigger] a.non_roots@[i]).0).len() <= a.config.max_signer_signatures_per_intent,
    {}
    /// ... and conversely is rejected with TooManySignatures{total, limit} across the transaction as soon as the
    /// true total exceeds the limit by one
    pub proof fn lemma_limits_reject(a: AllPending, e: TransactionValidationError)
        requires counted(a), true_total(a) > a.config.max_total_signature_validations, all_err(a, e)
        ensures e == located(TransactionValidationErrorLocation::AcrossTransaction, too_many(true_total(a) as usize, a.config.max_total_signature_validations))
    {}

    // ------------------------------------------------------------------------------------------
    // Pairing every subintent's signature batch with THAT subintent's hash
    // ------------------------------------------------------------------------------------------
    impl SignatureValidationError {
        /*@fn radix-transactions/src/errors.rs :: impl SignatureValidationError :: fn located
        @sig
            ensures ret == located(location, self)
        @*/
    }
    /// the pending validations of non-root subintent i: its signature batch, to be verified over ITS hash
    pub open spec fn non_root_entry<'a>(batch: PendingSubintentSignatureValidations<'a>, h: SubintentHash, i: int) -> (Pending<'a>, Loc) {
        (for_subintent_spec(batch, h), TransactionValidationErrorLocation::NonRootSubintent(SubintentIndex(i as usize), h))
    }

    pub type Batches<'a> = Seq<PendingSubintentSignatureValidations<'a>>;
    /// the hashes of the non-root subintents of the intent tree, in order
    pub open spec fn sub_hashes<T: IntentTreeStructure>(t: T) -> Seq<SubintentHash> {
        Seq::new(t.subs_spec().len(), |i: int| t.subs_spec()[i].subintent_hash_spec())
    }
    pub open spec fn root_loc_of<T: IntentTreeStructure>(t: T) -> Loc { root_location(t.root_spec().intent_hash_spec()) }
    pub open spec fn entry<'a>(bs: Batches<'a>, hs: Seq<SubintentHash>, i: int) -> (Pending<'a>, Loc) { non_root_entry(bs[i], hs[i], i) }
    pub open spec fn entries_upto<'a>(bs: Batches<'a>, hs: Seq<SubintentHash>, n: int) -> Seq<(Pending<'a>, Loc)> {
        Seq::new(n as nat, |i: int| entry(bs, hs, i))
    }
    /// the documented error: root intent over the per-intent limit, then batch-count mismatch, then the first
    /// subintent (in order) over the per-intent limit
    pub open spec fn construct_err(root: Pending, root_loc: Loc, bs: Batches, hs: Seq<SubintentHash>, cfg: Cfg, e: TransactionValidationError) -> bool {
        let n = bs.len() as int; let max = cfg.max_signer_signatures_per_intent;
        if claims(root).len() > max { e == located(root_loc, too_many(claims(root).len() as usize, max)) }
        else if hs.len() != n { e == located(TransactionValidationErrorLocation::AcrossTransaction, SignatureValidationError::IncorrectNumberOfSubintentSignatureBatches) }
        else {
            exists|j: int| 0 <= j < n && (forall|i: int| 0 <= i < j ==> claims((#[trigger] entry(bs, hs, i)).0).len() <= max)
                && claims((#[trigger] entry(bs, hs, j)).0).len() > max
                && e == located(entry(bs, hs, j).1, too_many(claims(entry(bs, hs, j).0).len() as usize, max))
        }
    }
    pub proof fn lemma_entries_step(bs: Batches, hs: Seq<SubintentHash>, n: int)
        requires 0 <= n
        ensures entries_upto(bs, hs, n + 1) == entries_upto(bs, hs, n).push(entry(bs, hs, n)),
                sum_counts(entries_upto(bs, hs, n + 1)) == sum_counts(entries_upto(bs, hs, n)) + claims(entry(bs, hs, n).0).len(),
    {
        assert(entries_upto(bs, hs, n + 1) =~= entries_upto(bs, hs, n).push(entry(bs, hs, n)));
        assert(entries_upto(bs, hs, n + 1).drop_last() =~= entries_upto(bs, hs, n));
    }
    pub proof fn lemma_entries_mono(bs: Batches, hs: Seq<SubintentHash>, n: int, m: int)
        requires 0 <= n <= m
        ensures 0 <= sum_counts(entries_upto(bs, hs, n)) <= sum_counts(entries_upto(bs, hs, m))
        decreases m - n
    {
        lemma_sum_counts_nonneg(entries_upto(bs, hs, n));
        if n < m { lemma_entries_step(bs, hs, n); lemma_entries_mono(bs, hs, n + 1, m); }
    }

    pub trait SignedIntentTreeStructure {
        type IntentTree: IntentTreeStructure;
        // the four required methods: ASSUMED pure observations of `self` (see env); `impl ExactSizeIterator<Item = ..>` => SeqIter<..>
        spec fn root_signatures_spec<'a>(&'a self) -> PendingIntentSignatureValidations<'a>;
        spec fn batches_spec<'a>(&'a self) -> Seq<PendingSubintentSignatureValidations<'a>>;
        spec fn intent_tree_spec(&self) -> Self::IntentTree;
        spec fn version_spec(&self) -> TransactionVersion;
        fn root_signatures(&self) -> (r: PendingIntentSignatureValidations<'_>)
            ensures r == self.root_signatures_spec();
        fn non_root_subintent_signatures(&self) -> (r: SeqIter<PendingSubintentSignatureValidations<'_>>)
            ensures r.rest() == self.batches_spec();
        fn intent_tree(&self) -> (r: &Self::IntentTree)
            ensures *r == self.intent_tree_spec();
        fn transaction_version(&self) -> (r: TransactionVersion)
            ensures r == self.version_spec();

        /*@fn radix-transactions/src/validation/signature_validator.rs :: trait SignedIntentTreeStructure :: fn construct_pending_signature_validations
        @sig
            requires
                claims(self.root_signatures_spec()).len() + notary_count(self.root_signatures_spec())
                    + sum_counts(entries_upto(self.batches_spec(), sub_hashes(self.intent_tree_spec()), self.batches_spec().len() as int)) <= usize::MAX,
            ensures
                ret is Ok <==> claims(self.root_signatures_spec()).len() <= config.max_signer_signatures_per_intent
                    && self.intent_tree_spec().subs_spec().len() == self.batches_spec().len()
                    && forall|i: int| 0 <= i < self.batches_spec().len() ==>
                        claims((#[trigger] entry(self.batches_spec(), sub_hashes(self.intent_tree_spec()), i)).0).len() <= config.max_signer_signatures_per_intent,
                ret matches Ok(a) ==> a.transaction_version == self.version_spec() && *a.config == *config
                    && a.root == (self.root_signatures_spec(), root_loc_of(self.intent_tree_spec()))
                    && a.non_roots@ == entries_upto(self.batches_spec(), sub_hashes(self.intent_tree_spec()), self.batches_spec().len() as int)
                    && counted(a),
                ret matches Err(e) ==> construct_err(self.root_signatures_spec(), root_loc_of(self.intent_tree_spec()), self.batches_spec(), sub_hashes(self.intent_tree_spec()), *config, e),
        @entry
            let ghost bs = self.batches_spec();
            let ghost hs = sub_hashes(self.intent_tree_spec());
            let ghost root = self.root_signatures_spec();
            let ghost n = bs.len() as int;
            proof { lemma_entries_mono(bs, hs, 0, n); assert(entries_upto(bs, hs, 0) =~= Seq::<(Pending, Loc)>::empty()); }
        @loop 1 iter it
            invariant
                bs == self.batches_spec(), hs == sub_hashes(self.intent_tree_spec()), root == self.root_signatures_spec(),
                n == bs.len(), n == hs.len(),
                0 <= it.index@ <= n,
                it.snapshot@.rest().len() == n,
                forall|i: int| 0 <= i < n ==> (#[trigger] it.snapshot@.rest()[i]).0 == i
                    && *it.snapshot@.rest()[i].1.0 == self.intent_tree_spec().subs_spec()[i] && it.snapshot@.rest()[i].1.1 == bs[i],
                claims(root).len() + notary_count(root) + sum_counts(entries_upto(bs, hs, n)) <= usize::MAX,
                pending_signatures.transaction_version == self.version_spec(), *pending_signatures.config == *config,
                pending_signatures.root == (root, root_loc_of(self.intent_tree_spec())),
                pending_signatures.non_roots@ == entries_upto(bs, hs, it.index@ as int),
                counted(pending_signatures),
                forall|i: int| 0 <= i < it.index@ ==> claims((#[trigger] entry(bs, hs, i)).0).len() <= config.max_signer_signatures_per_intent,
        @before <<pending_signatures.add_non_root(>> #1
            proof { lemma_entries_step(bs, hs, it.index@ as int); lemma_entries_mono(bs, hs, it.index@ as int + 1, n); }
        @*/
    }

    // ------------------------------------------------------------------------------------------
    // C33 end to end (relative to the crypto oracle): what an accepted transaction guarantees
    // ------------------------------------------------------------------------------------------
    /// Root transaction intent: validate_all returned Ok(s)  ==>  the notary signature verifies over the
    /// SIGNED-INTENT hash, every intent signature verifies over the TRANSACTION-INTENT hash, and the root signer
    /// set is exactly {keys some intent signature verified as} + {notary key iff notary_is_signatory}; its
    /// iteration order has no duplicates.
    pub proof fn lemma_c33_root(a: AllPending, s: SignatureValidationSummary, k: PublicKey)
        requires all_ok(a), summary_of(a, s),
                 a.root.0 is TransactionIntent,
        ensures
            a.root.0 matches PendingIntentSignatureValidations::TransactionIntent { notary_is_signatory, notary_public_key, notary_signature, notarized_hash, intent_signatures, signed_hash } ==> {
                &&& sig_valid(notarized_hash.0, notary_public_key, notary_signature)
                &&& forall|i: int| 0 <= i < intent_signatures@.len() ==> ((#[trigger] signer_of(signed_hash.0, intent_signatures@[i].0)) matches Some(pk)
                        && sig_valid(signed_hash.0, pk, detached(intent_signatures@[i].0)))
                &&& s.root_signer_keys@.contains(k) <==>
                        ((exists|i: int| 0 <= i < intent_signatures@.len() && #[trigger] signer_of(signed_hash.0, intent_signatures@[i].0) == Some(k))
                         || (notary_is_signatory && k == notary_public_key))
                &&& s.root_signer_keys.order().no_duplicates()
            },
    {
        let p = a.root.0; let c = claims(p);
        lemma_signer_set(p, *a.config, a.transaction_version);
        lemma_order_contains(&s.root_signer_keys, k);
        assert(signer_seq(p).contains(k) <==> ((exists|i: int| 0 <= i < c.len() && #[trigger] c[i] == Some(k)) || notary_signer(p) == Some(k)));
        match p {
            PendingIntentSignatureValidations::TransactionIntent { notary_is_signatory, notary_public_key, notary_signature, notarized_hash, intent_signatures, signed_hash } => {
                assert forall|i: int| 0 <= i < intent_signatures@.len() implies ((#[trigger] signer_of(signed_hash.0, intent_signatures@[i].0)) matches Some(pk)
                        && sig_valid(signed_hash.0, pk, detached(intent_signatures@[i].0))) by {
                    assert(c[i] is Some);
                    lemma_intent_signatures_verify(p, i);
                }
                if exists|i: int| 0 <= i < c.len() && #[trigger] c[i] == Some(k) {
                    let i = choose|i: int| 0 <= i < c.len() && #[trigger] c[i] == Some(k);
                    assert(signer_of(signed_hash.0, intent_signatures@[i].0) == Some(k));
                }
                if exists|i: int| 0 <= i < intent_signatures@.len() && #[trigger] signer_of(signed_hash.0, intent_signatures@[i].0) == Some(k) {
                    let i = choose|i: int| 0 <= i < intent_signatures@.len() && #[trigger] signer_of(signed_hash.0, intent_signatures@[i].0) == Some(k);
                    assert(c[i] == Some(k));
                }
            }
            _ => {}
        }
    }
    /// Non-root subintent i of a transaction assembled by construct_pending_signature_validations (batches `bs`,
    /// subintent hashes `hs`): validate_all returned Ok(s)  ==>  every signature of batch i verifies over the hash
    /// of subintent i (not of any other intent), and signer set i is exactly the keys they verified as.
    pub proof fn lemma_c33_subintent(a: AllPending, bs: Batches, hs: Seq<SubintentHash>, s: SignatureValidationSummary, i: int, k: PublicKey)
        requires all_ok(a), summary_of(a, s),
                 a.non_roots@ == entries_upto(bs, hs, bs.len() as int), 0 <= i < bs.len(),
        ensures
            bs[i] matches PendingSubintentSignatureValidations::Subintent { intent_signatures } ==> {
                &&& forall|j: int| 0 <= j < intent_signatures@.len() ==> ((#[trigger] signer_of(hs[i].0, intent_signatures@[j].0)) matches Some(pk)
                        && sig_valid(hs[i].0, pk, detached(intent_signatures@[j].0)))
                &&& s.non_root_signer_keys@[i]@.contains(k) <==>
                        (exists|j: int| 0 <= j < intent_signatures@.len() && #[trigger] signer_of(hs[i].0, intent_signatures@[j].0) == Some(k))
                &&& s.non_root_signer_keys@[i].order().no_duplicates()
            },
    {
        assert(a.non_roots@[i] == entry(bs, hs, i));
        let p = a.non_roots@[i].0; let c = claims(p);
        assert(sigs_ok(p, *a.config, a.transaction_version));
        lemma_signer_set(p, *a.config, a.transaction_version);
        lemma_order_contains(&s.non_root_signer_keys@[i], k);
        assert(s.non_root_signer_keys@[i].order() == signer_seq(p));
        assert(signer_seq(p).contains(k) <==> ((exists|j: int| 0 <= j < c.len() && #[trigger] c[j] == Some(k)) || notary_signer(p) == Some(k)));
        match bs[i] {
            PendingSubintentSignatureValidations::Subintent { intent_signatures } => {
                assert(p == PendingIntentSignatureValidations::Subintent { intent_signatures, signed_hash: hs[i] });
                assert forall|j: int| 0 <= j < intent_signatures@.len() implies ((#[trigger] signer_of(hs[i].0, intent_signatures@[j].0)) matches Some(pk)
                        && sig_valid(hs[i].0, pk, detached(intent_signatures@[j].0))) by {
                    assert(c[j] is Some);
                    lemma_intent_signatures_verify(p, j);
                }
                if exists|j: int| 0 <= j < c.len() && #[trigger] c[j] == Some(k) {
                    let j = choose|j: int| 0 <= j < c.len() && #[trigger] c[j] == Some(k);
                    assert(signer_of(hs[i].0, intent_signatures@[j].0) == Some(k));
                }
                if exists|j: int| 0 <= j < intent_signatures@.len() && #[trigger] signer_of(hs[i].0, intent_signatures@[j].0) == Some(k) {
                    let j = choose|j: int| 0 <= j < intent_signatures@.len() && #[trigger] signer_of(hs[i].0, intent_signatures@[j].0) == Some(k);
                    assert(c[j] == Some(k));
                }
            }
            _ => {}
        }
    }
}
} // verus!
fn main() {}
