// Unit c31_lexer -- property C31 "The manifest compiler never crashes", FIRST STAGE ONLY (the lexer).
use vstd::prelude::*;
verus! {
/*@include shims/rt.rs @*/
/*@include shims/char_c31.rs @*/

pub mod env {
    use vstd::prelude::*;
    /// stands for `format!("'{}{}' - {}", int, ty, err)` in `Lexer::parse_int` (core::fmt): total, result unconstrained
    #[verifier::external_body]
    pub fn fmt_invalid_integer<E: core::fmt::Display>(int_text: &str, ty: &str, err: E) -> String {
        format!("'{}{}' - {}", int_text, ty, err)
    }
}

pub mod unit {
    // This outer module deliberately does NOT import `vstd::prelude::*`: `Lexer::parse_int` has a parameter named `int`,
    // which the prelude's ghost type `int` would capture (a unit-struct pattern instead of a binding). Everything else
    // lives in the child module `lexer` (a child sees the private `parse_int`, as the real callers in the same module do).
    use self::lexer::{Lexer, LexerError, LexerErrorKind, Span, Position, Token};
    use super::env::fmt_invalid_integer;
    use core::str::FromStr;
    use core::fmt::Display;
    use vstd::pervasive::FnWithRequiresEnsures;
    impl Lexer {
        /*@fn radix-transactions/src/manifest/lexer.rs :: impl Lexer :: fn parse_int
        @subst <<map: fn(T) -> Token>> => <<map: impl Fn(T) -> Token>> why: Verus has no function-pointer types; `impl Fn(T) -> Token` accepts the same arguments (the ten call sites pass a tuple-variant constructor) and is called the same way by `Result::map`
        @subst <<format!("'{}{}' - {}", int, ty, err)>> => <<fmt_invalid_integer(int, ty, err)>> why: Verus has no `format!` / core::fmt; env::fmt_invalid_integer is the same formatting call as one opaque total function of the same three arguments
        @sig
            requires forall|t: T| map.requires((t,))
            ensures ret matches Err(e) ==> e.span == (Span { start: token_start, end: self.current })
        @closure 1 := |err: <T as FromStr>::Err| -> (r: LexerError) ensures r.span == (Span { start: token_start, end: self.current })
        @*/
    }

pub mod lexer {
    use vstd::prelude::*;
    use super::super::rt::*;
    use super::super::char_c31::*;

    /*@item radix-transactions/src/manifest/token.rs :: struct Span
    @derive Clone, Copy, PartialEq, Eq
    @*/
    /*@item radix-transactions/src/manifest/token.rs :: struct Position
    @derive Clone, Copy, PartialEq, Eq
    @*/
    /*@item radix-transactions/src/manifest/token.rs :: enum Token
    @derive
    @*/
    /*@item radix-transactions/src/manifest/token.rs :: struct TokenWithSpan
    @derive
    @*/
    /*@item radix-transactions/src/manifest/lexer.rs :: enum ExpectedChar
    @derive
    @*/
    /*@item radix-transactions/src/manifest/lexer.rs :: enum LexerErrorKind
    @derive
    @*/
    /*@item radix-transactions/src/manifest/lexer.rs :: struct LexerError
    @derive
    @*/
    /*@item radix-transactions/src/manifest/lexer.rs :: struct Lexer
    @derive
    @*/

    // ORACLE (token.rs field docs)
    pub open spec fn newlines(text: Seq<char>, i: int) -> int
        decreases i
    {
        if i <= 0 { 0 } else { newlines(text, i - 1) + if text[i - 1] == '\n' { 1int } else { 0int } }
    }
    pub open spec fn line_start(text: Seq<char>, i: int) -> int
        decreases i
    {
        if i <= 0 { 0 } else if text[i - 1] == '\n' { i } else { line_start(text, i - 1) }
    }
    pub open spec fn pos_at(text: Seq<char>, i: int) -> Position {
        Position { full_index: i as usize, line_idx: newlines(text, i) as usize, line_char_index: (i - line_start(text, i)) as usize }
    }
    pub proof fn lemma_pos_bounds(text: Seq<char>, i: int)
        requires 0 <= i
        ensures 0 <= newlines(text, i) <= i, 0 <= line_start(text, i) <= i
        decreases i
    {
        if i > 0 { lemma_pos_bounds(text, i - 1); }
    }
    pub open spec fn step(p: Position, c: char) -> Position {
        if c == '\n' {
            Position { full_index: (p.full_index + 1) as usize, line_idx: (p.line_idx + 1) as usize, line_char_index: 0 }
        } else {
            Position { full_index: (p.full_index + 1) as usize, line_idx: p.line_idx, line_char_index: (p.line_char_index + 1) as usize }
        }
    }
    pub proof fn lemma_step(text: Seq<char>, i: int)
        requires 0 <= i < text.len(), text.len() <= usize::MAX
        ensures step(pos_at(text, i), text[i]) == pos_at(text, i + 1)
    {
        lemma_pos_bounds(text, i);
        lemma_pos_bounds(text, i + 1);
    }
    pub open spec fn wf(l: Lexer) -> bool {
        l.current.full_index <= l.text@.len() && l.current == pos_at(l.text@, l.current.full_index as int)
    }
    pub open spec fn span_ok(text: Seq<char>, sp: Span) -> bool {
        &&& sp.start.full_index <= sp.end.full_index <= text.len()
        &&& sp.start == pos_at(text, sp.start.full_index as int)
        &&& sp.end == pos_at(text, sp.end.full_index as int)
    }

    /// ORACLE (lexer.rs `is_whitespace`, manifest grammar): blank characters skipped between tokens
    pub open spec fn is_ws(c: char) -> bool { c == ' ' || c == '\t' || c == '\r' || c == '\n' }

    /// every position of a well-formed lexer is below usize::MAX in all three fields unless at the very end
    pub proof fn lemma_bounds(l: Lexer)
        requires wf(l)
        ensures l.text@.len() <= usize::MAX, l.current.line_idx <= l.current.full_index, l.current.line_char_index <= l.current.full_index
    {
        assert(l.text@.len() == l.text.len());
        lemma_pos_bounds(l.text@, l.current.full_index as int);
    }
    /// common contract of the four `tokenize_*` functions: the token spans exactly the consumed characters (non-empty),
    /// an error carries a span inside the text, the text is never modified
    pub open spec fn tok_post(pre: Lexer, post: Lexer, ret: Result<TokenWithSpan, LexerError>) -> bool {
        &&& wf(post) && post.text == pre.text
        &&& ret matches Ok(t) ==> t.span == (Span { start: pre.current, end: post.current }) && post.current.full_index > pre.current.full_index
        &&& ret matches Err(e) ==> span_ok(pre.text@, e.span)
    }

    /// ORACLE ("skip comment and whitespace"; a comment runs from '#' to the end of the line or of the text): the index
    /// of the first character at or after `i` that is neither blank nor inside a comment (the text length if none)
    pub open spec fn skip(text: Seq<char>, i: int, in_comment: bool) -> int
        decreases text.len() - i
    {
        if i < 0 || i >= text.len() { text.len() as int }
        else if in_comment { skip(text, i + 1, text[i] != '\n') }
        else if text[i] == '#' { skip(text, i + 1, true) }
        else if is_ws(text[i]) { skip(text, i + 1, false) }
        else { i }
    }
    pub proof fn lemma_skip_ge(text: Seq<char>, i: int, in_comment: bool)
        requires 0 <= i <= text.len()
        ensures i <= skip(text, i, in_comment) <= text.len()
        decreases text.len() - i
    {
        if i < text.len() {
            if in_comment { lemma_skip_ge(text, i + 1, text[i] != '\n'); }
            else if text[i] == '#' { lemma_skip_ge(text, i + 1, true); }
            else if is_ws(text[i]) { lemma_skip_ge(text, i + 1, false); }
        }
    }
    /// end of the token before the k-th one (0 for the first)
    pub open spec fn prev_end(toks: Seq<TokenWithSpan>, k: int) -> int {
        if k <= 0 { 0 } else { toks[k - 1].span.end.full_index as int }
    }
    /// ORACLE for the token stream of the first `toks.len()` tokens when the lexer stands at `at`:
    /// every token has a non-empty span inside the text with exact line/column bookkeeping, it starts exactly where the
    /// blanks/comments after the previous token end, and `at` is the end of the last one
    pub open spec fn prefix_cover(text: Seq<char>, toks: Seq<TokenWithSpan>, at: int) -> bool {
        &&& forall|k: int| 0 <= k < toks.len() ==> span_ok(text, #[trigger] toks[k].span)
                && toks[k].span.start.full_index < toks[k].span.end.full_index
                && toks[k].span.start.full_index == skip(text, prev_end(toks, k), false)
        &&& at == prev_end(toks, toks.len() as int)
    }
    /// ... and for a COMPLETE token stream: after the last token only blanks/comments remain (the whole input is consumed)
    pub open spec fn tokens_cover(text: Seq<char>, toks: Seq<TokenWithSpan>) -> bool {
        &&& prefix_cover(text, toks, prev_end(toks, toks.len() as int))
        &&& skip(text, prev_end(toks, toks.len() as int), false) == text.len()
    }
    /// corollary: spans are increasing and non-overlapping
    pub proof fn lemma_cover_increasing(text: Seq<char>, toks: Seq<TokenWithSpan>, k: int)
        requires tokens_cover(text, toks), 0 <= k < toks.len() - 1
        ensures toks[k].span.end.full_index <= toks[k + 1].span.start.full_index
    {
        assert(span_ok(text, toks[k].span));
        assert(span_ok(text, toks[k + 1].span));
        lemma_skip_ge(text, toks[k].span.end.full_index as int, false);
    }

    impl Position {
        /*@fn radix-transactions/src/manifest/token.rs :: impl Position :: fn advance
        @subst <<mut self>> => <<self>> why: Verus does not support a `mut self` receiver; the by-value receiver is copied into a mutable local `this` (next two rewrites), which is what `mut self` denotes
        @subst <<self.>> => <<this.>> x4 why: see above: the body mutates the local copy `this` of the by-value receiver
        @subst <<} self }>> => <<} this }>> why: see above: the function returns the mutated copy
        @sig
            requires self.full_index < usize::MAX, self.line_idx < usize::MAX, self.line_char_index < usize::MAX
            ensures ret == step(self, next_char)
        @entry
            let mut this = self;
        @*/
        /*@fn radix-transactions/src/manifest/token.rs :: impl Position :: fn line_number
        @sig
            requires self.line_idx < usize::MAX
            ensures ret == self.line_idx + 1
        @*/
    }

    impl LexerError {
        /*@fn radix-transactions/src/manifest/lexer.rs :: impl LexerError :: fn unexpected_char
        @sig
            requires position.full_index < usize::MAX, position.line_idx < usize::MAX, position.line_char_index < usize::MAX
            ensures ret.span == (Span { start: position, end: step(position, c) }),
                ret.error_kind == LexerErrorKind::UnexpectedChar(c, expected)
        @*/
        /*@fn radix-transactions/src/manifest/lexer.rs :: impl LexerError :: fn invalid_integer_type
        @sig
            ensures ret.span == (Span { start, end }), ret.error_kind == LexerErrorKind::InvalidIntegerType(ty)
        @*/
    }

    impl Lexer {
        /*@fn radix-transactions/src/manifest/lexer.rs :: impl Lexer :: fn new
        @sig
            ensures ret.text@ == text@, ret.current.full_index == 0, wf(ret)
        @*/
        /*@fn radix-transactions/src/manifest/lexer.rs :: impl Lexer :: fn is_eof
        @sig
            ensures ret == (self.current.full_index == self.text@.len())
        @*/
        /*@fn radix-transactions/src/manifest/lexer.rs :: impl Lexer :: fn peek
        @sig
            requires wf(*self)
            ensures
                ret is Ok <==> self.current.full_index < self.text@.len(),
                ret matches Ok(c) ==> c == self.text@[self.current.full_index as int],
                ret matches Err(e) ==> e.error_kind == LexerErrorKind::UnexpectedEof
                    && e.span == (Span { start: self.current, end: self.current }) && span_ok(self.text@, e.span),
        @*/
        /*@fn radix-transactions/src/manifest/lexer.rs :: impl Lexer :: fn advance
        @sig
            requires wf(*old(self))
            ensures
                wf(*final(self)), final(self).text == old(self).text,
                ret is Ok <==> old(self).current.full_index < old(self).text@.len(),
                ret matches Ok(c) ==> c == old(self).text@[old(self).current.full_index as int]
                    && final(self).current.full_index == old(self).current.full_index + 1
                    && final(self).current == step(old(self).current, c),
                ret matches Err(e) ==> final(self).current == old(self).current && e.error_kind == LexerErrorKind::UnexpectedEof
                    && e.span == (Span { start: old(self).current, end: old(self).current }) && span_ok(old(self).text@, e.span),
        @entry
            proof {
                assert(self.text@.len() == self.text.len());
                lemma_pos_bounds(self.text@, self.current.full_index as int);
                if self.current.full_index < self.text@.len() { lemma_step(self.text@, self.current.full_index as int); }
            }
        @*/

        /*@fn radix-transactions/src/manifest/lexer.rs :: impl Lexer :: fn advance_matching
        @sig
            requires wf(*old(self)), forall|c: char| matcher.requires((c,))
            ensures
                wf(*final(self)), final(self).text == old(self).text,
                final(self).current.full_index >= old(self).current.full_index,
                ret matches Ok(c) ==> c == old(self).text@[old(self).current.full_index as int]
                    && old(self).current.full_index < old(self).text@.len()
                    && final(self).current.full_index == old(self).current.full_index + 1
                    && matcher.ensures((c,), true),
                ret matches Err(e) ==> span_ok(old(self).text@, e.span),
        @entry
            proof {
                assert(self.text@.len() == self.text.len());
                lemma_pos_bounds(self.text@, self.current.full_index as int);
                if self.current.full_index < self.text@.len() { lemma_step(self.text@, self.current.full_index as int); }
            }
        @*/
        /*@fn radix-transactions/src/manifest/lexer.rs :: impl Lexer :: fn advance_expected
        @sig
            requires wf(*old(self))
            ensures
                wf(*final(self)), final(self).text == old(self).text,
                final(self).current.full_index >= old(self).current.full_index,
                ret matches Ok(c) ==> c == expected && c == old(self).text@[old(self).current.full_index as int]
                    && final(self).current.full_index == old(self).current.full_index + 1,
                ret matches Err(e) ==> span_ok(old(self).text@, e.span),
        @closure 1 := |c: char| -> (b: bool) ensures b == (c == expected)
        @*/
        /*@fn radix-transactions/src/manifest/lexer.rs :: impl Lexer :: fn advance_and_append
        @sig
            requires wf(*old(self))
            ensures
                wf(*final(self)), final(self).text == old(self).text,
                ret is Ok <==> old(self).current.full_index < old(self).text@.len(),
                ret matches Ok(c) ==> c == old(self).text@[old(self).current.full_index as int]
                    && final(self).current.full_index == old(self).current.full_index + 1
                    && final(s)@ == old(s)@.push(c),
                ret matches Err(e) ==> final(self).current == old(self).current && span_ok(old(self).text@, e.span),
        @*/
        /*@fn radix-transactions/src/manifest/lexer.rs :: impl Lexer :: fn is_whitespace
        @sig
            ensures ret == is_ws(c)
        @*/
        /*@fn radix-transactions/src/manifest/lexer.rs :: impl Lexer :: fn new_token
        @sig
            ensures ret.token == token, ret.span == (Span { start, end })
        @*/
        /*@fn radix-transactions/src/manifest/lexer.rs :: impl Lexer :: fn read_utf16_unit
        @sig
            requires wf(*old(self))
            ensures
                wf(*final(self)), final(self).text == old(self).text,
                final(self).current.full_index >= old(self).current.full_index,
                ret matches Ok(code) ==> code <= 0xFFFF && final(self).current.full_index == old(self).current.full_index + 4,
                ret matches Err(e) ==> span_ok(old(self).text@, e.span),
        @closure 1 := |c: char| -> (b: bool) ensures b == is_hex(c)
        @loop 1 iter it
            invariant
                wf(*self), self.text == old(self).text,
                self.current.full_index == old(self).current.full_index + it.index@,
                0 <= it.index@ <= 4,
                it.index@ == 0 ==> code < 1, it.index@ == 1 ==> code < 0x10, it.index@ == 2 ==> code < 0x100,
                it.index@ == 3 ==> code < 0x1000, it.index@ == 4 ==> code < 0x10000,
        @*/

        /*@fn radix-transactions/src/manifest/lexer.rs :: impl Lexer :: fn tokenize_punctuation
        @sig
            requires wf(*old(self))
            ensures tok_post(*old(self), *final(self), ret)
        @entry
            proof { lemma_bounds(*self); }
        @*/
        /*@fn radix-transactions/src/manifest/lexer.rs :: impl Lexer :: fn tokenize_identifier
        @sig
            requires wf(*old(self))
            ensures tok_post(*old(self), *final(self), ret)
        @loop 1
            invariant wf(*self), self.text == old(self).text, self.current.full_index > old(self).current.full_index
            decreases self.text@.len() - self.current.full_index
        @*/

        /*@fn radix-transactions/src/manifest/lexer.rs :: impl Lexer :: fn tokenize_string
        @sig
            requires wf(*old(self)), old(self).current.full_index < old(self).text@.len(),
                old(self).text@[old(self).current.full_index as int] == '"'
            ensures tok_post(*old(self), *final(self), ret)
        @entry
            proof { lemma_bounds(*self); }
        @loop 1
            invariant wf(*self), self.text == old(self).text, self.current.full_index > old(self).current.full_index,
                start == old(self).current,
            decreases self.text@.len() - self.current.full_index
        @before <<+ self.read_utf16_unit()?>>
            proof {
                let hi = (unicode - 0xD800) as u32;
                assert(hi <= 0x7FF);
                assert((hi << 10u32) <= 0x1FFC00u32) by (bit_vector) requires hi <= 0x7FFu32;
                lemma_bounds(*self);
            }
        @before <<return Err(LexerError::unexpected_char(>>
            proof { lemma_bounds(*self); lemma_pos_bounds(self.text@, token_start.full_index as int); lemma_step(self.text@, token_start.full_index as int); }
        @*/

        /*@fn radix-transactions/src/manifest/lexer.rs :: impl Lexer :: fn tokenize_number
        @subst <<Token::I128Literal,>> => <<|v: i128| -> (r: Token) ensures r == Token::I128Literal(v) { Token::I128Literal(v) },>> why: Verus rejects a tuple-variant constructor used as a function value; eta-expanded to the closure it denotes
        @subst <<Token::I16Literal,>> => <<|v: i16| -> (r: Token) ensures r == Token::I16Literal(v) { Token::I16Literal(v) },>> why: Verus rejects a tuple-variant constructor used as a function value; eta-expanded to the closure it denotes
        @subst <<Token::I32Literal,>> => <<|v: i32| -> (r: Token) ensures r == Token::I32Literal(v) { Token::I32Literal(v) },>> why: Verus rejects a tuple-variant constructor used as a function value; eta-expanded to the closure it denotes
        @subst <<Token::I64Literal,>> => <<|v: i64| -> (r: Token) ensures r == Token::I64Literal(v) { Token::I64Literal(v) },>> why: Verus rejects a tuple-variant constructor used as a function value; eta-expanded to the closure it denotes
        @subst <<Token::I8Literal,>> => <<|v: i8| -> (r: Token) ensures r == Token::I8Literal(v) { Token::I8Literal(v) },>> why: Verus rejects a tuple-variant constructor used as a function value; eta-expanded to the closure it denotes
        @subst <<Token::U128Literal,>> => <<|v: u128| -> (r: Token) ensures r == Token::U128Literal(v) { Token::U128Literal(v) },>> why: Verus rejects a tuple-variant constructor used as a function value; eta-expanded to the closure it denotes
        @subst <<Token::U16Literal,>> => <<|v: u16| -> (r: Token) ensures r == Token::U16Literal(v) { Token::U16Literal(v) },>> why: Verus rejects a tuple-variant constructor used as a function value; eta-expanded to the closure it denotes
        @subst <<Token::U32Literal,>> => <<|v: u32| -> (r: Token) ensures r == Token::U32Literal(v) { Token::U32Literal(v) },>> why: Verus rejects a tuple-variant constructor used as a function value; eta-expanded to the closure it denotes
        @subst <<Token::U64Literal,>> => <<|v: u64| -> (r: Token) ensures r == Token::U64Literal(v) { Token::U64Literal(v) },>> why: Verus rejects a tuple-variant constructor used as a function value; eta-expanded to the closure it denotes
        @subst <<Token::U8Literal,>> => <<|v: u8| -> (r: Token) ensures r == Token::U8Literal(v) { Token::U8Literal(v) },>> why: Verus rejects a tuple-variant constructor used as a function value; eta-expanded to the closure it denotes
        @sig
            requires wf(*old(self))
            ensures tok_post(*old(self), *final(self), ret)
        @closure 1 := |token: Token| -> (r: TokenWithSpan) ensures r.span == (Span { start: literal_start, end: self.current })
        @loop 1
            invariant wf(*self), self.text == old(self).text, self.current.full_index > old(self).current.full_index,
            decreases self.text@.len() - self.current.full_index
        @*/
        /*@fn radix-transactions/src/manifest/lexer.rs :: impl Lexer :: fn next_token
        @sig
            requires wf(*old(self))
            ensures
                wf(*final(self)), final(self).text == old(self).text,
                ret matches Ok(None) ==> final(self).current.full_index == final(self).text@.len()
                    && skip(old(self).text@, old(self).current.full_index as int, false) == old(self).text@.len(),
                ret matches Ok(Some(t)) ==> t.span.start.full_index == skip(old(self).text@, old(self).current.full_index as int, false)
                    && old(self).current.full_index <= t.span.start.full_index < t.span.end.full_index
                    && t.span.end == final(self).current
                    && span_ok(old(self).text@, t.span),
                ret matches Err(e) ==> span_ok(old(self).text@, e.span),
        @entry
            proof { lemma_skip_ge(self.text@, self.current.full_index as int, false); }
        @before <<match self.peek()?>>
            proof { lemma_bounds(*self); lemma_step(self.text@, self.current.full_index as int); }
        @loop 1
            invariant wf(*self), self.text == old(self).text, self.current.full_index >= old(self).current.full_index,
                skip(self.text@, self.current.full_index as int, in_comment) == skip(self.text@, old(self).current.full_index as int, false),
            ensures self.current.full_index == self.text@.len()
                || (!in_comment && skip(self.text@, self.current.full_index as int, false) == self.current.full_index),
            decreases self.text@.len() - self.current.full_index, (if in_comment { 0int } else { 1int })
        @*/
    }

    /*@fn radix-transactions/src/manifest/lexer.rs :: fn tokenize
    @sig
        ensures
            ret matches Ok(tokens) ==> tokens_cover(s@, tokens@),
            ret matches Err(e) ==> span_ok(s@, e.span),
    @loop 1
        invariant_except_break prefix_cover(s@, tokens@, lexer.current.full_index as int),
        invariant wf(lexer), lexer.text@ == s@,
        ensures tokens_cover(s@, tokens@),
        decreases lexer.text@.len() - lexer.current.full_index
    @before <<tokens.push(token)>>
        let ghost before = tokens@;
    @after <<tokens.push(token)>>
        proof {
            assert(tokens@ == before.push(token));
            assert forall|k: int| 0 <= k < tokens@.len() implies span_ok(s@, #[trigger] tokens@[k].span)
                && tokens@[k].span.start.full_index < tokens@[k].span.end.full_index
                && tokens@[k].span.start.full_index == skip(s@, prev_end(tokens@, k), false) by {
                if k < before.len() { assert(tokens@[k] == before[k]); assert(span_ok(s@, before[k].span)); if k > 0 { assert(tokens@[k - 1] == before[k - 1]); } }
            }
        }
    @*/
} // mod lexer
}
} // verus!
fn main() {}
